"""
C26 — Solute–vacancy jump networks classify every transition exactly once.

Tie: the exact crystal data / group ops of C24 (harness/props/c24.py) are shipped to the Lean model
(Drive/C26.lean); StarSet.jumpnetwork_omega1 / jumpnetwork_omega2 (unpruned) and the real
VacancyMediated(…, Nthermo).om1_jn / om2_jn (pruned by VacancyMediated.generate) are compared with
the model as canonical class sets (jump type, set of (initial, final) state pairs, dx per pair).
Direct oracles state the property on the implementation's own output with independent exact
integer arithmetic: exactly-once cover, closure under the group and reversal, displacement.
"""
from fractions import Fraction
import numpy as np
from props import c24 as K

META = dict(
    id='C26',
    level_text='Kernel-checked theorems about the exact model of jumpnetwork_omega1/omega2/symmequivjumplist and the '
               'pruning, for every op list that is a group on pair states, every G-closed state list and jump list '
               '(unbounded): each class is closed under the group and reversal and duplicate-free; the (initial, final) '
               'pairs over all classes are duplicate-free and are exactly the transitions PSi -> PSi+jump with both ends '
               'non-zero states (omega1) / PSi -> -PSi with -PSi a jump (omega2): every transition in exactly one class, '
               'exactly once; the stored dx is the vacancy displacement dx(PSf)-dx(PSi) (= dx of the jump), -dx(PSi) for '
               'exchange; the recorded jump type is the index of the jump class carrying the generating pair; pruning keeps '
               'exactly the classes with an end in the thermodynamic set (vm_exact_of_tests: both networks of '
               'VacancyMediated.generate from the decidable tests alone). All hypotheses (group, crystal symmetry, jump list '
               'valid / G-closed / reversal-closed) are decidable tests with soundness theorems, evaluated by the driver on '
               'the real crystal and network on every run; the implementation is tied by differential runs on StarSet and '
               'on real VacancyMediated objects plus direct oracles.',
    level_note='Trusted: Lean kernel + standard axioms; harness extraction of ops / rational data (as C24). Modelled, not '
               'verified: identification of a state index with the state (states are distinct: C24), Python None==None '
               'comparison, numpy float dx (compared to the exact value within 1e-9*scale).',
    technique='Lean 4 proofs (fold invariants over the class-building loops, finite group action) + differential runs + '
              'direct exact oracles on implementation output',
    lean_modules=['OnsagerModel.C24', 'OnsagerModel.C26', 'OnsagerProofs.C24Basic', 'OnsagerProofs.C24Group',
                  'OnsagerProofs.C24Gen', 'OnsagerProofs.C24Stars', 'OnsagerProofs.C24', 'OnsagerProofs.C26Class', 'OnsagerProofs.C26Net',
                  'OnsagerProofs.C26'],
    theorems=[],
    tie_theorems=[],
    rule='case = (crystal, chemistry, jump network at a neighbour cutoff or malformed variant, N / Nthermo, originstates); '
         'StarSet-level: omega1/omega2 of StarSet(N); VM-level: VacancyMediated(Nthermo in 1..2) om1_jn/om2_jn/jt/SP and '
         'omegalist(); object-reuse histories on one StarSet (networks asked, object changed in place by +=, generate, '
         'diffgenerate, networks asked again; direct oracle + comparison with a fresh object); non-trivial = at least 2 '
         'omega1 classes; distinct by request text',
    trusted=['harness/props/c24.py exact extraction (shared with C24)'],
    assumptions=['jump networks passed to VacancyMediated are the symmetric ones produced by crys.jumpnetwork'],
)
META['theorems'] = ['Onsager.C26.' + t for t in (
    'mem_pairs_symmEquiv', 'mem_pairs_symmEquiv_closed', 'symmEquiv_pairs_nodup', 'symmEquiv_reversal_closed',
    'symmEquiv_G_closed', 'symmEquiv_dx',
    'omega1_cover', 'omega1_pairs_nodup', 'omega1_sound', 'omega1_exactly_once', 'omega1_class_closed', 'omega1_jumptype',
    'omega1_dx_is_vacancy_displacement',
    'omega2_cover', 'omega2_pairs_nodup', 'omega2_sound', 'omega2_exactly_once', 'omega2_class_closed',
    'omega2_dx_is_exchange_displacement',
    'isOuter_iff', 'prune_exact', 'vm_om1_exact', 'vm_om2_exact', 'vm_exact_of_tests')]

DRIVER = 'Drive/C26.lean'


# ---------------------------------------------------------------- views
def impl_net(keys, trip):
    """(jumpnetwork, jumptype, starpair) -> list of dict(jt, sp, entries=[(a,b,dx)]) with states as keys / None"""
    if trip == []:
        return []
    jn, jt, sp = trip
    out = []
    for cls, t, p in zip(jn, jt, sp):
        ent = []
        for (i, f), dx in cls:
            ent.append((None if i is None else keys[i], None if f is None else keys[f], np.array(dx, dtype=float)))
        out.append(dict(jt=int(t), sp=(int(p[0]), int(p[1])), entries=ent, raw=cls))
    return out


def _ops(txt):
    return None if txt == 'N' else tuple(int(x) for x in txt.split(','))


def parse_net(txt):
    if txt == '-': return []
    out = []
    for c in txt.split('|'):
        jt, rep, ents = c.split(':')
        i, f = rep.split('>')
        entries = []
        for e in ents.split(';'):
            ab, dx = e.split('@')
            a, b = ab.split('>')
            entries.append((_ops(a), _ops(b), [Fraction(x) for x in dx.split(',')]))
        out.append(dict(jt=int(jt), i=_ops(i), f=_ops(f), entries=entries))
    return out


def canon_net(net):
    return sorted((c['jt'], tuple(sorted((a, b) for a, b, _ in c['entries']))) for c in net if True)


def _key_none(p):
    return tuple((0, ()) if x is None else (1, x) for x in p)


def canon_net_safe(net):
    return sorted(((c['jt'], tuple(sorted(((a, b) for a, b, _ in c['entries']), key=_key_none))) for c in net),
                  key=lambda t: (t[0], tuple(_key_none(p) for p in t[1])))


def compare_net(ctx, E, tag, what, impl, model, replay):
    if canon_net_safe(impl) != canon_net_safe(model):
        ic, mc = canon_net_safe(impl), canon_net_safe(model)
        only_i = [c for c in ic if c not in mc][:2]
        only_m = [c for c in mc if c not in ic][:2]
        ctx.disagree('%s %s: classes differ (impl %d classes, model %d); impl-only %s; model-only %s'
                     % (tag, what, len(impl), len(model), K.short(repr(only_i), 300), K.short(repr(only_m), 300)), replay)
        return
    scale = float(np.max(np.abs(E.crys.lattice)))
    mdx = {}
    for c in model:
        for a, b, dx in c['entries']: mdx[(a, b)] = dx
    for c in impl:
        for a, b, dx in c['entries']:
            want = E.cart(mdx[(a, b)])
            if not np.allclose(dx, want, atol=1e-9 * scale * (1 + float(np.max(np.abs(want))))):
                ctx.disagree('%s %s: dx of %s -> %s is %s, model %s' % (tag, what, a, b, dx, want), replay)
                return


# ---------------------------------------------------------------- direct oracles
def neg(k):
    return (k[1], k[0], -k[2], -k[3], -k[4])


def expected_transitions(keys, classes, kind):
    """{(i, f): set of jump types} over all states and jumps, by exact arithmetic"""
    pos = {k: i for i, k in enumerate(keys)}
    exp = {}
    for i, k in enumerate(keys):
        if K.iszero(k): continue
        for jt, cls in enumerate(classes):
            for t in cls:
                if k[1] != t[0]: continue
                fk = (k[0], t[1], k[2] + t[2], k[3] + t[3], k[4] + t[4])
                if kind == 1:
                    if K.iszero(fk) or fk not in pos: continue
                    exp.setdefault((i, pos[fk]), set()).add(jt)
                else:
                    if not K.iszero(fk): continue
                    exp.setdefault((i, pos.get(neg(k))), set()).add(jt)
    return exp


def oracle_network(ctx, E, S, keys, classes, trip, kind, what, replay, closed, thermo=None, proper=True):
    """Direct statement of C26 on the implementation's (jumpnetwork, jumptype, starpair)."""
    tag = 'omega%d' % kind
    if trip == []:
        return
    jn, jts, sps = trip
    pos = {k: i for i, k in enumerate(keys)}
    scale = float(np.max(np.abs(E.crys.lattice)))

    def viol(sig, msg, extra=None):
        r = dict(replay); r.update(extra or {})
        ctx.violation('%s:%s' % (tag, sig), '%s %s: %s' % (tag, what, msg), r)

    if not (len(jn) == len(jts) == len(sps)):
        viol('lengths', 'jumpnetwork/jumptype/starpair lengths %d/%d/%d' % (len(jn), len(jts), len(sps))); return
    seen = {}
    for ci, cls in enumerate(jn):
        for (i, f), dx in cls:
            if i is None or f is None:
                if closed:
                    viol('none-index', 'class %d lists a transition with a missing state index (%r,%r)' % (ci, i, f)); return
                continue
            if (i, f) in seen:
                viol('listed-twice', 'transition %s -> %s appears in class %d and again in class %d'
                     % (keys[i], keys[f], seen[(i, f)], ci), dict(transition=[keys[i], keys[f]])); return
            seen[(int(i), int(f))] = ci
    exp = expected_transitions(keys, classes, kind)
    if thermo is not None:
        exp = {p: v for p, v in exp.items() if keys[p[0]] in thermo or keys[p[1]] in thermo}
    missing = sorted(set(exp) - set(seen), key=repr)
    extra = sorted(set(seen) - set(exp), key=repr)
    if missing:
        i, f = missing[0]
        viol('transition-missing', '%d transitions in no class, e.g. %s -> %s' % (len(missing), keys[i], None if f is None else keys[f]),
             dict(transition=[keys[i], None if f is None else keys[f]])); return
    if extra and proper:
        i, f = extra[0]
        viol('spurious-transition' if thermo is None else 'not-pruned',
             '%d listed transitions are not %s, e.g. %s -> %s'
             % (len(extra), 'jumps between states' if thermo is None else 'jumps touching the thermodynamic range', keys[i], keys[f]),
             dict(transition=[keys[i], keys[f]])); return
    for (i, f), ci in seen.items():
        if proper and (i, f) in exp and jts[ci] not in exp[(i, f)]:
            viol('jumptype-wrong', 'class %d has jump type %d but %s -> %s is a jump of type %s'
                 % (ci, jts[ci], keys[i], keys[f], sorted(exp[(i, f)]))); return
    for ci, cls in enumerate(jn):
        (i0, f0), dx0 = cls[0]
        if i0 is None or f0 is None: continue
        if (int(sps[ci][0]), int(sps[ci][1])) != (int(S.index[i0]), int(S.index[f0])):
            viol('starpair-wrong', 'class %d starpair %s but its first jump joins stars (%d,%d)'
                 % (ci, tuple(sps[ci]), S.index[i0], S.index[f0])); return
        imgs = set()
        for op in E.ops:
            a, b = E.act(op, keys[i0]), E.act(op, keys[f0])
            imgs.add((a, b)); imgs.add((b, a))
        for (i, f), dx in cls:
            if i is None or f is None: continue
            if seen.get((f, i)) != ci:
                viol('not-reversal-closed', 'class %d holds %s -> %s but not the reverse jump' % (ci, keys[i], keys[f])); return
            if (keys[i], keys[f]) not in imgs and (keys[i], keys[f]) != (keys[i0], keys[f0]) and (keys[i], keys[f]) != (keys[f0], keys[i0]):
                viol('class-mixes-orbits', 'class %d: %s -> %s is not a symmetry image of its first jump' % (ci, keys[i], keys[f])); return
            for op in E.ops:
                a, b = E.act(op, keys[i]), E.act(op, keys[f])
                if a in pos and b in pos:
                    if seen.get((pos[a], pos[b])) != ci:
                        viol('not-G-closed', 'class %d holds %s -> %s but its image %s -> %s is in class %r'
                             % (ci, keys[i], keys[f], a, b, seen.get((pos[a], pos[b])))); return
                elif closed:
                    viol('image-not-a-state', 'image %s -> %s of a listed jump leaves the state set' % (a, b)); return
            # displacement
            if kind == 1:
                want = S.states[f].dx - S.states[i].dx
                exact = [x - y for x, y in zip(E.dx(keys[f]), E.dx(keys[i]))]
            else:
                want = -S.states[i].dx
                exact = [-x for x in E.dx(keys[i])]
                if keys[f] != neg(keys[i]):
                    viol('exchange-endpoint', 'exchange jump from %s ends at %s, not at the swapped pair' % (keys[i], keys[f])); return
            tol = 1e-9 * scale * (1 + float(np.max(np.abs(want))))
            if not (np.allclose(dx, want, atol=tol) and np.allclose(dx, E.cart(exact), atol=tol)):
                viol('dx-wrong', 'dx of %s -> %s is %s, vacancy displacement is %s' % (keys[i], keys[f], dx, want)); return


# ---------------------------------------------------------------- cases
def starset_case(ctx, B, E, name, classes, N, origin, kind):
    closed = K.is_G_closed(E, [s for c in classes for s in c])
    proper = K.is_proper(E, classes)
    what = '%s N=%d origin=%d %s' % (name, N, origin, kind)
    replay = dict(crystal=name, chem=E.chem, lattice=repr(E.crys.lattice.tolist()),
                  basis=repr([[list(map(float, u)) for u in b] for b in E.crys.basis]),
                  jumpnetwork_lattice_form=classes, Nshells=N, originstates=origin, network=kind)
    try:
        S = K.make_starset(E, classes, N, origin)
    except Exception as e:
        ctx.violation('generate:raises:' + type(e).__name__, '%s: StarSet construction raised %r' % (what, e), replay)
        return
    keys, _ = K.impl_view(S)
    snapS = K.snapshot(S)
    try:
        t1 = S.jumpnetwork_omega1()
        t2 = S.jumpnetwork_omega2()
        if K.snapshot(S) != snapS:
            ctx.violation('operand-mutated:omega', '%s: jumpnetwork_omega1/2 changed the star set' % what, replay)
    except Exception as e:
        ctx.violation('omega:raises:' + type(e).__name__, '%s: jumpnetwork_omega raised %r' % (what, e), replay)
        return
    oracle_network(ctx, E, S, keys, classes, t1, 1, what, replay, closed, proper=proper)
    oracle_network(ctx, E, S, keys, classes, t2, 2, what, replay, closed, proper=proper)
    n1, n2 = impl_net(keys, t1), impl_net(keys, t2)
    if proper:
        def cb(a, l):
            parts = a.split(' ')
            if parts[0] != 'ok' or len(parts) != 3:
                ctx.disagree('om %s: model answered %s' % (what, K.short(a, 80)), replay); return
            compare_net(ctx, E, 'omega1', what, n1, parse_net(parts[1]), replay)
            compare_net(ctx, E, 'omega2', what, n2, parse_net(parts[2]), replay)
        B.ask('om %d %d' % (N, int(origin)), cb)
    ctx.case(('om', name, E.chem, tuple(map(tuple, classes)), N, origin), nontrivial=len(n1) >= 2,
             sample=dict(case=what, nstates=len(keys), om1_classes=len(n1), om1_jumps=sum(len(c['entries']) for c in n1),
                         om2_classes=len(n2)))
    ctx.count('om:' + kind); ctx.count('N=%d' % N); ctx.count('origin=%d' % origin); ctx.count('dim=%d' % E.dim)
    ctx.count('nsites=%d' % E.n); ctx.count('jumpclasses=%d' % len(classes))
    ctx.count('proper' if proper else ('closed-improper' if closed else 'not-G-closed'))


def reuse_case(ctx, E, name, classes, hist, kind):
    """Object-reuse history on ONE StarSet: networks asked, the object changed in place by a mutating operation of the
    class (`+=`, generate with another range / origin flag, diffgenerate into it), networks asked again.  The second
    answer must satisfy the property for the states the object now holds (direct oracle: every allowed transition in
    exactly one class, ...) and equal the answer of a fresh object holding the same states."""
    op, N1, N2, o1, o2 = hist
    what = '%s reuse-history [networks; %s; networks] N=%d->%d origin=%d->%d %s' % (name, op, N1, N2, o1, o2, kind)
    replay = dict(crystal=name, chem=E.chem, lattice=repr(E.crys.lattice.tolist()),
                  basis=repr([[list(map(float, u)) for u in b] for b in E.crys.basis]),
                  jumpnetwork_lattice_form=classes, history=dict(op=op, N1=N1, N2=N2, origin1=o1, origin2=o2), network=kind)
    closed = K.is_G_closed(E, [s for c in classes for s in c])
    try:
        S = K.make_starset(E, classes, N1, o1)
        S.jumpnetwork_omega1(); S.jumpnetwork_omega2()          # first use
        other = K.make_starset(E, classes, N2, o2)
        if op == 'iadd':
            S += other
            fresh = K.make_starset(E, classes, N1, o1) + K.make_starset(E, classes, N2, o2)     # never asked for networks
        elif op == 'generate':
            S.generate(N2, originstates=o2)
            fresh = K.make_starset(E, classes, N2, o2)
        else:   # diffgenerate into the used object
            A, Bs = K.make_starset(E, classes, N1, o1), other
            S.diffgenerate(A, Bs)
            fresh = A.copy(empty=True); fresh.diffgenerate(A, Bs)
        keys, _ = K.impl_view(S)
        fkeys, _ = K.impl_view(fresh)
        trips = (S.jumpnetwork_omega1(), S.jumpnetwork_omega2())
        again = (S.jumpnetwork_omega1(), S.jumpnetwork_omega2())
        ftrips = (fresh.jumpnetwork_omega1(), fresh.jumpnetwork_omega2())
    except Exception as e:
        ctx.violation('reuse:%s:raises:%s' % (op, type(e).__name__), '%s raised %r' % (what, e), replay)
        return
    same_states = sorted(keys) == sorted(fkeys)
    if not same_states:
        if op == 'generate' and N1 == N2 and o1 != o2:
            # generate() returns early when the range is unchanged and silently ignores the origin-state flag
            ctx.violation('reuse:generate:origin-flag-ignored',
                          '%s: generate(%d, originstates=%s) on an object generated with originstates=%s leaves %d states, a fresh object has %d'
                          % (what, N2, bool(o2), bool(o1), len(keys), len(fkeys)), replay)
        else:
            ctx.violation('reuse:%s:states-differ' % op, '%s: the reused object holds %d states, a fresh one %d' % (what, len(keys), len(fkeys)), replay)
            return
    nbefore = len(ctx.violations)
    for kd, trip, ftrip, ag in ((1, trips[0], ftrips[0], again[0]), (2, trips[1], ftrips[1], again[1])):
        # the direct statement of the property for the states the object holds now
        oracle_network(ctx, E, S, keys, classes, trip, kd, what, replay, closed and op != 'diff', proper=True)
        # the same classes (partition, jump types), star pairs as stars, as a fresh object holding the same states
        def view(S_, keys_, trip_):
            if trip_ == []: return []
            net = impl_net(keys_, trip_)
            starkeys = [tuple(sorted(keys_[x] for x in st)) for st in S_.stars]
            return sorted(((c['jt'], tuple(sorted(((a, b) for a, b, _ in c['entries']), key=_key_none)),
                            tuple(sorted((starkeys[c['sp'][0]], starkeys[c['sp'][1]])))) for c in net), key=repr)
            # (the star pair is that of the class's first jump; its orientation depends on the state order: unordered)
        v, fv, av = view(S, keys, trip), view(fresh, fkeys, ftrip), view(S, keys, ag)
        if not same_states:
            continue
        if v != fv:
            nj, fnj = sum(len(c[1]) for c in v), sum(len(c[1]) for c in fv)
            ctx.violation('reuse:%s:omega%d:differs-from-fresh' % (op, kd),
                          '%s: omega%d has %d classes / %d jumps on the reused object, %d / %d on a fresh object with the same states'
                          % (what, kd, len(v), nj, len(fv), fnj), replay)
        elif av != v:
            ctx.violation('reuse:%s:omega%d:second-call-differs' % (op, kd), '%s: asking omega%d twice gives different networks' % (what, kd), replay)
    ctx.case(('reuse', name, E.chem, tuple(map(tuple, classes)), hist), nontrivial=len(keys) > 2,
             sample=dict(case=what, nstates=len(keys)) if len(ctx.violations) == nbefore else None)
    ctx.count('reuse-history:' + op)


def vm_case(ctx, B, E, name, classes, Nthermo, kind):
    from onsager import OnsagerCalc
    what = '%s VacancyMediated Nthermo=%d %s' % (name, Nthermo, kind)
    replay = dict(crystal=name, chem=E.chem, lattice=repr(E.crys.lattice.tolist()),
                  basis=repr([[list(map(float, u)) for u in b] for b in E.crys.basis]),
                  jumpnetwork_lattice_form=classes, Nthermo=Nthermo, network=kind)
    d = E.dim
    jn = [[((i, j), np.dot(E.crys.lattice, np.array(R[:d]) + E.crys.basis[E.chem][j] - E.crys.basis[E.chem][i]))
           for (i, j, *R) in cls] for cls in classes]
    try:
        VM = OnsagerCalc.VacancyMediated(E.crys, E.chem, E.crys.sitelist(E.chem), jn, Nthermo, NGFmax=1)
    except Exception as e:
        ctx.note('VacancyMediated could not be built for %s: %r' % (what, e))
        ctx.count('vm:construction-failed')
        return
    S = VM.kinetic
    keys, _ = K.impl_view(S)
    tkeys = set(K.ps_key(s) for s in VM.thermo.states)
    t1 = (VM.om1_jn, VM.om1_jt, VM.om1_SP)
    t2 = (VM.om2_jn, VM.om2_jt, VM.om2_SP)
    oracle_network(ctx, E, S, keys, classes, t1, 1, what, replay, True, thermo=tkeys)
    oracle_network(ctx, E, S, keys, classes, t2, 2, what, replay, True)
    # kinetic / thermo ranges themselves
    if set(keys) != K.reach(E, [s for c in classes for s in c], Nthermo + 1, True):
        ctx.violation('vm:kinetic-range', '%s: kinetic states are not the %d-jump range with origin states' % (what, Nthermo + 1), replay)
    if tkeys != K.reach(E, [s for c in classes for s in c], Nthermo, False):
        ctx.violation('vm:thermo-range', '%s: thermodynamic states are not the %d-jump range' % (what, Nthermo), replay)
    for k in (1, 2):
        try:
            ol, ojt = VM.omegalist(k)
            trip = t1 if k == 1 else t2
            ok = len(ol) == len(trip[0]) and list(ojt) == list(trip[1]) and all(
                K.ps_key(a) == keys[c[0][0][0]] and K.ps_key(b) == keys[c[0][0][1]] for (a, b), c in zip(ol, trip[0]))
            if not ok:
                ctx.violation('omegalist:inconsistent', '%s: omegalist(%d) does not list the first jump of every class' % (what, k), replay)
        except Exception as e:
            ctx.violation('omegalist:raises', '%s: omegalist(%d) raised %r' % (what, k, e), replay)
    n1, n2 = impl_net(keys, t1), impl_net(keys, t2)

    def cb(a, l):
        parts = a.split(' ')
        if parts[0] != 'ok' or len(parts) != 5:
            ctx.disagree('vm %s: model answered %s' % (what, K.short(a, 80)), replay); return
        if sorted(K.parse_states(parts[1])) != sorted(tkeys):
            ctx.disagree('vm %s: thermo states differ' % what, replay)
        if sorted(K.parse_states(parts[2])) != sorted(keys):
            ctx.disagree('vm %s: kinetic states differ' % what, replay)
        compare_net(ctx, E, 'om1(pruned)', what, n1, parse_net(parts[3]), replay)
        compare_net(ctx, E, 'om2', what, n2, parse_net(parts[4]), replay)
    B.ask('vm %d' % Nthermo, cb)
    ctx.case(('vm', name, E.chem, tuple(map(tuple, classes)), Nthermo), nontrivial=len(n1) >= 2,
             sample=dict(case=what, kinetic_states=len(keys), thermo_states=len(tkeys), om1_classes=len(n1),
                         om1_jumps=sum(len(c['entries']) for c in n1), om2_classes=len(n2)))
    ctx.count('vm:' + kind); ctx.count('Nthermo=%d' % Nthermo)


def run(ctx, search_mode=False):
    import time
    rng = ctx.rng
    t_run = time.time()
    B = K.Batch(ctx, DRIVER)
    crystals = list(K.zoo())
    nrand = (3 if ctx.quick else 30) * (3 if search_mode else 1)
    for _ in range(nrand):
        rc = K.random_crystal(rng)
        if rc is not None: crystals.append(rc)
    for ncrys, (name, crys, chem) in enumerate(crystals):
        if ncrys >= 4 and (time.time() - t_run > (40 if ctx.quick else 600) or ctx.budget_left() < (60 if ctx.quick else 500)):
            ctx.note('budget: stopped before ' + name); break
        E = K._exact_or_note(ctx, crys, chem, name)
        if E is None: continue
        nets = K.networks_for(E, rng, nmax=2 if ctx.quick else 3)
        if not nets: continue
        K.setup_crystal(ctx, B, E, name)
        for classes, label in nets:
            njump = sum(len(c) for c in classes)
            heavy = njump * E.n >= 24
            if ctx.quick and label != 'nn1' and njump * E.n > 30: continue
            K.ask_net(ctx, B, E, name, classes, label)
            # StarSet level, unpruned
            Ns = [1, 2] if (ctx.quick and heavy) else [1, 2, 3]
            if not ctx.quick and not heavy: Ns = [1, 2, 3]
            for N in Ns:
                if N == 3 and (heavy or (ctx.quick and njump > 8)): continue
                for origin in ((False, True) if N == 1 else (rng.random() < 0.5,)):
                    starset_case(ctx, B, E, name, classes, N, origin, label)
            # object-reuse histories on one StarSet (networks; in-place change; networks)
            if K.is_proper(E, classes):
                if ctx.quick:
                    hists = [('iadd', 1, 1, False, False), ('generate', 2, 1, True, False)] if heavy else \
                        [('iadd', 1, 1, False, False), ('generate', 1, 2, False, True), ('generate', 1, 1, False, True),
                         ('diff', 1, 1, False, False)]
                else:
                    hists = [('iadd', 1, 1, False, False), ('generate', 1, 2, False, True), ('generate', 2, 1, True, False),
                             ('diff', 1, 1, False, False), ('iadd', 2, 1, True, True), ('generate', 1, 1, False, True)]
                    if not heavy:
                        hists += [('iadd', 1, 2, False, False), ('diff', 2, 1, True, False), ('generate', 2, 3, False, False)]
                for h in hists:
                    reuse_case(ctx, E, name, classes, h, label)
            # VacancyMediated level, pruned
            for Nthermo in (1, 2):
                if Nthermo == 2 and ((ctx.quick and njump * E.n > 8) or njump * E.n > 40): continue
                vm_case(ctx, B, E, name, classes, Nthermo, label)
            # malformed networks: implementation oracles only (classes are order-dependent there)
            for _ in range(1 if ctx.quick else 2):
                m, mk = K.malform(rng, E, classes)
                if m:
                    K.ask_net(ctx, B, E, name, m, label + '-mal-' + mk)
                    starset_case(ctx, B, E, name, m, rng.choice([1, 2]), rng.random() < 0.5, label + '-mal-' + mk)
        B.flush()
    B.finish()


def search(ctx, reasons):
    run(ctx, search_mode=True)
