"""
C36 — value types (GroupOp, PairState, ClusterSite, Cluster, vacancyThermoKinetics) obey equality, hashing and
arithmetic laws.

Tie: (a) translator: the form of every `__ne__`, the attributes compared exactly / through np.allclose by `__eq__`
and the attributes used by `__hash__` are read from the source with `ast` into Generated/C36Facts.lean;
OnsagerProofs/C36Tie.lean proves they are the structure the model assumes.  (b) correspondence: random and
structured instances of every type go through the real operators and through Drive/C36.lean (`==`, `!=`, hash key,
`+`, unary `-`, `-`, `^`, ClusterSite arithmetic, Cluster construction/equality, allclose on the exact rationals of
the floats).  (c) direct oracles on the implementation state the property itself (equivalence relation, `!=` is the
negation, equal => equal hash, groupoid identities, commutation with symmetry operations).
"""
import ast, os, itertools, operator
from functools import reduce
from fractions import Fraction as Fr
import numpy as np
from props import c23 as geom
from props.c23 import fr, vtxt, itxt, parse_vec, fl, _jsonable

META = dict(
    id='C36',
    level_text='Kernel-checked theorems for ALL pair states / cluster sites / clusters / operations (any dimension): == is an '
               'equivalence and the hash key is exactly the compared data for PairState and ClusterSite; Cluster == is a total '
               'equivalence on constructed clusters and the XOR hash respects it when the sites are distinct (necessity shown); '
               'PairState + / unary - / - / ^ : definedness = exactly the raised errors, associativity with definedness, '
               'a+(-a)=0_i, (-a)+a=0_j, (a-b)+b=a, b+(a^b)=a with the exact exceptional set caused by the universal zero '
               'PairState.zero(-1) (witnesses proved), and g commutes with +, -, ^, unary - for every operation. For the '
               'tolerance-compared types the provable part (reflexive; exact part an equivalence; GroupOp hash ignores the '
               'tolerance fields) and the NEGATIVE results with witnesses (allclose neither transitive nor symmetric; vTK equal '
               'with different hash), which are replayed on the implementation and recorded as open findings. `!=` is tied to '
               'the source form of each __ne__. Partial: np.allclose is modelled on the exact rational values of the floats; '
               'array shape broadcasting is not modelled.',
    level_note='Trusted: Lean kernel + standard axioms; the ast extractor of __ne__/__eq__/__hash__ structure; the harness. '
               'Modelled not verified: Python tuple hashing (hash = function of the key, checked on every sampled pair), numpy '
               'allclose in floating point, Python sort stability in Cluster.__init__ (compared on every sample).',
    technique='Lean 4 algebraic proofs (groupoid with partial operations, equivalence relations, XOR-fold permutation invariance) '
              '+ ast-translated structure facts + differential runs + direct oracles; negative theorems with replayed witnesses',
    lean_modules=['OnsagerModel.C23', 'OnsagerModel.C36', 'OnsagerProofs.C23', 'OnsagerProofs.C36', 'Generated.C36Facts',
                  'OnsagerProofs.C36Tie'],
    theorems=['Onsager.C36.psEq_equivalence', 'Onsager.C36.psKey_eq_iff', 'Onsager.C36.ps_hash_respects_eq',
              'Onsager.C36.ne_is_negation', 'Onsager.C36.ne_bare_raises',
              'Onsager.C36.add_error_iff', 'Onsager.C36.xor_error_iff', 'Onsager.C36.add_assoc',
              'Onsager.C36.add_assoc_ordinary', 'Onsager.C36.add_assoc_fails_improper', 'Onsager.C36.neg_neg',
              'Onsager.C36.add_neg_self', 'Onsager.C36.neg_add_self', 'Onsager.C36.sub_add_cancel',
              'Onsager.C36.sub_add_cancel_fails', 'Onsager.C36.xor_add_cancel',
              'Onsager.C36.g_add', 'Onsager.C36.g_neg', 'Onsager.C36.g_sub', 'Onsager.C36.g_xor',
              'Onsager.C36.csEq_equivalence', 'Onsager.C36.csKey_eq_iff', 'Onsager.C36.cs_hash_respects_eq',
              'Onsager.C36.cs_add_sub', 'Onsager.C36.cs_neg_neg', 'Onsager.C36.cs_g_add',
              'Onsager.C36.make_wf', 'Onsager.C36.cluster_eq_refl', 'Onsager.C36.cluster_eq_symm',
              'Onsager.C36.cluster_eq_trans', 'Onsager.C36.cluster_eq_total', 'Onsager.C36.cluster_hash_respects_eq',
              'Onsager.C36.cluster_hash_needs_distinct_sites',
              'Onsager.C36.close1_refl', 'Onsager.C36.gopEq_refl', 'Onsager.C36.gop_hash_respects_eq',
              'Onsager.C36.gop_exact_part_equivalence', 'Onsager.C36.vtkEq_refl',
              'Onsager.C36.close1_not_transitive', 'Onsager.C36.close1_not_symmetric',
              'Onsager.C36.gopEq_not_transitive', 'Onsager.C36.gopEq_not_symmetric', 'Onsager.C36.C36_GroupOp_full_false',
              'Onsager.C36.vtkEq_not_transitive', 'Onsager.C36.vtk_hash_not_respecting_eq', 'Onsager.C36.C36_vTK_full_false'],
    tie_theorems=['Onsager.C36.src_cluster_key_form', 'Onsager.C36.src_ne_forms', 'Onsager.C36.src_ne_is_negation', 'Onsager.C36.src_eq_fields',
                  'Onsager.C36.src_hash_within_exact'],
    rule='instances of each type: pair states on zoo crystals (valid sites, random lattice vectors, chains with matching '
         'endpoints, zero states, the universal zero zero(-1), improper states with index -1, equal-(i,j,R)-different-dx '
         'twins), cluster sites, clusters (random site sets, translated/permuted copies, reversed transition states, vacancy '
         'clusters, degenerate ones), group operations from crys.G and copies perturbed by 0.5/0.9/1.1/2 x the allclose '
         'tolerance, vTK keys likewise; all pairs/triples inside small pools; cross-type comparisons. A case = one '
         'pair/triple/operation; non-trivial = operands not identical objects; distinct by the canonical text',
    trusted=['Python ast extraction of __ne__/__eq__/__hash__ structure (harness/props/c36.py: extract)'],
    assumptions=['compared arrays have equal shapes (numpy broadcasting of different shapes is not modelled)',
                 'PairState.g is applied to states with non-negative indices',
                 'clusters are built from distinct sites for the hash clause (a cluster is documented as a set of sites); '
                 'transition-state clusters contain their two transition sites',
                 '-0.0 vs 0.0 and NaN are not generated (bytes vs value)'],
)

DRIVER = 'Drive/C36.lean'


# ---------------------------------------------------------------- translator
def _facts(repo):
    spec = [('GroupOp', 'crystal.py'), ('PairState', 'crystalStars.py'), ('ClusterSite', 'cluster.py'),
            ('Cluster', 'cluster.py'), ('vacancyThermoKinetics', 'OnsagerCalc.py')]
    out = []
    import warnings
    for cls, fn in spec:
        with warnings.catch_warnings():
            warnings.simplefilter('ignore')
            tree = ast.parse(open(os.path.join(repo, 'onsager', fn)).read())
        cd = next(n for n in ast.walk(tree) if isinstance(n, ast.ClassDef) and n.name == cls)
        meth = {n.name: n for n in cd.body if isinstance(n, ast.FunctionDef)}
        code = 3
        if '__ne__' in meth:
            body = [s for s in meth['__ne__'].body if not (isinstance(s, ast.Expr) and isinstance(s.value, ast.Constant))]
            code = 2
            if len(body) == 1 and isinstance(body[0], ast.Return) and body[0].value is not None:
                src = ast.unparse(body[0].value)
                other = meth['__ne__'].args.args[1].arg
                if src == 'not self.__eq__(%s)' % other: code = 0
                elif src == 'not __eq__(%s)' % other: code = 1
        exact, tol, hashed = set(), set(), set()
        if '__eq__' in meth:
            other = meth['__eq__'].args.args[1].arg

            class V(ast.NodeVisitor):
                def __init__(s): s.intol = 0

                def visit_Call(s, node):
                    t = ast.unparse(node.func) in ('np.allclose', 'np.isclose', 'numpy.allclose', 'numpy.isclose')
                    s.intol += t
                    s.generic_visit(node)
                    s.intol -= t

                def visit_Attribute(s, node):
                    if isinstance(node.value, ast.Name) and node.value.id == other:
                        (tol if s.intol else exact).add(node.attr)
                    s.generic_visit(node)
            V().visit(meth['__eq__'])
        if '__hash__' in meth:
            for n in ast.walk(meth['__hash__']):
                if isinstance(n, ast.Attribute) and isinstance(n.value, ast.Name) and n.value.id == 'self':
                    hashed.add(n.attr)
        out.append((cls, code, sorted(exact), sorted(tol), sorted(hashed)))
    return out


def _ts_pair_mark(repo):
    """form of the transition-pair marker in Cluster.__init__ (loop over enumerate(self.sites)):
    0 = no branch on `transition` extends the key r; 1 = `elif transition and not vacancy and i < 2: r += (-2,)`
    directly after the `if i<Nvac` branch; 2 = anything else."""
    import warnings
    with warnings.catch_warnings():
        warnings.simplefilter('ignore')
        tree = ast.parse(open(os.path.join(repo, 'onsager', 'cluster.py')).read())
    cd = next(n for n in ast.walk(tree) if isinstance(n, ast.ClassDef) and n.name == 'Cluster')
    init = next(n for n in cd.body if isinstance(n, ast.FunctionDef) and n.name == '__init__')
    loops = [l for l in ast.walk(init) if isinstance(l, ast.For) and 'enumerate(self.sites)' in ast.unparse(l.iter)]
    if len(loops) != 1: return 2
    ifs = [n for n in ast.walk(loops[0]) if isinstance(n, ast.If) and 'transition' in ast.unparse(n.test)]
    if not ifs: return 0
    top = [n for n in loops[0].body if isinstance(n, ast.If) and ast.unparse(n.test) == 'i < Nvac']
    if len(ifs) == 1 and len(top) == 1 and top[0].orelse == [ifs[0]] \
            and ast.unparse(ifs[0].test) == 'transition and (not vacancy) and (i < 2)' and not ifs[0].orelse \
            and [ast.unparse(b) for b in ifs[0].body] == ['r += (-2,)']:
        return 1
    return 2


def extract(repo):
    def lst(l): return '[' + ', '.join('"%s"' % x for x in l) + ']'
    txt = ('/- GENERATED by harness/props/c36.py from onsager/{crystal,crystalStars,cluster,OnsagerCalc}.py on every run.\n'
           '   ne*: form of `__ne__` (0 = `not self.__eq__(other)`, 1 = bare `not __eq__(other)`, 2 = other, 3 = absent);\n'
           '   exact*/tol*: attributes of `other` compared exactly / inside np.allclose in `__eq__`; hash*: attributes of\n'
           '   `self` used by `__hash__`. -/\n'
           'namespace Generated.C36\n')
    for cls, code, exact, tol, hashed in _facts(repo):
        n = 'VTK' if cls == 'vacancyThermoKinetics' else cls
        txt += 'def ne%s : Nat := %d\n' % (n, code)
        txt += 'def exact%s : List String := %s\n' % (n, lst(exact))
        txt += 'def tol%s : List String := %s\n' % (n, lst(tol))
        txt += 'def hash%s : List String := %s\n' % (n, lst(hashed))
    txt += ('/-- transition-pair marker of Cluster.__init__: 0 = absent, 1 = `elif transition and not vacancy and i < 2: '
            'r += (-2,)`, 2 = unrecognised -/\n'
            'def tsPairMark : Nat := %d\ndef tsPairMarked : Bool := tsPairMark == 1\n' % _ts_pair_mark(repo))
    txt += 'end Generated.C36\n'
    return {'C36Facts.lean': txt}


# ---------------------------------------------------------------- helpers
def q(x):
    """exact rational text of a float / int"""
    return fr(Fr(float(x)) if isinstance(x, (float, np.floating)) else Fr(int(x)))


def qv(v):
    return ','.join(q(x) for x in np.asarray(v).ravel()) if np.asarray(v).size else '-'


def ps_txt(p):
    return '%d %d %s %s' % (p.i, p.j, itxt(p.R), qv(p.dx))


def ps_tuple(p):
    return (int(p.i), int(p.j), tuple(int(x) for x in p.R))


def cs_txt(s):
    return '%d,%d,%s' % (s.ci[0], s.ci[1], itxt(s.R))


def sites_txt(l):
    return ';'.join(cs_txt(s) for s in l) if l else '-'


def imap_txt(im):
    return '|'.join(','.join(str(int(i)) for i in l) if len(l) else '-' for l in im) if len(im) else '-'


def gop_txt(g):
    return '%s %s %s %s' % (itxt(np.asarray(g.rot).ravel()), qv(g.trans), qv(g.cartrot), imap_txt(g.indexmap))


def vtk_txt(v):
    return '%s %s %s %s' % (qv(v.pre), qv(v.betaene), qv(v.preT), qv(v.betaeneT))


def try_op(f):
    try:
        return 'ok', f()
    except ArithmeticError as e:
        return 'arithmetic-error', None
    except IndexError:
        return 'index-error', None
    except NameError:
        return 'NameError', None
    except Exception as e:
        return 'other:' + type(e).__name__, None


def ne_probe(a, b):
    """value of (a != b) or the exception name"""
    try:
        return bool(a != b)
    except Exception as e:
        return type(e).__name__


class Batch:
    def __init__(self, ctx):
        self.ctx, self.lines, self.checks = ctx, [], []

    def add(self, line, expect, what=None, cmp=None):
        """expect: text the model must answer (or cmp(answer) -> bool)"""
        self.lines.append(line); self.checks.append((expect, cmp, what))
        return len(self.lines) - 1

    def run(self):
        ans = self.ctx.lean(DRIVER, self.lines)
        nd = 0
        for l, a, (e, cmp, what) in zip(self.lines, ans, self.checks):
            ok = cmp(a) if cmp is not None else (a == e)
            if not ok:
                nd += 1
                if nd <= 20:
                    self.ctx.disagree('model/implementation differ on `%s`: model `%s` impl `%s`' % (l[:300], a[:200], str(e)[:200]),
                                      dict(line=l, model=a, impl=_jsonable(e), what=what))
        return ans


def close_vec(a, b, tol=1e-12):
    a, b = np.asarray(a, float), np.asarray(b, float)
    return a.shape == b.shape and bool(np.all(np.abs(a - b) <= tol * max(1.0, np.abs(a).max() if a.size else 1.0)))


# ---------------------------------------------------------------- generic oracles for ==, !=, hash
def relation_oracles(ctx, cls, pool, describe, tol_class=False, pending=None, keyline=None):
    """All pairs and triples of `pool`: reflexive, symmetric, transitive, != is negation, equal => equal hash.
    For tolerance classes the failures are collected in `pending` and classified after the model has answered."""
    n = len(pool)
    eq = [[None] * n for _ in range(n)]
    for i in range(n):
        for j in range(n):
            st, v = try_op(lambda: pool[i] == pool[j])
            eq[i][j] = bool(v) if st == 'ok' else st
            ctx.case((cls, 'eq', describe(pool[i]), describe(pool[j])), nontrivial=(i != j))
            if st != 'ok':
                ctx.violation('eq-raises:%s:%s' % (cls, st), '%s == %s raises' % (cls, cls),
                              dict(a=describe(pool[i]), b=describe(pool[j])))
                continue
            ne = ne_probe(pool[i], pool[j])
            if ne is not (not eq[i][j]):
                if isinstance(ne, str):
                    ctx.violation('ne-raises:%s:%s' % (cls, ne), '`a != b` raises %s instead of returning not (a == b)' % ne,
                                  dict(a=describe(pool[i]), b=describe(pool[j]), eq=eq[i][j], ne=ne))
                else:
                    ctx.violation('ne-not-negation:%s' % cls, '(a != b) is not the negation of (a == b)',
                                  dict(a=describe(pool[i]), b=describe(pool[j]), eq=eq[i][j], ne=ne))
            if eq[i][j] is True:
                try:
                    ha, hb = hash(pool[i]), hash(pool[j])
                except Exception as e:
                    ctx.violation('hash-raises:%s:%s' % (cls, type(e).__name__), 'hash() raises', dict(a=describe(pool[i])))
                    continue
                if ha != hb:
                    rep = dict(a=describe(pool[i]), b=describe(pool[j]), hash_a=ha, hash_b=hb)
                    if tol_class: pending.append(('hash-differs-for-equal:%s' % cls, (i, j), rep))
                    else: ctx.violation('hash-differs-for-equal:%s' % cls, 'a == b but hash(a) != hash(b)', rep)
    for i in range(n):
        if eq[i][i] is not True:
            ctx.violation('eq-not-reflexive:%s' % cls, 'a == a is False', dict(a=describe(pool[i])))
        for j in range(n):
            if eq[i][j] is True and eq[j][i] is False:
                rep = dict(a=describe(pool[i]), b=describe(pool[j]), a_eq_b=True, b_eq_a=False)
                if tol_class: pending.append(('eq-not-symmetric:%s' % cls, (i, j), rep))
                else: ctx.violation('eq-not-symmetric:%s' % cls, 'a == b but not b == a', rep)
            for k in range(n):
                if eq[i][j] is True and eq[j][k] is True and eq[i][k] is False:
                    rep = dict(a=describe(pool[i]), b=describe(pool[j]), c=describe(pool[k]))
                    if tol_class: pending.append(('eq-not-transitive:%s' % cls, (i, j, k), rep))
                    else: ctx.violation('eq-not-transitive:%s' % cls, 'a == b and b == c but not a == c', rep)
    # cross-type
    for other in (None, 0, 'x', (1, 2), np.zeros(3)):
        st, v = try_op(lambda: pool[0] == other)
        if st != 'ok' or bool(np.all(v)) is not False:
            ctx.violation('eq-cross-type:%s' % cls, '== with a foreign object is not False', dict(a=describe(pool[0]), other=repr(other), got=str((st, v))))
        ne = ne_probe(pool[0], other)
        if isinstance(ne, str):
            ctx.violation('ne-raises:%s:%s' % (cls, ne), '`a != other` raises %s instead of returning True' % ne,
                          dict(a=describe(pool[0]), other=repr(other), ne=ne))
        elif ne is not True:
            ctx.violation('ne-cross-type:%s' % cls, '!= with a foreign object is not True', dict(a=describe(pool[0]), other=repr(other), got=ne))
    return eq


# ---------------------------------------------------------------- PairState
def pair_pools(ctx, rng, crystals, npools):
    from onsager import crystalStars
    PS = crystalStars.PairState
    pools = []
    for t in range(npools):
        name, ex = crystals[t % len(crystals)]
        crys = ex.crys
        chem = rng.randrange(len(crys.basis))
        n = len(crys.basis[chem]); d = crys.dim
        pool = []
        def mk(i, j, R):
            return PS.fromcrys_latt(crys, chem, (i, j), np.array(R, dtype=int))
        # a chain a0 -> a1 -> a2 with matching endpoints
        idx = [rng.randrange(n) for _ in range(4)]
        for k in range(3):
            pool.append(mk(idx[k], idx[k + 1], geom.rand_R(rng, d, 2)))
        a = pool[0]
        pool.append(PS(i=a.i, j=a.j, R=a.R.copy(), dx=a.dx + 0.37))          # twin: same (i,j,R), other dx
        pool.append(mk(a.i, rng.randrange(n), geom.rand_R(rng, d, 2)))       # same start (for ^)
        pool.append(mk(rng.randrange(n), a.j, geom.rand_R(rng, d, 2)))       # same end (for -)
        pool.append(PS.zero(a.i, d)); pool.append(PS.zero(a.j, d))
        if t % 2 == 0: pool.append(PS.zero(-1, d))                           # universal zero
        if t % 4 == 1:                                                       # improper states (malformed stream)
            pool.append(PS(i=-1, j=a.i, R=np.array(geom.rand_R(rng, d, 1), dtype=int), dx=np.zeros(d)))
            pool.append(PS(i=a.j, j=-1, R=np.array(geom.rand_R(rng, d, 1), dtype=int), dx=np.zeros(d)))
        pool.append(-a)
        pools.append((name, ex, chem, pool))
    return pools


def ps_desc(p):
    return dict(i=int(p.i), j=int(p.j), R=[int(x) for x in p.R], dx=[float(x) for x in p.dx])


def is_uz(p):
    return p.i == -1 and p.j == -1 and not np.any(p.R)


def proper(p):
    return p.i != -1 and p.j != -1


def run_pairstates(ctx, B, rng, crystals):
    from onsager import crystalStars
    PS = crystalStars.PairState
    pools = pair_pools(ctx, rng, crystals, 10 if ctx.quick else 400)
    for name, ex, chem, pool in pools:
        crys = ex.crys
        ctx.count('ps-pool')
        relation_oracles(ctx, 'PairState', pool, ps_desc)
        for a in pool:
            B.add('ps.key ' + ps_txt(a), ','.join(str(x) for x in (int(a.i), int(a.j)) + tuple(int(x) for x in a.R)))
            if hash(a) != hash((a.i, a.j) + tuple(a.R)):
                ctx.violation('hash-not-function-of-key:PairState', 'hash(a) is not hash((i,j)+tuple(R))', ps_desc(a))
            B.add('ps.iszero ' + ps_txt(a), '1' if a.iszero() else '0')
            na = -a
            B.add('ps.neg ' + ps_txt(a), None, cmp=lambda ans, na=na: _ps_match(ans, 'ok', na))
            if not (-na == a and close_vec((-na).dx, a.dx)):
                ctx.violation('law:neg-neg:PairState', '-(-a) != a', ps_desc(a))
            # a + (-a) = 0_i ; (-a) + a = 0_j
            st, s = try_op(lambda: a + na)
            if st != 'ok' or not (s == PS.zero(a.i, len(a.R))) or (not is_uz(a) and np.any(np.abs(s.dx) > 1e-12)):
                ctx.violation('law:a+(-a):PairState', 'a + (-a) is not the zero state at a.i', dict(a=ps_desc(a), status=st, got=None if s is None else ps_desc(s)))
            st, s = try_op(lambda: na + a)
            if st != 'ok' or not (s == PS.zero(a.j, len(a.R))):
                ctx.violation('law:(-a)+a:PairState', '(-a) + a is not the zero state at a.j', dict(a=ps_desc(a), status=st, got=None if s is None else ps_desc(s)))
        for a, b in itertools.product(pool, repeat=2):
            key = (ps_tuple(a), ps_tuple(b))
            ctx.case(('ps-arith',) + key, nontrivial=a is not b,
                     sample=dict(crystal=name, a=ps_desc(a), b=ps_desc(b)))
            B.add('ps.eq %s %s' % (ps_txt(a), ps_txt(b)), '1' if a == b else '0')
            B.add('ne PairState %d' % (1 if a == b else 0), '1' if ne_probe(a, b) is True else ('0' if ne_probe(a, b) is False else ne_probe(a, b)))
            for opname, f in (('add', operator.add), ('sub', operator.sub), ('xor', operator.xor)):
                st, s = try_op(lambda: f(a, b))
                ctx.count('ps.%s:%s' % (opname, st))
                B.add('ps.%s %s %s' % (opname, ps_txt(a), ps_txt(b)), (st, None if s is None else ps_desc(s)),
                      cmp=lambda ans, st=st, s=s: _ps_match(ans, st, s))
            # definedness = exactly the raised errors
            st, s = try_op(lambda: a + b)
            should = not (is_uz(a) or is_uz(b) or a.j == b.i)
            if (st == 'arithmetic-error') != should or st not in ('ok', 'arithmetic-error'):
                ctx.violation('definedness:add:PairState', 'a + b raises/does not raise against the documented condition',
                              dict(a=ps_desc(a), b=ps_desc(b), status=st))
            stx, x = try_op(lambda: a ^ b)
            if (stx == 'arithmetic-error') != (a.i != b.i) or stx not in ('ok', 'arithmetic-error'):
                ctx.violation('definedness:xor:PairState', 'a ^ b raises/does not raise against the documented condition',
                              dict(a=ps_desc(a), b=ps_desc(b), status=stx))
            # (a - b) + b = a   (exception proved in Lean: a the universal zero, b not, b.j != -1)
            std, dd = try_op(lambda: a - b)
            if std == 'ok' and not (is_uz(a) and not is_uz(b) and b.j != -1):
                st2, r = try_op(lambda: dd + b)
                if st2 != 'ok' or not (r == a) or (proper(a) and proper(b) and not close_vec(r.dx, a.dx)):
                    ctx.violation('law:(a-b)+b:PairState', '(a - b) + b != a', dict(a=ps_desc(a), b=ps_desc(b), status=st2,
                                                                                 got=None if r is None else ps_desc(r)))
            elif std == 'ok':
                ctx.count('ps-law-exception:uz-minus-b')
            # b + (a ^ b) = a
            if stx == 'ok':
                st2, r = try_op(lambda: b + x)
                if st2 != 'ok' or not (r == a) or (proper(a) and proper(b) and not close_vec(r.dx, a.dx)):
                    ctx.violation('law:b+(a^b):PairState', 'b + (a ^ b) != a', dict(a=ps_desc(a), b=ps_desc(b), status=st2,
                                                                                   got=None if r is None else ps_desc(r)))
            # sanity of dx is preserved
            if st == 'ok' and proper(a) and proper(b) and a.__sane__(crys, chem) and b.__sane__(crys, chem):
                if not s.__sane__(crys, chem):
                    ctx.violation('law:add-keeps-dx:PairState', 'a + b has dx inconsistent with (i,j,R)', dict(a=ps_desc(a), b=ps_desc(b), got=ps_desc(s)))
        # associativity (ordinary states and the universal zero), with definedness
        ordinary = [p for p in pool if proper(p) or is_uz(p)]
        triples = list(itertools.product(ordinary, repeat=3))
        if len(triples) > 400: triples = rng.sample(triples, 400)
        for a, b, c in triples:
            l = try_op(lambda: (a + b) + c); r = try_op(lambda: a + (b + c))
            ctx.case(('ps-assoc', ps_tuple(a), ps_tuple(b), ps_tuple(c)), nontrivial=True)
            if l[0] != r[0] or (l[0] == 'ok' and not (l[1] == r[1] and close_vec(l[1].dx, r[1].dx))):
                ctx.violation('law:assoc:PairState', '(a+b)+c and a+(b+c) differ (value or definedness)',
                              dict(a=ps_desc(a), b=ps_desc(b), c=ps_desc(c), left=l[0], right=r[0]))
        # commutation with symmetry operations
        G = sorted(crys.G, key=lambda g: (g.rot.tolist(), g.trans.tolist()))
        gs = G if len(G) <= 4 else rng.sample(G, 4)
        good = [p for p in pool if p.i >= 0 and p.j >= 0]
        for g in gs:
            for a in good:
                ga = a.g(crys, chem, g)
                if not ((-a).g(crys, chem, g) == -ga and close_vec((-a).g(crys, chem, g).dx, -ga.dx)):
                    ctx.violation('law:g-commutes:neg:PairState', 'g(-a) != -g(a)', dict(g=geom.opdict(g), a=ps_desc(a)))
                for b in good:
                    gb = b.g(crys, chem, g)
                    for opname, f in (('add', operator.add), ('sub', operator.sub), ('xor', operator.xor)):
                        l = try_op(lambda: f(a, b).g(crys, chem, g)); r = try_op(lambda: f(ga, gb))
                        ctx.case(('ps-g', opname, geom.opdict(g)['rot'], ps_tuple(a), ps_tuple(b)), nontrivial=True)
                        if l[0] != r[0] or (l[0] == 'ok' and not (l[1] == r[1] and close_vec(l[1].dx, r[1].dx))):
                            ctx.violation('law:g-commutes:%s:PairState' % opname, 'g(a op b) != g(a) op g(b)',
                                          dict(g=geom.opdict(g), a=ps_desc(a), b=ps_desc(b), op=opname, left=l[0], right=r[0]))


def _ps_match(ans, st, s):
    if st != 'ok': return ans == st
    t = ans.split(' ')
    if len(t) != 4: return False
    return int(t[0]) == s.i and int(t[1]) == s.j and t[2] == itxt(s.R) and close_vec(s.dx, fl(parse_vec(t[3])))


# ---------------------------------------------------------------- ClusterSite / Cluster
def cs_desc(s):
    return dict(ci=[int(s.ci[0]), int(s.ci[1])], R=[int(x) for x in s.R])


def run_clustersites(ctx, B, rng, crystals):
    from onsager import cluster
    CS = cluster.ClusterSite
    for t in range(6 if ctx.quick else 300):
        name, ex = crystals[t % len(crystals)]
        crys = ex.crys; d = crys.dim
        sites = list(crys.atomindices)
        pool = []
        for _ in range(4):
            pool.append(CS(ci=rng.choice(sites), R=np.array(geom.rand_R(rng, d, 2), dtype=int)))
        pool.append(CS(ci=pool[0].ci, R=pool[0].R.copy()))
        pool.append(CS(ci=pool[0].ci, R=pool[0].R + 1))
        pool.append(CS(ci=(pool[0].ci[0], pool[0].ci[1] + 1), R=pool[0].R.copy()))
        relation_oracles(ctx, 'ClusterSite', pool, cs_desc)
        for a in pool:
            B.add('cs.key ' + cs_txt(a), ','.join(str(int(x)) for x in tuple(a.ci) + tuple(a.R)))
            if hash(a) != hash(tuple(a.ci) + tuple(a.R)):
                ctx.violation('hash-not-function-of-key:ClusterSite', 'hash(a) is not hash(ci+tuple(R))', cs_desc(a))
            B.add('cs.neg ' + cs_txt(a), cs_txt(-a))
            v = np.array(geom.rand_R(rng, d, 3), dtype=int)
            B.add('cs.add %s %s' % (cs_txt(a), itxt(v)), cs_txt(a + v))
            B.add('cs.sub %s %s' % (cs_txt(a), itxt(v)), cs_txt(a - v))
            ctx.case(('cs-arith', cs_txt(a), itxt(v)), nontrivial=True)
            if not ((a + v) - v == a and -(-a) == a):
                ctx.violation('law:add-sub:ClusterSite', '(s + v) - v != s or -(-s) != s', dict(s=cs_desc(a), v=v.tolist()))
            st, r = try_op(lambda: a + np.zeros(d + 1, dtype=int))
            B.add('cs.add %s %s' % (cs_txt(a), itxt(np.zeros(d + 1, dtype=int))), st if st != 'ok' else cs_txt(r))
            for b in pool:
                B.add('cs.eq %s %s' % (cs_txt(a), cs_txt(b)), '1' if a == b else '0')
                B.add('ne ClusterSite %d' % (1 if a == b else 0), '1' if (a != b) else '0')
            if a.ci in sites:
                for g in rng.sample(sorted(crys.G, key=lambda g: (g.rot.tolist(), g.trans.tolist())), min(3, len(crys.G))):
                    l = (a + v).g(crys, g); r = a.g(crys, g) + np.dot(g.rot, v)
                    if not l == r:
                        ctx.violation('law:g-commutes:add:ClusterSite', 'g(s + v) != g(s) + rot.v', dict(g=geom.opdict(g), s=cs_desc(a), v=v.tolist()))


def cl_args(lis, transition, vacancy, nosort):
    return '%d %d %d %s' % (transition, vacancy, nosort, sites_txt(lis))


def cl_desc(spec):
    lis, t, v, ns = spec
    return dict(sites=[cs_desc(s) for s in lis], transition=bool(t), vacancy=bool(v), NOSORT=bool(ns))


def run_clusters(ctx, B, rng, crystals):
    from onsager import cluster
    CS, CL = cluster.ClusterSite, cluster.Cluster
    for t in range(8 if ctx.quick else 600):
        name, ex = crystals[t % len(crystals)]
        crys = ex.crys; d = crys.dim
        sites = list(crys.atomindices)
        transition = (t % 3 == 1); vacancy = (t % 4 == 2) or (t % 12 == 1)
        nsite = rng.randint(2 if transition else 1, 5)
        base, seen = [], set()
        while len(base) < nsite:
            s = CS(ci=rng.choice(sites), R=np.array(geom.rand_R(rng, d, 1), dtype=int))
            k = (s.ci, tuple(s.R))
            if k not in seen: seen.add(k); base.append(s)
        specs = [(base, transition, vacancy, False)]
        shift = np.array(geom.rand_R(rng, d, 3), dtype=int)
        moved = [s + shift for s in base]
        head = 2 if transition else (1 if vacancy else 0)
        tail = moved[head:]; rng.shuffle(tail)
        specs.append((moved[:head] + tail, transition, vacancy, False))           # translated + permuted: equal
        if transition and not vacancy:
            specs.append(([moved[1], moved[0]] + tail, transition, vacancy, False))   # reversed transition state: equal
        other = [s for s in base]; other[-1] = other[-1] + np.eye(d, dtype=int)[0]
        specs.append((other, transition, vacancy, False))                         # one site displaced: different
        specs.append((base, not transition if len(base) >= 2 else transition, vacancy, False))
        specs.append((base[:-1] if len(base) > (2 if transition else 1) else base, transition, vacancy, False))
        specs.append((list(reversed(base)), transition, vacancy, True))           # NOSORT
        objs = []
        for sp in specs:
            st, c = try_op(lambda: CL(sp[0], transition=sp[1], vacancy=sp[2], NOSORT=sp[3]))
            ctx.case(('cl.make', cl_args(*sp)), nontrivial=True, sample=dict(crystal=name, cluster=cl_desc(sp)))
            if st != 'ok':
                B.add('cl.make ' + cl_args(*sp), st); continue
            objs.append((sp, c))
            emap = sorted((tuple(int(x) for x in k), tuple(int(x) for x in p)) for k, ps in c.__equalitymap__.items() for p in ps)

            def chk(ans, c=c, emap=emap):
                tk = ans.split(' ')
                if len(tk) != 4 or tk[0] != 'ok': return False
                if tk[1] != sites_txt(list(c.sites)): return False
                if int(tk[2]) != c.Norder: return False
                ents = [(tuple(int(x) for x in e.split(':')[0].split(',')), tuple(int(x) for x in e.split(':')[1].split(',')))
                        for e in tk[3].split(';')]
                if sorted(set(ents)) != emap: return False
                return reduce(operator.xor, (hash(k + p) for k, p in ents), 0) == c.__hashcache__
            B.add('cl.make ' + cl_args(*sp), dict(sites=sites_txt(list(c.sites)), Norder=c.Norder, emap=emap, hash=c.__hashcache__), cmp=chk)
        pool = [c for _, c in objs]
        desc = {id(c): cl_desc(sp) for sp, c in objs}
        relation_oracles(ctx, 'Cluster', pool, lambda c: desc[id(c)])
        for (spa, a), (spb, b) in itertools.product(objs, repeat=2):
            st, v = try_op(lambda: a == b)
            B.add('cl.eq %s %s' % (cl_args(*spa), cl_args(*spb)), ('1' if v else '0') if st == 'ok' else st)
        # documented invariances
        if not (pool[0] == pool[1] and hash(pool[0]) == hash(pool[1])):
            ctx.violation('law:translation-permutation:Cluster', 'a translated and permuted copy of a cluster is not equal / hashes differently',
                          dict(a=desc[id(pool[0])], b=desc[id(pool[1])]))
        if transition and not vacancy and not (pool[0] == pool[2] and hash(pool[0]) == hash(pool[2])):
            ctx.violation('law:reversed-transition:Cluster', 'a transition cluster and its reverse are not equal / hash differently',
                          dict(a=desc[id(pool[0])], b=desc[id(pool[2])]))
    # malformed stream: empty list, transition cluster with one site, repeated sites
    crys = crystals[0][1].crys
    s0 = CS(ci=(0, 0), R=np.zeros(crys.dim, dtype=int))
    st, _ = try_op(lambda: CL([]))
    B.add('cl.make 0 0 0 -', st)
    st, c1 = try_op(lambda: CL([s0], transition=True))
    if st == 'ok':
        st2, _ = try_op(lambda: c1 == c1)
        B.add('cl.eq 1 0 0 %s 1 0 0 %s' % (sites_txt([s0]), sites_txt([s0])), st2 if st2 != 'ok' else '1')
    # the distinct-sites hypothesis (Lean: cluster_hash_needs_distinct_sites) replayed: a note, not a finding
    e = np.eye(crys.dim, dtype=int)[0]
    A = CL([s0, s0, s0 + e, s0 + 2 * e, s0 + 2 * e], NOSORT=True); Bc = CL([s0, s0 + e, s0 + e, s0 + e, s0 + 2 * e], NOSORT=True)
    ctx.note('degenerate clusters with repeated sites {0,0,1,2,2} vs {0,1,1,1,2}: == %s, hashes equal %s (outside the documented '
             'domain: a cluster is a set of sites)' % (A == Bc, hash(A) == hash(Bc)))


# ---------------------------------------------------------------- tolerance types
def gop_desc(g):
    return geom.opdict(g)


def vtk_desc(v):
    return dict(pre=v.pre.tolist(), betaene=v.betaene.tolist(), preT=v.preT.tolist(), betaeneT=v.betaeneT.tolist())


FACT = (0.5, 0.9, 1.1, 2.0)


def perturb(rng, x, k):
    """x + k * (atol + rtol*|x|)  (k times the allclose tolerance for b = x)"""
    return x + k * (1e-8 + 1e-5 * abs(x))


def tolerance_pool_oracles(ctx, B, cls, pool, desc, txt, modelprefix):
    pending = []
    eq = relation_oracles(ctx, cls, pool, desc, tol_class=True, pending=pending)
    idx = {}
    for i, a in enumerate(pool):
        for j, b in enumerate(pool):
            if isinstance(eq[i][j], bool):
                idx[(i, j)] = B.add('%s.eq %s %s' % (modelprefix, txt(a), txt(b)), '1' if eq[i][j] else '0')
                if cls == 'GroupOp':
                    B.add('ne GroupOp %d' % (1 if eq[i][j] else 0), '1' if ne_probe(a, b) is True else ('0' if ne_probe(a, b) is False else ne_probe(a, b)))
                else:
                    n = ne_probe(a, b)
                    B.add('ne vTK %d' % (1 if eq[i][j] else 0), '1' if n is True else ('0' if n is False else n))
                if cls == 'GroupOp':
                    # hash is a function of (rot, indexmap): equal key => equal hash
                    B.add('gop.keyeq %s %s' % (txt(a), txt(b)), '1' if (np.array_equal(a.rot, b.rot) and a.indexmap == b.indexmap) else '0')
                    if np.array_equal(a.rot, b.rot) and a.indexmap == b.indexmap and hash(a) != hash(b):
                        ctx.violation('hash-not-function-of-key:GroupOp', 'same rot/indexmap, different hash', dict(a=desc(a), b=desc(b)))
                else:
                    same = all(x.tobytes() == y.tobytes() for x, y in zip(a, b))
                    B.add('vtk.keyeq %s %s' % (txt(a), txt(b)), '1' if same else '0')
                    if same and hash(a) != hash(b):
                        ctx.violation('hash-not-function-of-key:vacancyThermoKinetics', 'same bytes, different hash', dict(a=desc(a), b=desc(b)))
    return pending, idx


def run_tolerance(ctx, B, rng, crystals):
    from onsager import crystal, OnsagerCalc
    GO, VTK = crystal.GroupOp, OnsagerCalc.vacancyThermoKinetics
    allpending = []
    # --- witnesses of the negative Lean theorems, replayed on the implementation
    def gw(t): return GO(np.eye(2, dtype=int), np.array([t, 0.]), np.eye(2), ((0,),))
    def vw(t): return VTK(pre=np.array([1.]), betaene=np.array([t]), preT=np.array([1.]), betaeneT=np.array([2.]))
    wit_g = [gw(0.), gw(0.9e-8), gw(1.8e-8), gw(100000.), gw(100001.00001)]
    wit_v = [vw(0.), vw(0.9e-8), vw(1.8e-8), vw(100000.), vw(100001.00001)]
    p, idx = tolerance_pool_oracles(ctx, B, 'GroupOp', wit_g, gop_desc, gop_txt, 'gop'); allpending.append(('GroupOp', p, idx))
    p, idx = tolerance_pool_oracles(ctx, B, 'vacancyThermoKinetics', wit_v, vtk_desc, vtk_txt, 'vtk'); allpending.append(('vacancyThermoKinetics', p, idx))
    ctx.count('witness-pools', 2)
    # --- random pools
    for t in range(6 if ctx.quick else 400):
        name, ex = crystals[t % len(crystals)]
        crys = ex.crys
        G = sorted(crys.G, key=lambda g: (g.rot.tolist(), g.trans.tolist()))
        base = rng.sample(G, min(3, len(G)))
        pool = list(base)
        g = base[0]
        d = crys.dim
        for k in rng.sample(FACT, 2):
            tr = g.trans.copy(); a = rng.randrange(d); tr[a] = perturb(rng, tr[a], k * rng.choice([1, -1]))
            pool.append(GO(g.rot, tr, g.cartrot, g.indexmap))
        k = rng.choice(FACT)
        cr = g.cartrot.copy(); a, b = rng.randrange(d), rng.randrange(d); cr[a, b] = perturb(rng, cr[a, b], k)
        pool.append(GO(g.rot, g.trans, cr, g.indexmap))
        pool.append(GO(g.rot, g.trans + 3.0, g.cartrot, g.indexmap))
        pool.append(g + np.array(geom.rand_R(rng, d, 1), dtype=int))
        if len(g.indexmap[0]) > 1:
            im = list(g.indexmap); l = list(im[0]); l[0], l[1] = l[1], l[0]; im[0] = tuple(l)
            pool.append(GO(g.rot, g.trans, g.cartrot, tuple(im)))
        pool = [p for p in pool if p.rot.shape == (d, d)]
        p, idx = tolerance_pool_oracles(ctx, B, 'GroupOp', pool, gop_desc, gop_txt, 'gop'); allpending.append(('GroupOp', p, idx))
        ctx.count('gop-pool')
    for t in range(6 if ctx.quick else 400):
        n, m = rng.randint(1, 3), rng.randint(1, 4)
        def arr(k, pos=False):
            return np.array([(rng.uniform(0.5, 3) if pos else rng.uniform(-4, 4)) * rng.choice([1, 1, 10, 1e3]) for _ in range(k)])
        v = VTK(pre=arr(n, True), betaene=arr(n), preT=arr(m, True), betaeneT=arr(m))
        pool = [v, VTK(*[x.copy() for x in v])]
        for _ in range(3):
            fields = [x.copy() for x in v]
            f = rng.randrange(4); a = rng.randrange(len(fields[f]))
            fields[f][a] = perturb(rng, fields[f][a], rng.choice(FACT) * rng.choice([1, -1]))
            pool.append(VTK(*fields))
        fields = [x.copy() for x in v]; fields[1][0] += 0.5
        pool.append(VTK(*fields))
        w = pool[2]
        fields = [x.copy() for x in w]; f = rng.randrange(4); a = rng.randrange(len(fields[f]))
        fields[f][a] = perturb(rng, fields[f][a], 0.9)
        pool.append(VTK(*fields))
        p, idx = tolerance_pool_oracles(ctx, B, 'vacancyThermoKinetics', pool, vtk_desc, vtk_txt, 'vtk'); allpending.append(('vacancyThermoKinetics', p, idx))
        ctx.count('vtk-pool')
    return allpending


def classify_pending(ctx, allpending, answers, B):
    """A tolerance-related failure is reported with the ':allclose' signature only if the exact-rational model of
    np.allclose reproduces every comparison involved (then it is a consequence of the documented semantics)."""
    for cls, pending, idx in allpending:
        for sig, ind, rep in pending:
            pairs = {'eq-not-symmetric': lambda i, j: [(i, j), (j, i)],
                     'hash-differs-for-equal': lambda i, j: [(i, j)]}.get(sig.split(':')[0])
            if pairs is not None: ps = pairs(*ind)
            else: ps = [(ind[0], ind[1]), (ind[1], ind[2]), (ind[0], ind[2])]
            agree = all(p in idx and answers[idx[p]] == B.checks[idx[p]][0] for p in ps)
            if sig.startswith('hash-differs') and cls == 'vacancyThermoKinetics':
                full = sig + ':allclose-vs-bytes' if agree else sig + ':other'
                what = 'a == b (np.allclose) but hash(a) != hash(b) (hash of the bytes)'
            elif sig.startswith('eq-not-symmetric'):
                full = sig + (':allclose-rtol' if agree else ':other'); what = 'a == b but not b == a (relative tolerance uses |b| only)'
            elif sig.startswith('eq-not-transitive'):
                full = sig + (':allclose' if agree else ':other'); what = 'a == b and b == c but not a == c (tolerance equality)'
            else:
                full = sig + ':other'; what = sig
            ctx.violation(full, what, rep)


# ---------------------------------------------------------------- driver
def run(ctx):
    rng = ctx.rng
    crystals = []
    for name, mk in geom.zoo():
        try:
            crystals.append((name, geom.Exact(mk())))
        except ValueError:
            continue
    rng.shuffle(crystals)
    B = Batch(ctx)
    run_pairstates(ctx, B, rng, crystals)
    run_clustersites(ctx, B, rng, crystals)
    run_clusters(ctx, B, rng, crystals)
    allpending = run_tolerance(ctx, B, rng, crystals)
    answers = B.run()
    classify_pending(ctx, allpending, answers, B)
    if ctx.evaluations == 0 or ctx.traces == 0:
        raise RuntimeError('C36: no case was evaluated')


def search(ctx, reasons):
    """the oracles run inside run(); a broken obligation without a violation gets a second, larger sweep"""
    ctx.quick = False
    run(ctx)
