"""
C13 — Saved and reloaded calculators reproduce results exactly.

Tie: (a) translator (`_c13_extract.py`, Python `ast` on the current source): `__HDF5list__`, the attributes set by every
loadhdf5, the attribute read-sets of the result methods (Lij/_symmetricandescaperates/tags2preene/makeLIMBpreene/…,
GFCrystalcalc.SetRates/__call__/…, StarSet and VectorStarSet users), the dataset names written / read.  They become
Generated/C13Facts.lean; OnsagerProofs/C13Tie.lean discharges `readSet ⊆ writeSet` and `datasets read ⊆ written` by
`decide` and instantiates `load_save_observational`.  (b) correspondence: the real codec functions against the Lean
codecs on random and real data.  (c) direct oracles: save → load through in-memory HDF5 / YAML on the crystal zoo,
before and after cache population, then random further calls on both copies compared BIT-exactly; tags exactly.
"""
import os
for _v in ('OPENBLAS_NUM_THREADS', 'OMP_NUM_THREADS', 'MKL_NUM_THREADS'):
    os.environ.setdefault(_v, '1')      # bit-exact comparisons: no thread-scheduling effects in BLAS/LAPACK reductions
import os, itertools
import numpy as np
from . import _c13_common as cm
from . import _c13_extract as ex

META = dict(
    id='C13',
    level_text='Kernel-checked theorems for the save/load codecs: the list-of-lists flattening round-trips IFF the last '
               'sub-list exists and is non-empty (otherwise trailing empties are lost / all-empty raises), pair-state '
               'arrays, vTK-keyed cache dictionaries (cumulative-sum splits), jump-network packing, Taylor groups '
               '(reloaded in key order: a permutation; exact sums agree); and load_save_observational: read-set within '
               'write-set plus round-tripping codecs imply equal results for EVERY later call sequence. The read/write sets '
               'are extracted from the current source on every run and the inclusion is discharged by decide; real '
               'calculators, GF calculators, star sets, vector star sets, Taylor expansions (HDF5) and Crystal/GroupOp/'
               'PairState/ClusterSite/Cluster (YAML) are saved, reloaded and compared bit-exactly on the crystal zoo. '
               'Partial: h5py/PyYAML and float summation order after reload are exercised, not proved; the "reads only R" '
               'hypothesis of the observational theorem is the ast read-set, not a verified semantics of Python.',
    level_note='Trusted: Lean kernel + standard axioms; the ast read/write-set extractor; h5py (core driver) and PyYAML. '
               'Modelled not verified: numpy dtype conversions on store (int lists become int64 arrays).',
    technique='Lean 4 codec round-trip proofs + ast-extracted read/write sets with decide obligations + bit-exact save/reload differential runs',
    lean_modules=['OnsagerModel.C13', 'OnsagerProofs.C13', 'Generated.C13Facts', 'OnsagerProofs.C13Tie'],
    theorems=['Onsager.C13.unflatten_flatten', 'Onsager.C13.roundtrip_eq_take', 'Onsager.C13.roundtrip_error_iff',
              'Onsager.C13.array2psList_psList2array', 'Onsager.C13.psList2array_ok_iff', 'Onsager.C13.hsplit_hstack',
              'Onsager.C13.vtk_roundtrip', 'Onsager.C13.jumpnetwork_roundtrip', 'Onsager.C13.taylor_load_perm',
              'Onsager.C13.taylor_load_order_irrelevant', 'Onsager.C13.taylorLoadSrc_perm',
              'Onsager.C13.load_save_observational'],
    tie_theorems=['Onsager.C13.src_read_subset_write', 'Onsager.C13.src_datasets_read_subset_written',
                  'Onsager.C13.src_hdf5list_loops', 'Onsager.C13.src_taylor_load', 'Onsager.C13.src_vm_observational'],
    rule='codec cases: random lists of lists with empty sub-lists in every position, pair-state lists, vTK key sets, '
         'Taylor key sets; object cases: one (class, crystal, cache state, call sequence) each on SC/FCC/BCC/HCP/B2/'
         'diamond/2-D square, triangular, honeycomb/rectangular two-site/triclinic (thorough: + tetragonal multi-Wyckoff, '
         'monoclinic non-primitive, Nthermo=2); non-trivial = the reloaded object is asked for at least one input it has '
         'not cached; distinct by content',
    trusted=['Python ast extraction of read/write sets (harness/props/_c13_extract.py)',
             'h5py with driver=core, backing_store=False stands for files on disk',
             'BLAS/LAPACK run single-threaded in the harness; a last-bit Lij difference is reported only if it shows again when '
             'both copies are evaluated once more'],
    assumptions=['Nthermo >= 1 (a calculator with Nthermo = 0 is not usable; its empty StarSet cannot be written)',
                 'tags are ASCII without trailing NUL (numpy S dtype)'],
)

DRIVER = 'Drive/C13.lean'
SIG_THRESH = 'reload-missing-attribute:VacancyMediated.threshold'
SIG_YAMLF = 'yaml-roundtrip-raises:Crystal:numpy-float-scalar'
CLS = ['VacancyMediated', 'GFCrystalcalc', 'StarSet', 'VectorStarSet', 'Taylor3D']


def _repo():
    return os.environ.get('ONSAGER_REPO', '/repo')


# ---------------------------------------------------------------- translator
def extract(repo):
    F = ex.facts(repo)
    names = sorted({n for c in CLS for k in ('core', 'ext', 'write', 'ds_written', 'ds_read', 'hdf5list') for n in F[c][k]})
    idx = {n: i for i, n in enumerate(names)}
    L = lambda xs: '[' + ', '.join(str(idx[x]) for x in xs) + ']'
    out = ['/- GENERATED by harness/props/c13.py (ast on onsager/*.py) on every run.',
           '   attribute / dataset names are numbered; the table:']
    for i in range(0, len(names), 6):
        out.append('   ' + '  '.join('%d=%s' % (idx[n], n) for n in names[i:i + 6]))
    out += ['-/', 'namespace Generated.C13']
    for c in CLS:
        f = F[c]
        out.append('/-- %s: attributes read by %s -/' % (c, ', '.join(ex.CORE[c])))
        out.append('def read%s : List Nat := %s' % (c, L(f['core'])))
        out.append('/-- %s: attributes set by loadhdf5 -/' % c)
        out.append('def write%s : List Nat := %s' % (c, L(f['write'])))
        out.append('def dsRead%s : List Nat := %s' % (c, L(f['ds_read'])))
        out.append('def dsWritten%s : List Nat := %s' % (c, L(f['ds_written'])))
    out.append('/-- both HDF5list loops (getattr in addhdf5, setattr in loadhdf5) range over the same tuple -/')
    out.append('def hdf5Loops : Bool := %s' % ('true' if F['VacancyMediated']['loops'] and F['GFCrystalcalc']['loops'] else 'false'))
    out.append('def hdf5listVacancyMediated : List Nat := %s' % L(F['VacancyMediated']['hdf5list']))
    out.append('def hdf5listGFCrystalcalc : List Nat := %s' % L(F['GFCrystalcalc']['hdf5list']))
    out.append("/-- Taylor addhdf5 writes attrs['order'] and loadhdf5 sorts on it -/")
    out.append('def taylorOrderRestored : Bool := %s' % ('true' if F['Taylor3D']['order_restored'] else 'false'))
    out.append('end Generated.C13')
    return {'C13Facts.lean': '\n'.join(out) + '\n'}


# ---------------------------------------------------------------- text encoding for the codec driver
def _ll(ll):
    return '-' if len(ll) == 0 else ';'.join((','.join(str(int(x)) for x in l) if len(l) else '_') for l in ll)


def _l(l):
    return '-' if len(l) == 0 else ','.join(str(int(x)) for x in l)


def _rand_ll(rng):
    n = rng.choice([0, 1, 1, 2, 3, 4, 6])
    ll, c = [], 0
    for _ in range(n):
        k = rng.choice([0, 0, 1, 2, 3])
        ll.append(list(range(c, c + k))); c += k
    return ll


def _codec_corr(ctx):
    """the real codec functions against the Lean model (and the round-trip oracle under the precondition)"""
    from onsager import crystalStars as stars, OnsagerCalc
    rng = ctx.rng
    lines, expects, metas = [], [], []
    cases = [[], [[]], [[], []], [[1]], [[1], []], [[], [1]], [[], [1, 2], [], [3]], [[1], [], []], [[0, 1], [2]]]
    cases += [_rand_ll(rng) for _ in range(150 if ctx.quick else 3000)]
    for ll in cases:
        flat, index = stars.doublelist2flatlistindex(ll)
        lines.append('flat | ' + _ll(ll)); expects.append('%s | %s' % (_l(flat), _l(index))); metas.append(('flatten', ll))
        pre = len(ll) > 0 and len(ll[-1]) > 0
        try:
            back = stars.flatlistindex2doublelist(flat, index)
            res = 'ok ' + _ll(back)
        except ValueError:
            back, res = None, 'err'
        lines.append('rt | ' + _ll(ll)); expects.append('%d %s' % (1 if pre else 0, res)); metas.append(('roundtrip', ll))
        ctx.case(('ll', _ll(ll)), nontrivial=any(len(l) == 0 for l in ll) and any(len(l) for l in ll))
        ctx.count('flatten:pre-holds' if pre else 'flatten:pre-fails')
        if pre and back != [list(l) for l in ll]:
            ctx.violation('codec-roundtrip:flatten', 'flatlistindex2doublelist(doublelist2flatlistindex(ll)) != ll under the precondition',
                          dict(ll=ll, back=back))
    # unflatten on arbitrary (flat, index), also mismatched lengths
    for _ in range(60 if ctx.quick else 1000):
        n = rng.randint(0, 6)
        index = [rng.randint(0, 4) for _ in range(n)]
        flat = list(range(100, 100 + n + rng.choice([0, 0, 0, 1, -1]) * (1 if n else 0)))
        try:
            res = 'ok ' + _ll(stars.flatlistindex2doublelist(flat, np.array(index, dtype=int)))
        except ValueError:
            res = 'err'
        lines.append('unflat | %s | %s' % (_l(flat), _l(index))); expects.append(res); metas.append(('unflatten', (flat, index)))
        ctx.case(('unflat', tuple(flat), tuple(index)))
    # vTK dictionaries (integer payloads so that the text is exact)
    vTK = OnsagerCalc.vacancyThermoKinetics
    for t in range(40 if ctx.quick else 600):
        shape = [rng.randint(1, 3) for _ in range(4)]
        nk = rng.choice([0, 1, 2, 3])
        keys = []
        for k in range(nk):
            sh = shape
            if t % 7 == 6 and k == nk - 1 and nk > 1:           # malformed: same total, other partition
                sh = [shape[1], shape[0], shape[2], shape[3]]
            c = itertools.count(100 * k)
            keys.append([[float(next(c)) for _ in range(n)] for n in sh])
        d = {vTK(*[np.array(p) for p in k]): np.array([float(i), float(i) + 0.5]) for i, k in enumerate(keys)}
        a, v, sp = OnsagerCalc.vTKdict2arrays(d)
        if a is None:
            lines.append('vtk | -'); expects.append('none back=%d' % (1 if OnsagerCalc.arrays2vTKdict(a, v, sp) == {} else 0))
        else:
            back = OnsagerCalc.arrays2vTKdict(a, v, sp)
            same = len(back) == len(d) and all(
                all(cm.same_bits(x, y) for x, y in zip(k1, k2)) and cm.same_bits(v1, v2)
                for (k1, v1), (k2, v2) in zip(d.items(), back.items()))
            lines.append('vtk | ' + ' ; '.join('/'.join(_l(p) for p in k) for k in keys))
            expects.append('rows=%s splits=%s back=%d' % (_ll(a), _l(sp), 1 if same else 0))
            uniform = all([len(p) for p in k] == [len(p) for p in keys[0]] for k in keys)
            if uniform and not same:
                ctx.violation('codec-roundtrip:vTK', 'arrays2vTKdict(vTKdict2arrays(d)) != d for keys of one shape', dict(keys=keys))
        metas.append(('vtk', keys)); ctx.case(('vtk', str(keys)), nontrivial=nk > 1)
    # pair states
    for t in range(40 if ctx.quick else 600):
        n, dim = rng.choice([0, 1, 2, 3]), rng.choice([2, 3])
        pl = [stars.PairState(i=rng.randint(0, 3), j=rng.randint(0, 3), R=np.array([rng.randint(-2, 2) for _ in range(dim)]),
                              dx=np.array([float(rng.randint(-5, 5)) for _ in range(dim)])) for _ in range(n)]
        try:
            ij, R, dx = stars.PSlist2array(pl)
            back = stars.array2PSlist(ij, R, dx)
            same = len(back) == len(pl) and all(
                int(a.i) == int(b.i) and int(a.j) == int(b.j) and cm.same_bits(a.R, b.R) and cm.same_bits(a.dx, b.dx)
                for a, b in zip(pl, back))
            res = 'ok ij=%s R=%s dx=%s back=%d' % (_ll(ij), _ll(R), _ll(dx), 1 if same else 0)
            if not same:
                ctx.violation('codec-roundtrip:PairState', 'array2PSlist(PSlist2array(l)) != l', dict(n=n, dim=dim))
        except IndexError:
            res = 'err'
        lines.append('ps | ' + (' ; '.join('%d,%d/%s/%s' % (p.i, p.j, _l(p.R), _l(p.dx)) for p in pl) if pl else '-'))
        expects.append(res); metas.append(('ps', n)); ctx.case(('ps', t, n, dim), nontrivial=n > 0)
    got = ctx.lean(DRIVER, lines)
    nd = 0
    for g, e, l, m in zip(got, expects, lines, metas):
        if g != e:
            nd += 1
            if nd <= 10:
                ctx.disagree('codec %s: model `%s` implementation `%s` on `%s`' % (m[0], g, e, l),
                             dict(codec=m[0], line=l, model=g, impl=e))


# ---------------------------------------------------------------- object round trips
def _deep_equal(a, b, path, diffs, depth=0):
    """exact structural comparison of attribute values (lists/tuples/arrays/scalars/strings/dicts of those)."""
    if len(diffs) > 20 or depth > 6: return
    if isinstance(a, dict) and isinstance(b, dict):
        if len(a) != len(b): diffs.append((path, 'dict sizes %d / %d' % (len(a), len(b)))); return
        if all(hasattr(k, 'dx') for k in a) and a:          # keyed by PairState: a mapping, order is immaterial
            for ka, va in a.items():
                if ka not in b: diffs.append((path, 'key %s missing' % (ka,))); return
                _deep_equal(va, b[ka], path + '[%s]' % (str(ka)[:20],), diffs, depth + 1)
            return
        for (ka, va), (kb, vb) in zip(a.items(), b.items()):
            if isinstance(ka, tuple) and hasattr(ka, '_fields'):
                _deep_equal(list(ka), list(kb), path + '<key>', diffs, depth + 1)
            elif ka != kb: diffs.append((path, 'keys %r / %r' % (ka, kb))); return
            _deep_equal(va, vb, path + '[%s]' % (str(ka)[:20],), diffs, depth + 1)
        return
    if isinstance(a, str) or isinstance(b, str):
        if a != b: diffs.append((path, '%r / %r' % (a, b)))
        return
    if hasattr(a, '_fields') and hasattr(b, '_fields'):
        for f in a._fields: _deep_equal(getattr(a, f), getattr(b, f), path + '.' + f, diffs, depth + 1)
        return
    try:
        xa, xb = np.asarray(a), np.asarray(b)
        if xa.dtype != object and xb.dtype != object:
            if xa.shape != xb.shape and not (xa.size == 0 and xb.size == 0):
                diffs.append((path, 'shape %s / %s' % (xa.shape, xb.shape))); return
            if xa.dtype.kind in 'iub' and xb.dtype.kind in 'iub':
                if not np.array_equal(xa, xb): diffs.append((path, 'int values differ'))
            elif xa.size and np.ascontiguousarray(xa.astype(complex)).tobytes() != np.ascontiguousarray(xb.astype(complex)).tobytes():
                diffs.append((path, 'values differ (max |d| = %.3g)' % float(np.max(np.abs(xa.astype(complex) - xb.astype(complex))))))
            return
    except Exception:
        pass
    if isinstance(a, (list, tuple)) and isinstance(b, (list, tuple, np.ndarray)) or isinstance(b, (list, tuple)) and isinstance(a, np.ndarray):
        if len(a) != len(b): diffs.append((path, 'lengths %d / %d' % (len(a), len(b)))); return
        for i, (x, y) in enumerate(zip(a, b)): _deep_equal(x, y, path + '[%d]' % i, diffs, depth + 1)
        return


def _tiny(a, b):
    a, b = np.asarray(a, dtype=float), np.asarray(b, dtype=float)
    return a.shape == b.shape and float(np.max(np.abs(a - b))) <= 1e-13 * max(1e-300, float(np.max(np.abs(b))))


def _flatten_pre(ll):
    return len(ll) > 0 and len(ll[-1]) > 0


def _check_pre(ctx, label, d):
    """the precondition of the flatten codec on the real data that goes through it"""
    for nm, ll in [('jumpnetwork', d.jumpnetwork), ('om1_jn', d.om1_jn), ('om2_jn', d.om2_jn), ('kin2vstar', d.kin2vstar)] + \
                  [('tags[%s]' % k, v) for k, v in d.tags.items()] + \
                  [('vkinetic.vecpos', d.vkinetic.vecpos), ('vkinetic.vecvec', d.vkinetic.vecvec)]:
        ctx.count('flatten-on-real-data')
        if any(len(l) == 0 for l in ll): ctx.count('flatten-on-real-data:has-empty-sublist')
        if not _flatten_pre(ll):
            ctx.violation('codec-precondition-fails:' + nm.split('[')[0],
                          '%s of a real calculator ends with an empty sub-list (or is empty): it cannot be reloaded intact' % nm,
                          dict(calculator=label, attribute=nm, shape=[len(l) for l in ll]))


def _vm_api_equal(ctx, label, d, d2, state):
    """tags and the cheap result methods, exactly"""
    rep = dict(calculator=label, cache=state)
    if d.tags != d2.tags or d.tagdict != d2.tagdict or d.tagdicttype != d2.tagdicttype:
        ctx.violation('reload-differs:tags', 'tags / tagdict / tagdicttype of the reloaded calculator differ', rep)
    if [str(x) for x in d.interactlist()] != [str(x) for x in d2.interactlist()] or \
            any(not (a == b) for a, b in zip(d.interactlist(), d2.interactlist())):
        ctx.violation('reload-differs:interactlist', 'interactlist differs', rep)
    for k in (1, 2):
        (o1, j1), (o2, j2) = d.omegalist(k), d2.omegalist(k)
        if len(o1) != len(o2) or any(not (a[0] == b[0] and a[1] == b[1]) for a, b in zip(o1, o2)) or list(j1) != list(j2):
            ctx.violation('reload-differs:omegalist', 'omegalist(%d) differs' % k, rep)
    if str(d) != str(d2):
        ctx.violation('reload-differs:str', '__str__ differs', rep)


def _user_dict(rng, d):
    u = {}
    for ty, cl in d.tags.items():
        for cls in cl:
            if rng.random() < 0.6:
                u[rng.choice(cls)] = (float(np.float64(rng.lognormvariate(0, 0.4))), float(np.float64(rng.gauss(0.5, 0.5))))
    return u


def _vm_roundtrip(ctx, name, nthermo, ncalls):
    from onsager import OnsagerCalc
    rng = ctx.rng
    nrng = np.random.default_rng(rng.getrandbits(32))
    label = '%s Nthermo=%d' % (name, nthermo)
    base = cm.make_vm(name, Nthermo=nthermo, fresh=True)
    _check_pre(ctx, label, base)
    pool = [cm.rand_thermo(base, nrng) for _ in range(4)]
    for state in ('empty-cache', 'cached'):
        d = base
        if state == 'cached':
            for a in pool[:2]: d.Lij(*cm.copy_args(a))
        try:
            d2 = cm.reload_vm(d)
        except Exception as e:
            kind = 'numpy-float-scalar-yaml' if 'np.float64' in str(e) else type(e).__name__
            ctx.violation('reload-raises:VacancyMediated:' + kind, 'save/load raises %r' % (e,), dict(calculator=label, cache=state))
            continue
        # attribute-level: everything the original carries must come back equal
        for attr, val in vars(d).items():
            if attr in ('GFcalc', 'thermo', 'kinetic', 'NNstar', 'vkinetic', 'GFstarset', 'crys'): continue
            if not hasattr(d2, attr):
                ctx.violation('reload-missing-attribute:VacancyMediated.' + attr,
                              'reloaded VacancyMediated has no attribute %s' % attr, dict(calculator=label, cache=state, attribute=attr))
                continue
            diffs = []
            _deep_equal(val, getattr(d2, attr), attr, diffs)
            if diffs:
                ctx.violation('reload-attribute-differs:VacancyMediated.' + attr, 'attribute %s differs after reload: %s' % (attr, diffs[0]),
                              dict(calculator=label, cache=state, diffs=[list(x) for x in diffs[:5]]))
        for sub in ('thermo', 'kinetic', 'NNstar', 'GFstarset', 'vkinetic'):
            for attr, val in vars(getattr(d, sub)).items():
                if attr in ('crys', 'starset'): continue
                o2 = getattr(d2, sub)
                if not hasattr(o2, attr):
                    ctx.violation('reload-missing-attribute:%s.%s' % (sub, attr), 'reloaded %s has no attribute %s' % (sub, attr),
                                  dict(calculator=label)); continue
                diffs = []
                _deep_equal(val, getattr(o2, attr), sub + '.' + attr, diffs)
                if diffs:
                    ctx.violation('reload-attribute-differs:%s.%s' % (sub, attr), 'attribute differs after reload: %s' % (diffs[0],),
                                  dict(calculator=label, cache=state, diffs=[list(x) for x in diffs[:5]]))
        try:
            _vm_api_equal(ctx, label, d, d2, state)
        except Exception as e:
            ctx.violation('reload-raises-on-use:api:' + type(e).__name__, 'a result method of the reloaded calculator raises %r' % (e,),
                          dict(calculator=label, cache=state))
        # tag input on both copies
        for _ in range(3):
            u = _user_dict(rng, d)
            r1 = d.tags2preene(dict(u), VERBOSE=True)
            try:
                r2 = d2.tags2preene(dict(u), VERBOSE=True)
            except Exception as e:
                ctx.violation('reload-raises-on-use:tags2preene:' + type(e).__name__, 'tags2preene on the reloaded calculator raises %r' % (e,),
                              dict(calculator=label, cache=state, user=list(u)))
                break
            if any(not cm.same_bits(r1[0][k], r2[0][k]) for k in r1[0]) or r1[1:] != r2[1:]:
                ctx.violation('reload-differs:tags2preene', 'tags2preene differs on the reloaded calculator',
                              dict(calculator=label, cache=state, user=list(u)))
        # random further calls on both copies
        seq = [rng.randrange(len(pool)) for _ in range(ncalls)]
        fresh_seen = False
        for n, x in enumerate(seq):
            r1 = d.Lij(*cm.copy_args(pool[x]))
            try:
                r2 = d2.Lij(*cm.copy_args(pool[x]))
            except Exception as e:
                ctx.violation('reload-raises-on-use:Lij:' + type(e).__name__,
                              'Lij on the reloaded calculator raises %r (the original works)' % (e,),
                              dict(calculator=label, cache=state, calls=seq[:n + 1], input_hex=[cm.jarr(a) for a in pool[x]]))
                break
            fresh_seen |= (state == 'empty-cache' or x >= 2)
            if not cm.same_tuple(r1, r2) and all(_tiny(a, b) for a, b in zip(r1, r2)):
                # last-bit difference: evaluate once more on both copies; a genuine difference shows again
                r1b, r2b = d.Lij(*cm.copy_args(pool[x])), d2.Lij(*cm.copy_args(pool[x]))
                if cm.same_tuple(r1b, r2b) and cm.same_tuple(r1b, r1):
                    ctx.count('nonreproducible-last-bit-difference'); r2 = r1
            if not cm.same_tuple(r1, r2):
                which = [nm for nm, a, b in zip(('L0vv', 'Lss', 'Lsv', 'L1vv'), r1, r2) if not cm.same_bits(a, b)]
                ctx.violation('reload-differs:Lij:' + state, 'Lij differs between original and reloaded calculator in %s' % which,
                              dict(calculator=label, cache=state, calls=seq[:n + 1], input_hex=[cm.jarr(a) for a in pool[x]],
                                   original=[cm.jarr(a) for a in r1], reloaded=[cm.jarr(a) for a in r2],
                                   maxdiff=[float(np.max(np.abs(a - b))) for a, b in zip(r1, r2)]))
                break
        ctx.case(('vm', label, state, tuple(seq)), nontrivial=fresh_seen,
                 sample=dict(calculator=label, cache=state, calls=seq))
        ctx.count('vm-roundtrip:' + state)
    return base


def _ext_methods(ctx, name):
    """public methods outside the core read-set: makesupercells on a reloaded calculator"""
    d = cm.make_vm(name, Nthermo=1, fresh=True)
    d2 = cm.reload_vm(d)
    sup = 2 * np.eye(d.crys.dim, dtype=int)
    try:
        a = d.makesupercells(sup)
    except Exception:
        return
    try:
        b = d2.makesupercells(sup)
        if set(a['states']) != set(b['states']) or set(a['transitions']) != set(b['transitions']):
            ctx.violation('reload-differs:makesupercells', 'makesupercells differs after reload', dict(calculator=name))
    except AttributeError as e:
        attr = str(e).split("'")[-2] if "'" in str(e) else '?'
        ctx.violation('reload-missing-attribute:VacancyMediated.' + attr,
                      'reloaded.makesupercells(2*I) raises %r (original works)' % (e,), dict(calculator=name, supercell=sup.tolist()))
    ctx.case(('ext', name)); ctx.count('ext:makesupercells')


def _gf_roundtrip(ctx, name):
    from onsager import GFcalc, crystalStars as stars
    rng = ctx.rng
    crys, chem, cut = cm.get(name)
    sl, jn = crys.sitelist(chem), crys.jumpnetwork(chem, cut)
    g = GFcalc.GFCrystalcalc(crys, chem, sl, jn, Nmax=2)
    f = cm.memfile()
    try:
        g.addhdf5(f.create_group('G')); g2 = GFcalc.GFCrystalcalc.loadhdf5(crys, f['G'])
    except Exception as e:
        ctx.violation('reload-raises:GFCrystalcalc:' + type(e).__name__, 'save/load raises %r' % (e,), dict(crystal=name)); return
    finally:
        f.close()
    ss = stars.StarSet(jn, crys, chem, 2)
    for t in range(2):
        pre = np.exp(0.2 * np.array([rng.gauss(0, 1) for _ in sl])); ene = np.array([rng.gauss(0, 0.3) for _ in sl])
        preT = np.exp(0.2 * np.array([rng.gauss(0, 1) for _ in jn])); eneT = np.array([1 + rng.random() for _ in jn])
        g.SetRates(pre, ene, preT, eneT); g2.SetRates(pre.copy(), ene.copy(), preT.copy(), eneT.copy())
        bad = None
        if not cm.same_bits(g.Diffusivity(), g2.Diffusivity()): bad = 'Diffusivity'
        elif not cm.same_bits(g.biascorrection(), g2.biascorrection()): bad = 'biascorrection'
        else:
            for PS in [ss.states[s[0]] for s in ss.stars]:
                a, b = g(PS.i, PS.j, PS.dx), g2(PS.i, PS.j, PS.dx)
                if not cm.same_bits(a, b): bad = '__call__(%d,%d,%s): %r vs %r' % (PS.i, PS.j, list(PS.dx), float(a).hex(), float(b).hex()); break
        if bad:
            ctx.violation('reload-differs:GFCrystalcalc', 'reloaded GF calculator differs in ' + bad,
                          dict(crystal=name, pre=cm.jarr(pre), betaene=cm.jarr(ene), preT=cm.jarr(preT), betaeneT=cm.jarr(eneT)))
    ctx.case(('gf', name)); ctx.count('gf-roundtrip')


def _stars_roundtrip(ctx, name):
    from onsager import crystalStars as stars
    crys, chem, cut = cm.get(name)
    jn = crys.jumpnetwork(chem, cut)
    for nsh, origin in ((1, False), (2, True)):
        ss = stars.StarSet(jn, crys, chem, nsh, originstates=origin)
        vs = stars.VectorStarSet(ss)
        f = cm.memfile()
        try:
            ss.addhdf5(f.create_group('S')); vs.addhdf5(f.create_group('V'))
            ss2 = stars.StarSet.loadhdf5(crys, f['S']); vs2 = stars.VectorStarSet.loadhdf5(ss2, f['V'])
        except Exception as e:
            ctx.violation('reload-raises:StarSet:' + type(e).__name__, 'save/load raises %r' % (e,), dict(crystal=name, Nshells=nsh)); continue
        finally:
            f.close()
        rep = dict(crystal=name, Nshells=nsh, originstates=origin)
        for o, o2, nm in ((ss, ss2, 'StarSet'), (vs, vs2, 'VectorStarSet')):
            for attr, val in vars(o).items():
                if attr in ('crys', 'starset'): continue
                if not hasattr(o2, attr):
                    ctx.violation('reload-missing-attribute:%s.%s' % (nm, attr), 'no attribute %s after reload' % attr, rep); continue
                diffs = []
                _deep_equal(val, getattr(o2, attr), attr, diffs)
                if diffs: ctx.violation('reload-attribute-differs:%s.%s' % (nm, attr), 'differs after reload: %s' % (diffs[0],), rep)
        probe = list(ss.states)
        for a in ss.states[-3:]:
            for b in ss.states[-3:]:
                try: probe.append(a + b)        # mostly states outside the set
                except Exception: pass
        for PS in probe:
            try:
                same = (ss.stateindex(PS) == ss2.stateindex(PS) and ss.starindex(PS) == ss2.starindex(PS) and (PS in ss) == (PS in ss2))
            except Exception:
                same = True
            if not same:
                ctx.violation('reload-differs:StarSet.index', 'stateindex/starindex differ after reload', dict(rep, state=str(PS))); break
        # derived computations on the reloaded pair (same value, or the same exception type on both)
        def outcome(fn):
            try: return ('ok', fn())
            except Exception as e: return ('raises', type(e).__name__)
        a, b = outcome(vs.GFexpansion), outcome(vs2.GFexpansion)
        if a[0] != b[0] or (a[0] == 'raises' and a[1] != b[1]) or (a[0] == 'ok' and (
                not cm.same_bits(a[1][0], b[1][0]) or [str(x) for x in a[1][1].states] != [str(x) for x in b[1][1].states])):
            ctx.violation('reload-differs:VectorStarSet.GFexpansion', 'GFexpansion differs after reload', rep)
        j1, j2 = outcome(ss.jumpnetwork_omega1), outcome(ss2.jumpnetwork_omega1)
        if j1[0] != j2[0] or (j1[0] == 'ok' and (j1[1][1] != j2[1][1] or j1[1][2] != j2[1][2])):
            ctx.violation('reload-differs:StarSet.jumpnetwork_omega1', 'jumpnetwork_omega1 differs after reload', rep)
        elif j1[0] == 'ok':
            for meth in ('rateexpansions', 'biasexpansions', 'bareexpansions'):
                r1 = outcome(lambda: getattr(vs, meth)(j1[1][0], j1[1][1]))
                r2 = outcome(lambda: getattr(vs2, meth)(j2[1][0], j2[1][1]))
                if r1[0] != r2[0] or (r1[0] == 'raises' and r1[1] != r2[1]) or \
                        (r1[0] == 'ok' and not all(cm.same_bits(x, y) for x, y in zip(r1[1], r2[1]))):
                    ctx.violation('reload-differs:VectorStarSet.' + meth, meth + ' differs after reload', rep)
        ctx.case(('stars', name, nsh)); ctx.count('stars-roundtrip')


def _taylor_roundtrip(ctx, n):
    from onsager import PowerExpansion
    rng = ctx.rng
    restored = 1 if ex.facts(_repo())['Taylor3D']['order_restored'] else 0
    ctx.count('taylor:order-attribute-in-source', restored)
    lines, expects = [], []
    for t in range(n):
        T = PowerExpansion.Taylor3D if t % 2 == 0 else PowerExpansion.Taylor2D
        T()
        nl = set()
        for _ in range(rng.randint(1, 5)):
            nn = rng.choice([-2, -1, 0, 1, 2, 3, 4, 10, 11]); l = rng.randint(0, T.Lmax); nl.add((nn, l))
        nl = list(nl); rng.shuffle(nl)
        k = rng.choice([1, 2])
        cl = [(nn, l, np.array([[[complex(rng.gauss(0, 1), rng.gauss(0, 1)) for _ in range(k)] for _ in range(k)]
                                for _ in range(T.powlrange[l])])) for nn, l in nl]
        t1 = T(cl)
        f = cm.memfile()
        try:
            t1.addhdf5(f.create_group('T')); t2 = T.loadhdf5(f['T'])
        except Exception as e:
            ctx.violation('reload-raises:Taylor:' + type(e).__name__, 'save/load raises %r' % (e,), dict(nl=nl)); continue
        finally:
            f.close()
        got = [(int(a), int(b)) for a, b, c in t2.coefflist]
        lines.append('taylor | %d | ' % restored + ' '.join('%d:%d' % x for x in nl)); expects.append('1 ' + ' '.join('%d:%d' % x for x in got))
        d1 = {(a, b): c for a, b, c in t1.coefflist}
        ok = len(t2.coefflist) == len(cl) and all((int(a), int(b)) in d1 and cm.same_bits(d1[(int(a), int(b))], c) for a, b, c in t2.coefflist)
        if not ok:
            ctx.violation('reload-differs:Taylor.coefflist', 'reloaded Taylor expansion has other coefficients', dict(nl=nl))
        # evaluation: same mathematical value; bit-exact whenever the term order is unchanged
        u = np.array([rng.gauss(0, 1) for _ in range(3 if t % 2 == 0 else 2)])
        fn = {(a, b): (lambda x, a=a: x ** a if x != 0 else 0.) for a, b in nl}
        v1, v2 = t1(u, fn), t2(u, fn)
        scale = max(1e-300, float(np.max(np.abs(v1))))
        if got == [(a, b) for a, b in nl] and not cm.same_bits(v1, v2):
            ctx.violation('reload-differs:Taylor.eval', 'same term order, different value', dict(nl=nl))
        elif float(np.max(np.abs(v1 - v2))) > 1e-12 * scale * len(nl):
            ctx.violation('reload-differs:Taylor.eval', 'evaluation differs beyond summation-order rounding', dict(nl=nl, diff=float(np.max(np.abs(v1 - v2)))))
        elif not cm.same_bits(v1, v2):
            # same coefficients, other term order (h5py yields datasets sorted by name): last-bit differences
            ctx.count('taylor:eval-differs-in-last-bits(order)')
            ctx.violation('reload-differs:Taylor.eval-order',
                          'reloaded Taylor expansion has its terms in name order %s instead of %s: evaluation differs in the last bits'
                          % (got, nl), dict(cls=T.__name__, saved_order=nl, loaded_order=got, u=cm.jarr(u),
                                            fn='f_(n,l)(x) = x**n', original=[complex(z).real.hex() for z in np.ravel(v1)][:4],
                                            reloaded=[complex(z).real.hex() for z in np.ravel(v2)][:4],
                                            maxdiff=float(np.max(np.abs(v1 - v2)))))
        ctx.case(('taylor', t, tuple(nl)), nontrivial=got != nl); ctx.count('taylor-roundtrip')
    got = ctx.lean(DRIVER, lines)
    for g, e, l in zip(got, expects, lines):
        if g != e:
            ctx.disagree('Taylor load order: model `%s` h5py `%s` on `%s`' % (g, e, l), dict(line=l, model=g, impl=e))


# ---------------------------------------------------------------- YAML
def _crystal_equal(a, b):
    diffs = []
    for attr, val in vars(a).items():
        if attr in ('G', 'pointG', 'Wyckoff'): continue
        if not hasattr(b, attr): diffs.append((attr, 'missing')); continue
        _deep_equal(val, getattr(b, attr), attr, diffs)
    if len(a.G) != len(b.G) or set(a.G) != set(b.G): diffs.append(('G', 'group differs'))
    return diffs


def _yaml(ctx, names):
    import yaml
    from onsager import crystal, crystalStars as stars, cluster
    rng = ctx.rng
    extra = {'nonprim-mono': crystal.Crystal(np.array([[1, 0, .2], [0, 1.1, 0], [0, 0, .9]]), [np.zeros(3), np.array([.5, .5, .5])]),
             'nonprim-sq': crystal.Crystal(np.eye(2), [np.zeros(2), np.array([.5, .5])]),
             'spin': crystal.Crystal(np.eye(3), [[np.zeros(3)], [np.array([.5, .5, .5])]], chemistry=['Fe', 'O'], spins=[[1], [0]])}
    todo = [(n, cm.get(n)[0]) for n in names] + list(extra.items())
    for name, crys in todo:
        ctx.case(('yaml-crystal', name)); ctx.count('yaml:Crystal')
        try:
            c2 = yaml.load(yaml.dump(crys), Loader=yaml.Loader)
        except Exception as e:
            kind = 'numpy-float-scalar' if 'np.float64' in str(e) else type(e).__name__
            ctx.violation('yaml-roundtrip-raises:Crystal:' + kind,
                          'yaml.load(yaml.dump(crystal)) raises %r; threshold is %r' % (e, crys.threshold),
                          dict(crystal=name, lattice=crys.lattice.tolist(), basis=[[u.tolist() for u in b] for b in crys.basis],
                               threshold=repr(crys.threshold)))
            continue
        diffs = _crystal_equal(crys, c2)
        if diffs:
            ctx.violation('yaml-roundtrip-differs:Crystal', 'reloaded crystal differs: %s' % (diffs[0],), dict(crystal=name, diffs=[list(x) for x in diffs[:5]]))
        for g in rng.sample(list(crys.G), min(4, len(crys.G))):
            ctx.count('yaml:GroupOp')
            g2 = yaml.load(yaml.dump(g), Loader=yaml.Loader)
            if not (g == g2 and cm.same_bits(g.rot, g2.rot) and cm.same_bits(g.trans, g2.trans) and cm.same_bits(g.cartrot, g2.cartrot)
                    and [list(x) for x in g.indexmap] == [list(x) for x in g2.indexmap]):
                ctx.violation('yaml-roundtrip-differs:GroupOp', 'reloaded GroupOp differs', dict(crystal=name, op=str(g)))
    for name in names:
        crys, chem, cut = cm.get(name)
        ss = stars.StarSet(crys.jumpnetwork(chem, cut), crys, chem, 2)
        for PS in rng.sample(ss.states, min(5, len(ss.states))) + [stars.PairState.zero(0, crys.dim)]:
            ctx.count('yaml:PairState')
            P2 = yaml.load(yaml.dump(PS), Loader=yaml.Loader)
            if not (PS == P2 and int(PS.i) == int(P2.i) and int(PS.j) == int(P2.j) and cm.same_bits(np.asarray(PS.R), np.asarray(P2.R))
                    and cm.same_bits(PS.dx, P2.dx)):
                ctx.violation('yaml-roundtrip-differs:PairState', 'reloaded PairState differs', dict(crystal=name, state=str(PS)))
        ctx.case(('yaml-objects', name))


# ---------------------------------------------------------------- every flag combination x every serialisation format
def _state_diff(a, b, path='', depth=0):
    """first difference between two object states (exact; sets and dict keys as sets), or None"""
    if depth > 8: return None
    if isinstance(a, (str, bytes, bool, type(None))) or isinstance(b, (str, bytes, bool, type(None))):
        return None if (type(a) == type(b) and a == b) else '%s: %r / %r' % (path, a, b)
    if hasattr(a, '_fields') and hasattr(b, '_fields'):
        if a._fields != b._fields: return path + ': fields'
        for f in a._fields:
            d = _state_diff(getattr(a, f), getattr(b, f), path + '.' + f, depth + 1)
            if d: return d
        return None
    if isinstance(a, dict) and isinstance(b, dict):
        if set(a) != set(b): return path + ': keys %s / %s' % (sorted(map(str, a))[:6], sorted(map(str, b))[:6])
        for k in a:
            d = _state_diff(a[k], b[k], path + '[%s]' % (k,), depth + 1)
            if d: return d
        return None
    if isinstance(a, (set, frozenset)) and isinstance(b, (set, frozenset)):
        return None if a == b else path + ': sets differ'
    if isinstance(a, (list, tuple)) and isinstance(b, (list, tuple)):
        if len(a) != len(b): return path + ': lengths %d / %d' % (len(a), len(b))
        for i, (x, y) in enumerate(zip(a, b)):
            d = _state_diff(x, y, path + '[%d]' % i, depth + 1)
            if d: return d
        return None
    if isinstance(a, (np.ndarray, np.generic, int, float, complex)) and isinstance(b, (np.ndarray, np.generic, int, float, complex)):
        xa, xb = np.asarray(a), np.asarray(b)
        if xa.shape != xb.shape: return path + ': shape %s / %s' % (xa.shape, xb.shape)
        if xa.dtype.kind in 'iub' and xb.dtype.kind in 'iub':
            return None if np.array_equal(xa, xb) else path + ': integers differ'
        if xa.dtype.kind != xb.dtype.kind: return path + ': dtype kind %s / %s' % (xa.dtype.kind, xb.dtype.kind)
        return None if np.ascontiguousarray(xa.astype(complex)).tobytes() == np.ascontiguousarray(xb.astype(complex)).tobytes() \
            else path + ': values differ'
    if hasattr(a, '__dict__') and hasattr(b, '__dict__') and type(a) == type(b):
        return _state_diff(vars(a), vars(b), path, depth + 1)
    return None if type(a) == type(b) and a == b else '%s: %r / %r' % (path, a, b)


def _outcome(fn):
    try: return ('ok', fn())
    except Exception as e: return ('raises', type(e).__name__)


def _observables(obj, order_level):
    """what a user can ask the object: zero-argument methods (public and the container/str/hash dunders), items"""
    import inspect
    obs = {}
    for nm, m in inspect.getmembers(type(obj), predicate=inspect.isfunction):
        if nm.startswith('__') and nm not in ('__len__', '__hash__', '__str__'): continue
        if nm.startswith('_') and not nm.startswith('__') and nm != '_asdict': continue
        try:
            params = [p for p in list(inspect.signature(m).parameters.values())[1:]
                      if p.default is inspect.Parameter.empty and p.kind in (p.POSITIONAL_ONLY, p.POSITIONAL_OR_KEYWORD)]
        except (TypeError, ValueError):
            continue
        if params: continue
        if not order_level and nm in ('__str__', '_asdict'): continue
        obs[nm] = _outcome(lambda m=m: m(obj))
    if hasattr(type(obj), '__len__') and hasattr(type(obj), '__getitem__') and not hasattr(obj, '_fields') and order_level:
        n = _outcome(lambda: len(obj))
        if n[0] == 'ok': obs['items'] = _outcome(lambda: [obj[i] for i in range(n[1])])
    return obs


def _flag_combos(cls):
    """all combinations of the boolean keyword flags of the constructor (found by inspection, not by name)"""
    import inspect
    try:
        sig = inspect.signature(cls.__init__ if '__init__' in vars(cls) else cls.__new__)
    except (TypeError, ValueError):
        return [{}], []
    flags = [p.name for p in sig.parameters.values() if isinstance(p.default, bool)]
    return [dict(zip(flags, v)) for v in itertools.product([False, True], repeat=len(flags))], flags


def _roundtrip_formats(ctx, obj, label, rebuild_kwargs, state_flags_default, extra=None):
    """one object through every serialisation format there is for its class; compare by ==, hash, state, accessors"""
    import yaml, pickle, copy
    cls = type(obj)
    formats = {'yaml': lambda: yaml.load(yaml.dump(obj), Loader=yaml.Loader),
               'pickle': lambda: pickle.loads(pickle.dumps(obj)),
               'deepcopy': lambda: copy.deepcopy(obj)}
    if hasattr(obj, '_asdict'):
        formats['dict'] = lambda: cls(**obj._asdict())
    name = cls.__name__
    for fmt, fn in formats.items():
        ctx.count('serial:%s:%s' % (name, fmt))
        rep = dict(cls=name, format=fmt, object=str(obj), built_with=label)
        res = _outcome(fn)
        if res[0] == 'raises':
            ctx.violation('%s-roundtrip-raises:%s:%s' % (fmt, name, res[1]), '%s round trip of a %s raises %s' % (fmt, name, res[1]), rep)
            continue
        o2 = res[1]
        bad = None
        if type(o2) != cls: bad = 'type %s' % type(o2).__name__
        elif not (obj == o2) or not (o2 == obj) or (obj != o2): bad = 'reloaded object != original'
        elif _outcome(lambda: hash(obj)) != _outcome(lambda: hash(o2)): bad = 'hash differs'
        else:
            o1obs, o2obs = _observables(obj, state_flags_default), _observables(o2, state_flags_default)
            for k in o1obs:
                d = None
                if o1obs[k][0] != o2obs[k][0]: d = '%s: %s / %s' % (k, o1obs[k], o2obs[k])
                elif o1obs[k][0] == 'raises': d = None if o1obs[k][1] == o2obs[k][1] else '%s raises %s / %s' % (k, o1obs[k][1], o2obs[k][1])
                else: d = _state_diff(o1obs[k][1], o2obs[k][1], k + '()')
                if d: bad = 'accessor ' + d; break
            if not bad and state_flags_default:
                d = _state_diff(obj, o2, name)
                if d: bad = 'state ' + d
            if not bad and extra is not None and state_flags_default:
                bad = extra(obj, o2)
        if bad:
            ctx.violation('%s-roundtrip-differs:%s' % (fmt, name), '%s round trip of a %s: %s' % (fmt, name, bad), dict(rep, difference=bad))


def _serial_objects(ctx, names):
    """Cluster / ClusterSite / PairState / GroupOp / vacancyThermoKinetics (whatever is registered with PyYAML from the
    onsager package): instances for every combination of the constructor's boolean flags, hand-built and made by the
    library's own generators, through YAML, dict, pickle and deepcopy."""
    import yaml
    from onsager import crystal, crystalStars as stars, cluster, OnsagerCalc
    rng = ctx.rng
    registered = sorted({c.__name__ for c in yaml.Dumper.yaml_representers if getattr(c, '__module__', '').startswith('onsager')})
    ctx.note('classes registered with PyYAML by onsager: %s' % ', '.join(registered))
    covered = set()

    def go(obj, label, flags_default=True, extra=None):
        covered.add(type(obj).__name__)
        _roundtrip_formats(ctx, obj, label, None, flags_default, extra)

    for name in names:
        crys, chem, cut = cm.get(name)
        jn = crys.jumpnetwork(chem, cut)

        def cl_extra(a, b, crys=crys):
            for g in list(crys.G)[:3]:
                if not (a.g(crys, g) == b.g(crys, g)): return 'g() images differ'
            return _state_diff(a.pairdistances(crys), b.pairdistances(crys), 'pairdistances')

        # --- clusters: every flag combination, hand-built
        combos, flags = _flag_combos(cluster.Cluster)
        probe = [cluster.ClusterSite(ci=ci, R=np.zeros(crys.dim, dtype=int)) for ci in crys.atomindices[:2]] * 2
        statekeys = set()
        for kw in combos:
            r = _outcome(lambda: cluster.Cluster(probe[:3], **kw)._asdict())
            if r[0] == 'ok': statekeys |= set(r[1])
        for t in range(3):
            nsite = rng.randint(2, 4)
            sites, seen = [], set()
            while len(sites) < nsite:
                ci = rng.choice(crys.atomindices); R = tuple(rng.randint(-1, 1) for _ in range(crys.dim))
                if (ci, R) not in seen:
                    seen.add((ci, R)); sites.append(cluster.ClusterSite(ci=ci, R=np.array(R)))
            for kw in combos:
                made = _outcome(lambda: cluster.Cluster(sites, **kw))
                if made[0] != 'ok': continue
                default_nonstate = all((not v) for k, v in kw.items() if k not in statekeys)
                ctx.count('cluster-flags:' + ','.join(k for k, v in kw.items() if v) or 'cluster-flags:plain')
                go(made[1], 'Cluster(%d sites, %s)' % (nsite, kw), default_nonstate, cl_extra)
                ctx.case(('cluster', name, t, tuple(sorted(kw.items()))), nontrivial=any(kw.values()))
        # --- clusters made by the library: plain, vacancy, transition-state of both
        exps = {}
        r = _outcome(lambda: cluster.makeclusters(crys, cut, 2))
        if r[0] == 'ok':
            exps['makeclusters'] = r[1]
            rv = _outcome(lambda: cluster.makeVacancyClusters(crys, chem, r[1]))
            if rv[0] == 'ok': exps['makeVacancyClusters'] = rv[1]
            for src in list(exps):
                rt = _outcome(lambda: cluster.makeTSclusters(crys, chem, jn, exps[src]))
                if rt[0] == 'ok': exps['makeTSclusters(%s)' % src] = rt[1]
        for how, exp in exps.items():
            picked = [cl for cset in exp for cl in list(cset)[:1]]
            for cl in rng.sample(picked, min(3, len(picked))):
                ctx.count('cluster-made-by:' + how)
                go(cl, how, True, cl_extra)
                for site in cl.sites[:2]: go(site, how)
            ctx.case(('cluster-lib', name, how))
        # --- pair states, group operations, thermo-kinetics keys
        ss = stars.StarSet(jn, crys, chem, 2)
        for PS in rng.sample(ss.states, min(3, len(ss.states))) + [stars.PairState.zero(0, crys.dim)]:
            go(PS, 'StarSet state')
        for g in rng.sample(list(crys.G), min(3, len(crys.G))): go(g, 'crys.G')
    for t in range(3):
        n1, n2 = rng.randint(1, 3), rng.randint(1, 3)
        k = OnsagerCalc.vacancyThermoKinetics(pre=np.array([rng.random() + .5 for _ in range(n1)]), betaene=np.array([rng.gauss(0, 1) for _ in range(n1)]),
                                              preT=np.array([rng.random() + .5 for _ in range(n2)]), betaeneT=np.array([rng.gauss(0, 1) for _ in range(n2)]))
        covered.add('vacancyThermoKinetics')
        import yaml as _y
        k2 = _outcome(lambda: _y.load(_y.dump(k), Loader=_y.Loader))
        ctx.count('serial:vacancyThermoKinetics:yaml')
        if k2[0] != 'ok' or not (k2[1] == k) or hash(k2[1]) != hash(k) or _state_diff(list(k), list(k2[1]), 'vTK'):
            ctx.violation('yaml-roundtrip-differs:vacancyThermoKinetics', 'reloaded key differs or raises: %s' % (k2[:2],), dict(key=repr(k)))
    for c in registered:
        if c not in covered: ctx.note('YAML-registered class without instances in this check: ' + c)


# ---------------------------------------------------------------- driver
def _static(ctx):
    F = ex.facts(_repo())
    for c in CLS:
        miss = sorted(set(F[c]['ext']) - set(F[c]['write']))
        for a in miss:
            ctx.disagree('static: %s.%s is read by %s but never set by loadhdf5' % (c, a, '/'.join(ex.EXT[c])),
                         dict(cls=c, attribute=a), sig='reload-missing-attribute:%s.%s' % (c, a))
        ctx.count('static:ext-missing:%s' % c, len(miss))
    return F


def _run(ctx, search=False):
    _static(ctx)
    _codec_corr(ctx)
    names = cm.QUICK_NAMES if ctx.quick else cm.ALL_NAMES
    for name in names:
        if ctx.budget_left() < 25: ctx.note('budget: stopped object round trips before ' + name); break
        _vm_roundtrip(ctx, name, 1, 6 if ctx.quick else 25)
        if not ctx.quick or name in ('sq', 'hon', 'fcc', 'rect2'):
            _gf_roundtrip(ctx, name)
        if not ctx.quick or name in ('sq', 'hon', 'fcc', 'hcp', 'b2'):
            _stars_roundtrip(ctx, name)
    if not ctx.quick or search:
        for name in ('sq', 'fcc', 'hon', 'b2'):
            if ctx.budget_left() > 60: _vm_roundtrip(ctx, name, 2, 10)
    _ext_methods(ctx, 'sq')
    if not ctx.quick: _ext_methods(ctx, 'fcc')
    _taylor_roundtrip(ctx, 30 if ctx.quick else 600)
    _yaml(ctx, ['sq', 'hon', 'fcc', 'hcp', 'b2', 'tric'] if ctx.quick else cm.ALL_NAMES)
    _serial_objects(ctx, ['hcp', 'b2', 'hon', 'rect2'] if ctx.quick else ['hcp', 'b2', 'hon', 'rect2', 'fcc', 'dia', 'tric', 'sq', 'pol3'])


def run(ctx):
    _run(ctx)


def search(ctx, reasons):
    _run(ctx, search=True)
