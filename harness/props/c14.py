"""
C14 — Vacancy-mediated results depend only on their inputs, not on call history.

Tie: (a) translator: `VacancyMediated.Lij` is read with `ast`: is the first element of the returned
tuple a copy, is the cache store a copy (Generated/C14Facts.lean); OnsagerProofs/C14Tie.lean
instantiates the history-independence theorem (copy) or the failing 3-op history (alias) for the
variant found.  (b) correspondence: bounded-exhaustive and random histories of
{Lij, in-place edit of a returned array, clearcache, regenerate, save/reload} on real calculators;
every Lij result is compared BIT-exactly with a fresh calculator's result (direct oracle) and with
the Lean model's prediction of which arrays are poisoned (Drive/C14.lean).
"""
import os
for _v in ('OPENBLAS_NUM_THREADS', 'OMP_NUM_THREADS', 'MKL_NUM_THREADS'):
    os.environ.setdefault(_v, '1')      # bit-exact comparisons: no thread-scheduling effects in BLAS/LAPACK reductions
import ast, os, itertools, copy
import numpy as np
from . import _c13_common as cm

META = dict(
    id='C14',
    level_text='Kernel-checked theorems for a heap/cache model of Lij: with copying store/return ANY history of calls, '
               'in-place edits of returned arrays, cache clears, regenerations and save/reloads leaves every result equal '
               'to the history-free one (induction over histories); with aliasing the 3-op history Lij; edit; Lij is '
               'proved to return the edit, and histories without edits are proved harmless. Which variant the source is, '
               'is read from the AST on every run, and the model is run against real calculators on exhaustive and random '
               'histories with bit-exact comparison to fresh calculators. Partial: object identity semantics of Python/numpy '
               'are modelled by hand; only the Lvvvalues/return channel is modelled.',
    level_note='Trusted: Lean kernel + standard axioms; the ast classifier of copy-calls; h5py/PyYAML. Modelled not verified: '
               'numpy views, the GF numerics themselves (treated as a pure function of the input, which the bit-exact '
               'comparison with fresh calculators checks on every generated history).',
    technique='Lean 4 invariant proof over op histories + ast-extracted aliasing mode + differential histories vs fresh calculators',
    lean_modules=['OnsagerModel.C14', 'OnsagerProofs.C14', 'Generated.C14Facts', 'OnsagerProofs.C14Tie'],
    theorems=['Onsager.C14.history_independent', 'Onsager.C14.run_outputs_pure',
              'Onsager.C14.alias_not_history_independent', 'Onsager.C14.alias_violates',
              'Onsager.C14.alias_poison_survives_reload', 'Onsager.C14.alias_independent_without_mutation',
              'Onsager.C14.lookup_hit_same_key'],
    tie_theorems=['Onsager.C14.src_located', 'Onsager.C14.src_verdict', 'Onsager.C14.src_history_independent_if_copy'],
    rule='histories over a pool of 4 inputs (2 vacancy keys x 2 solute variants) on small calculators: all histories up to '
         'length 3 (4 thorough) over {Lij x, edit slot s of the last/first result, clearcache, regenerate, save/reload} on '
         'the square lattice; every order of up to 3 evaluations (optionally with clearcache / reload / regenerate between) on '
         'crystals with origin states (polar sites, non-zero bias correction); on anisotropic crystals (HCP, 2-D rectangular, '
         'tetragonal; thorough + polar triangular, triclinic) every ordered pair of a structured family of inputs that differ in the '
         'vacancy part only (same largest omega0 rate, other omega0 ratios), also with clearcache between; then random histories of length <= 10 on 2-D, '
         'cubic, hexagonal, low-symmetry and polar crystals; an exception raised by the implementation inside a history is an '
         'outcome (compared with the outcome on a new calculator), never a harness error; a case is one history; non-trivial = '
         'at least two Lij calls with a state-changing op or a change of vacancy key between; distinct by op text',
    trusted=['Python ast classification of `.copy()` / `np.array()` / `np.copy()` as copies (harness/props/c14.py: extract)',
             'h5py core driver and PyYAML for the save/reload op',
             'BLAS/LAPACK run single-threaded in the harness; a last-bit (<1e-13 relative) difference is reported only if an '
             'identical replay of the history on a new calculator shows it again (a real history dependence is replayable)'],
    assumptions=['"the same" is bit-identical, except that reproducible differences <= 1e-13 relative are recorded as rounding level '
                 'and not as violations: the result of a fresh calculator is itself defined only up to the iteration order of '
                 'Crystal.G (a frozenset over salted byte hashes), which changes between processes and after a YAML reload',
                 'the caller edits only arrays obtained from Lij (not d.GFcalc.D or the input arrays it passed in)',
                 'regeneration is exercised as generate(N+1); generate(N); generatematrices(); generatetags()'],
)

DRIVER = 'Drive/C14.lean'
SIG_ALIAS = 'history-dependence:after-inplace-edit:L0vv'
SIG_STATIC = 'history-dependence:static:return-aliases-cache'


# ---------------------------------------------------------------- translator
def _is_copy_call(node):
    """X.copy() | np.array(X[, copy=True]) | np.copy(X) | numpy.array(X) | X.astype(..)"""
    if not isinstance(node, ast.Call): return False
    f = node.func
    if isinstance(f, ast.Attribute) and f.attr == 'copy' and not node.args: return True
    if isinstance(f, ast.Attribute) and f.attr == 'astype':
        return not any(k.arg == 'copy' and isinstance(k.value, ast.Constant) and k.value.value is False
                       for k in node.keywords)
    if isinstance(f, ast.Attribute) and isinstance(f.value, ast.Name) and f.value.id in ('np', 'numpy') \
            and f.attr in ('array', 'copy'):
        return not any(k.arg == 'copy' and isinstance(k.value, ast.Constant) and k.value.value is False
                       for k in node.keywords)
    if isinstance(f, ast.Attribute) and isinstance(f.value, ast.Name) and f.value.id == 'copy' \
            and f.attr in ('copy', 'deepcopy'):
        return True
    return False


def classify(src):
    """-> dict(found, returnCopies, storeCopies, detail) for VacancyMediated.Lij in the module source."""
    tree = ast.parse(src)
    fn = next((n for cls in ast.walk(tree) if isinstance(cls, ast.ClassDef) and cls.name == 'VacancyMediated'
               for n in cls.body if isinstance(n, ast.FunctionDef) and n.name == 'Lij'), None)
    if fn is None: return dict(found=False, returnCopies=False, storeCopies=False, detail='Lij not found')
    def own_nodes(f):
        """nodes of the function body without the bodies of nested function definitions (their returns are not Lij's)"""
        stack = list(f.body)
        while stack:
            n = stack.pop()
            yield n
            if isinstance(n, (ast.FunctionDef, ast.AsyncFunctionDef, ast.Lambda, ast.ClassDef)): continue
            stack.extend(ast.iter_child_nodes(n))
    rets = [n for n in own_nodes(fn) if isinstance(n, ast.Return) and n.value is not None]
    stores = [n for n in ast.walk(fn) if isinstance(n, ast.Assign) and len(n.targets) == 1
              and isinstance(n.targets[0], ast.Subscript)
              and ast.unparse(n.targets[0].value) == 'self.Lvvvalues']
    if not rets or not stores:
        return dict(found=False, returnCopies=False, storeCopies=False, detail='return / cache store not found')

    def first_elt_is_copy(ret):
        v = ret.value
        e = v.elts[0] if isinstance(v, ast.Tuple) and v.elts else v
        if _is_copy_call(e): return True
        if isinstance(e, ast.Name):
            # last unconditional top-level rebinding `name = <copy of name>` after the cache block
            last = None
            for st in fn.body:
                if isinstance(st, ast.Assign) and len(st.targets) == 1 and isinstance(st.targets[0], ast.Name) \
                        and st.targets[0].id == e.id:
                    last = st
            return last is not None and _is_copy_call(last.value)
        return False

    rc = all(first_elt_is_copy(r) for r in rets)
    sc = all(_is_copy_call(s.value) for s in stores)
    return dict(found=True, returnCopies=rc, storeCopies=sc,
                detail='return: %s ; store: %s' % (' | '.join(ast.unparse(r)[:60] for r in rets),
                                                   ' | '.join(ast.unparse(s) for s in stores)))


def _facts(repo):
    return classify(open(os.path.join(repo, 'onsager', 'OnsagerCalc.py')).read())


def extract(repo):
    f = _facts(repo)
    b = lambda x: 'true' if x else 'false'
    txt = ('/- GENERATED by harness/props/c14.py from onsager/OnsagerCalc.py (VacancyMediated.Lij) on every run. -/\n'
           'namespace Generated.C14\n'
           '/-- %s -/\n'
           'def found : Bool := %s\n'
           '/-- the first element of every returned tuple is a copy (`.copy()`, `np.array(..)`, `np.copy(..)`) -/\n'
           'def returnCopies : Bool := %s\n'
           '/-- every `self.Lvvvalues[..] = ..` stores a copy -/\n'
           'def storeCopies : Bool := %s\n'
           'end Generated.C14\n') % (f['detail'].replace('/-', '').replace('-/', ''), b(f['found']),
                                     b(f['returnCopies']), b(f['storeCopies']))
    return {'C14Facts.lean': txt}


# ---------------------------------------------------------------- implementation adapter
class Session:
    """One calculator + the arrays it has handed out."""

    def __init__(self, name, pool, ref):
        self.name, self.pool, self.ref = name, pool, ref
        self.d = cm.make_vm(name, fresh=True)
        self.returned = []

    def apply(self, op):
        """returns None, or for an L op the observed token list (['raise:<Class>'] * 4 when Lij raises).
        Any exception raised by the implementation is caught and kept in self.error = (op, exception)."""
        k = op[0]
        self.error = None
        try:
            if k == 'L':
                x = op[2]
                try:
                    res = self.d.Lij(*cm.copy_args(self.pool[x]))
                except Exception as e:
                    self.returned.append(None)
                    self.error = (op, e)
                    return ['raise:' + type(e).__name__] * 4
                self.returned.append(res)
                if _raises(self.ref[x]):
                    return ['ok-but-fresh-raises:' + self.ref[x][1]] * 4
                return [_classify(res[s], self.ref[x][s], op[1] if s == 0 else x, s) for s in range(4)]
            if k == 'M':
                _, call, slot, c = op
                if self.returned[call] is not None:           # nothing to edit if that call raised
                    self.returned[call][slot][...] = c
            elif k == 'C':
                self.d.clearcache()
            elif k == 'R':
                d = self.d
                N = d.Nthermo
                d.generate(N + 1); d.generate(N); d.generatematrices()
                d.tags, d.tagdict, d.tagdicttype = d.generatetags()
            elif k == 'S':
                self.d = cm.reload_vm(self.d)
        except Exception as e:
            self.error = (op, e)
        return None


def _raises(refx):
    return isinstance(refx, tuple) and len(refx) == 2 and refx[0] == 'raises'


def _classify(arr, ref, ident, slot):
    if cm.same_bits(arr, ref): return 'p%d.%d' % (ident, slot)
    a = np.asarray(arr)
    if a.size and np.all(a == a.flat[0]) and float(a.flat[0]) == int(a.flat[0]): return 'c%d' % int(a.flat[0])
    return 'other'


def _tiny(a, b):
    a, b = np.asarray(a, dtype=float), np.asarray(b, dtype=float)
    return a.shape == b.shape and float(np.max(np.abs(a - b))) <= 1e-13 * max(1e-300, float(np.max(np.abs(b))))


def _reproduced(name, pool, ref, hist, slot):
    """replay the history on a new calculator: does the same result differ again?"""
    ses = Session(name, pool, ref)
    out = None
    for op in hist: out = ses.apply(op)
    x = hist[-1][2]
    return out is not None and ses.returned[-1] is not None and not cm.same_bits(ses.returned[-1][slot], ref[x][slot])


def _optext(op):
    return ' '.join(str(x) for x in op)


_POOLS = {}


_KEYOF = {}


def _pool(name, ctx_seed):
    """inputs 0..3: x = 2*k + v ; inputs 2k and 2k+1 share the vacancy part (bFV, bFT0) = key k (k = 0, 1: independent random).
    inputs 4..: a structured family (cm.thermo_family) of further vacancy keys 2, 3, ...: same largest omega0 rate, other
    omega0 classes slower by different factors; same site / solute data.  _KEYOF[name, seed][x] is the vacancy key of input x."""
    key = (name, ctx_seed)
    if key in _POOLS: return _POOLS[key]
    nrng = np.random.default_rng(ctx_seed)
    d = cm.make_vm(name)
    base = [cm.rand_thermo(d, nrng) for _ in range(2)]
    pool, keyof = [], []
    for k in range(2):
        a = base[k]
        pool.append(a); keyof.append(k)
        b = list(cm.copy_args(a))
        b[2] = b[2] + 0.25 * (1 + nrng.random(len(b[2])))      # other solute-vacancy binding
        b[5] = b[5] + 0.2 * nrng.standard_normal(len(b[5]))    # other omega2 barriers
        pool.append(tuple(b)); keyof.append(k)
    for a in cm.thermo_family(d, nrng):
        pool.append(a); keyof.append(max(keyof) + 1)
    ref = []
    for x in range(len(pool)):
        fresh = cm.make_vm(name, fresh=True)                  # a calculator that has never seen anything else
        try:
            ref.append(tuple(np.array(r, copy=True) for r in fresh.Lij(*cm.copy_args(pool[x]))))
        except Exception as e:                                # the history-free outcome of this input is an exception
            ref.append(('raises', type(e).__name__))
    _POOLS[key] = (pool, ref)
    _KEYOF[key] = keyof
    return pool, ref


def _family(name, ctx_seed):
    """the L ops of the structured family of crystal `name`"""
    _pool(name, ctx_seed)
    keyof = _KEYOF[(name, ctx_seed)]
    return [('L', keyof[x], x) for x in range(4, len(keyof))]


def _valid(seq):
    n = 0
    for op in seq:
        if op[0] == 'L': n += 1
        if op[0] == 'M' and op[1] >= n: return False
    return True


def _resolve(seq):
    """('M', 'last'|'first', slot, c) -> concrete call index"""
    out, n = [], 0
    for op in seq:
        if op[0] == 'L': n += 1; out.append(op)
        elif op[0] == 'M':
            if n == 0: return None
            out.append(('M', n - 1 if op[1] == 'last' else 0, op[2], op[3]))
        else: out.append(op)
    return out


def _run_histories(ctx, mode, items, max_report=6):
    """items: list of (crystal name, history).  Runs impl + oracle, then the model; compares."""
    lines, obs, metas = [], [], []
    reported = {}
    for name, hist in items:
        pool, ref = _pool(name, ctx.seed)
        ses = Session(name, pool, ref)
        seen, edited, nL, changed = [], False, 0, False
        for i, op in enumerate(hist):
            out = ses.apply(op)
            ctx.count('op:' + op[0])
            if op[0] == 'M': edited = True
            if op[0] != 'L': changed = True
            hrep = dict(crystal=name, NGFmax=2, Nthermo=1, history=[_optext(o) for o in hist[:i + 1]],
                        legend='L k x: Lij(pool[x]) (vacancy key k); M call slot c: result[call][slot][...]=c; '
                               'C clearcache; R regenerate; S save+reload')
            if out is None and ses.error is not None:
                # clearcache / regenerate / save+reload / edit raised at this point of the history; a new calculator
                # supports all of them, so the failure is a dependence on the history
                sig = 'history-dependence:op-raises:%s:%s' % (op[0], type(ses.error[1]).__name__)
                reported[sig] = reported.get(sig, 0) + 1
                ctx.count('violating-results:' + sig)
                if reported[sig] <= max_report:
                    ctx.violation(sig, 'operation %s raises %r after this history (crystal %s)' % (_optext(op), ses.error[1], name), hrep)
                break
            if out is not None and out[0].startswith(('raise:', 'ok-but-fresh-raises:')):
                nL += 1
                expect = ['p%d.0' % op[1]] + ['p%d.%d' % (op[2], s) for s in (1, 2, 3)]
                fresh = pool_ref = ref[op[2]]
                if out[0].startswith('raise:') and _raises(fresh) and fresh[1] == out[0][6:]:
                    ctx.count('consistent-exception')             # same exception class as on a new calculator
                else:
                    sig = 'history-dependence:%s:%s' % ('after-inplace-edit' if edited else 'no-edit',
                                                        out[0].replace('raise:', 'raises:'))
                    reported[sig] = reported.get(sig, 0) + 1
                    ctx.count('violating-results:' + sig)
                    if reported[sig] <= max_report:
                        ctx.violation(sig, 'Lij %s after this history, while a new calculator %s for the same input (crystal %s)'
                                      % ('raises %r' % (ses.error[1],) if ses.error else 'returns',
                                         'raises ' + fresh[1] if _raises(fresh) else 'returns a result', name),
                                      dict(hrep, input_hex=[cm.jarr(a) for a in pool[op[2]]]))
                seen.append(','.join(expect))                     # the model speaks about values only
                continue
            if out is not None:
                nL += 1
                seen.append(','.join(out))
                expect = ['p%d.0' % op[1]] + ['p%d.%d' % (op[2], s) for s in (1, 2, 3)]
                for s in range(4):
                    if out[s] != expect[s] and out[s] == 'other' and _tiny(ses.returned[-1][s], ref[op[2]][s]) \
                            and not _reproduced(name, pool, ref, hist[:i + 1], s):
                        # a last-bit difference that an identical replay does not show again: numerical
                        # nondeterminism of the platform (BLAS/LAPACK), not a dependence on the history
                        ctx.count('nonreproducible-last-bit-difference')
                        out[s] = expect[s]; seen[-1] = ','.join(out)
                        continue
                    if out[s] != expect[s]:
                        # direct statement of C14 on the implementation: result differs from a fresh calculator's
                        nm = ('L0vv', 'Lss', 'Lsv', 'L1vv')[s]
                        sig = 'history-dependence:%s:%s' % ('after-inplace-edit' if edited else 'no-edit', nm)
                        if out[s] == 'other' and _tiny(ses.returned[-1][s], ref[op[2]][s]):
                            # reproducible, but at rounding level only (<= 1e-13 relative)
                            kinds = [o[0] for o in hist[:i + 1]]
                            after = 'S' in kinds and 'R' in kinds[kinds.index('S'):]
                            sig = 'history-dependence:rounding-level:%s' % ('reload-then-regenerate' if after else 'other')
                        if sig.startswith('history-dependence:rounding-level'):
                            # not a violation of C14: the fresh reference itself is defined only up to the iteration
                            # order of the crystal's group (salted hashes), i.e. up to rounding; recorded in the evidence
                            out[s] = expect[s]; seen[-1] = ','.join(out)
                            ctx.count('rounding-level-difference:' + sig.split(':')[-1])
                            if sig not in reported:
                                reported[sig] = 1
                                ctx.note('rounding-level (<=1e-13 rel) reproducible difference from a fresh calculator, %s: %s on %s'
                                         % (sig.split(':')[-1], [_optext(o) for o in hist[:i + 1]], name))
                            continue
                        reported[sig] = reported.get(sig, 0) + 1
                        ctx.count('violating-results:' + sig)
                        if reported[sig] <= max_report:
                            res = ses.returned[-1]
                            ctx.violation(sig, 'Lij result %s after history differs from a fresh calculator (crystal %s)'
                                          % (nm, name),
                                          dict(crystal=name, NGFmax=2, Nthermo=1, history=[_optext(o) for o in hist[:i + 1]],
                                               legend='L k x: Lij(pool[x]) (vacancy key k); M call slot c: result[call][slot][...]=c; '
                                                      'C clearcache; R regenerate; S save+reload',
                                               input_hex=[cm.jarr(a) for a in pool[op[2]]],
                                               got_hex=cm.jarr(res[s]), fresh_hex=cm.jarr(ref[op[2]][s])))
        keys = {o[1] for o in hist if o[0] == 'L'}
        ctx.case((name, [_optext(o) for o in hist]), nontrivial=(nL >= 2 and (changed or len(keys) > 1)),
                 sample=dict(crystal=name, history=[_optext(o) for o in hist]) if len(hist) > 3 else None)
        lines.append('%s | %s' % (mode, ';'.join(_optext(o) for o in hist)))
        obs.append(' '.join(seen) if seen else '-')
        metas.append((name, hist))
    got = ctx.lean(DRIVER, lines)
    nd = 0
    for g, o, (name, hist) in zip(got, obs, metas):
        if g != o:
            nd += 1
            if nd <= 10:
                ctx.disagree('model (%s) and implementation differ on history %s (%s): model `%s` impl `%s`'
                             % (mode, [_optext(x) for x in hist], name, g, o),
                             dict(crystal=name, history=[_optext(x) for x in hist], model=g, impl=o, mode=mode))
    return nd


def _probe(ctx):
    """reload + regenerate under chosen hash seeds (subprocess): the reloaded crystal's group iterates in another order"""
    import subprocess, sys, json
    probe = os.path.join(os.path.dirname(os.path.abspath(__file__)), '_c14_probe.py')
    repo = os.environ.get('ONSAGER_REPO', '/repo')
    jobs = [('hon', 2), ('hon', 9)] if ctx.quick else [(n, s) for n in ('hon', 'sq', 'hcp', 'rect2') for s in range(12)]
    procs = []
    for name, hs in jobs:
        env = dict(os.environ, PYTHONHASHSEED=str(hs))
        procs.append((name, hs, subprocess.Popen([sys.executable, probe, repo, name, str(ctx.seed)], env=env,
                                                 stdout=subprocess.PIPE, stderr=subprocess.PIPE, text=True)))
    shown = 0
    for name, hs, p in procs:
        out, err = p.communicate(timeout=600)
        if p.returncode != 0:
            ctx.note('probe %s hashseed %d failed: %s' % (name, hs, err[-300:])); continue
        r = json.loads(out.strip().split('\n')[-1])
        ctx.case(('probe', name, hs), nontrivial=not r['group_order_same'])
        ctx.count('probe:reload-regenerate')
        if not r['group_order_same']: ctx.count('probe:group-order-differs-after-reload')
        if not all(r['same_bits']):
            ctx.count('probe:result-differs-in-last-bits')
            if max(r['rel']) <= 1e-12:
                ctx.count('probe:rounding-level-difference')
                shown += 1
                if shown <= 2:
                    ctx.note('reload+regenerate on %s under PYTHONHASHSEED=%d differs from a never-reloaded calculator by %.2g '
                             'relative (group iteration order of the reloaded crystal differs); rounding level, not counted '
                             'as a violation' % (name, hs, max(r['rel'])))
                continue
            ctx.violation('history-dependence:no-edit:reload-then-regenerate',
                          'save/reload, regenerate, Lij: result differs from a never-reloaded calculator by %.2g relative'
                          % max(r['rel']),
                          dict(crystal=name, PYTHONHASHSEED=hs, history=['S', 'R', 'L'], rel=r['rel'],
                               command='PYTHONHASHSEED=%d %s %s %s %s %d' % (hs, sys.executable, probe, repo, name, ctx.seed),
                               input_hex=r['input_hex'], got_hex=r['got_hex'], fresh_hex=r['fresh_hex']))


def _alphabet(nx=3):
    al = [('L', x // 2, x) for x in range(nx)]
    al += [('M', 'last', 0, 7), ('M', 'last', 1, 7), ('M', 'first', 0, -3)]
    al += [('C',), ('R',), ('S',)]
    return al


def _rand_hist(rng, length, keyof=(0, 0, 1, 1)):
    nx = len(keyof)
    def L():
        x = rng.randrange(nx) if rng.random() < 0.6 else rng.randrange(min(4, nx))
        return ('L', keyof[x], x)
    seq, n = [], 0
    for _ in range(length):
        r = rng.random()
        if n == 0 or r < 0.45:
            seq.append(L()); n += 1
        elif r < 0.70:
            seq.append(('M', rng.randrange(n), rng.choice([0, 0, 0, 1, 2, 3]), rng.choice([7, -3, 0, 11])))
        elif r < 0.80: seq.append(('C',))
        elif r < 0.88: seq.append(('R',))
        else: seq.append(('S',))
    if seq[-1][0] != 'L': seq.append(L())
    return seq


def run(ctx):
    facts = _facts(os.environ.get('ONSAGER_REPO', '/repo'))
    mode = 'copy' if facts['returnCopies'] else 'alias'
    ctx.note('source Lij classified as %s (%s)' % (mode, facts['detail']))
    ctx.count('mode:' + mode)
    if mode != 'copy':
        # the obligation `srcMode = copy` (under which history_independent applies to the source) does not hold
        ctx.disagree('Generated obligation storeMode = copy fails: Lij hands the cached Lvvvalues array to the caller (%s)'
                     % facts['detail'], dict(facts=facts), sig=SIG_STATIC)
    items = []
    # (1) bounded-exhaustive on the square lattice
    L = 3 if ctx.quick else 4
    al = _alphabet()
    for ln in range(1, L + 1):
        for seq in itertools.product(al, repeat=ln):
            if seq[-1][0] != 'L': continue          # only histories that end in an observation
            r = _resolve(seq)
            if r is not None: items.append(('sq', r))
    # (1b) every order of up to 3 evaluations (with an optional clearcache / reload in between) on crystals with
    #      origin states (polar sites: non-zero bare-vacancy bias correction, step 6c of Lij is active)
    Ls = [('L', x // 2, x) for x in range(4)]
    for name in (cm.ORIGIN_STATE_NAMES[:1] if ctx.quick else cm.ORIGIN_STATE_NAMES):
        for ln in (2, 3):
            for seq in itertools.product(Ls, repeat=ln):
                if ctx.quick and ln == 3 and seq[0][1] == seq[1][1]: continue     # quick: the vacancy key changes after the first call
                items.append((name, list(seq)))
        for a in Ls:
            for b in Ls:
                if a[1] != b[1]:
                    for mid in ((('C',), ('S',)) if ctx.quick else (('C',), ('S',), ('R',))):
                        items.append((name, [a, b, mid, a])); items.append((name, [a, mid, b, a]))
    # (1c) anisotropic crystals, inputs that differ in the vacancy part only (same largest omega0 rate, other ratios):
    #      every ordered pair evaluated in sequence on one calculator, also with clearcache between (state that
    #      survives inside the GF calculator, not in the Lij cache); thorough: also triples and reload / regenerate
    for name in (cm.ANISOTROPIC_NAMES[:3] if ctx.quick else cm.ANISOTROPIC_NAMES):
        fam = _family(name, ctx.seed)
        nv = 3
        for ia, a in enumerate(fam):
            for ib, b in enumerate(fam):
                if ia == ib: continue
                costly = ctx.quick and name == cm.ANISOTROPIC_NAMES[0]          # quick: thin the costliest crystal
                if costly and ia // nv != ib // nv: continue
                items.append((name, [a, b]))
                if not ctx.quick or (ia // nv == ib // nv and not (costly and ia > ib)):
                    items.append((name, [a, ('C',), b]))
                if not ctx.quick:
                    items.append((name, [a, b, ('C',), a])); items.append((name, [a, ('S',), b])); items.append((name, [b, a, b]))
    ctx.count('exhaustive-histories', len(items))
    # (2) random histories on the zoo
    names = ['sq', 'hon', 'tri', 'fcc', 'sc', 'rect2', 'pol2', 'tet1'] if ctx.quick else \
        ['sq', 'hon', 'tri', 'fcc', 'sc', 'bcc', 'b2', 'dia', 'rect2', 'tric', 'hcp', 'pol2', 'pol3', 'tet1']
    nrand = 48 if ctx.quick else 1500
    for t in range(nrand):
        nm = names[t % len(names)]
        _pool(nm, ctx.seed)
        items.append((nm, _rand_hist(ctx.rng, ctx.rng.randint(3, 10), _KEYOF[(nm, ctx.seed)])))
    ctx.count('random-histories', nrand)
    _run_histories(ctx, mode, items)
    _probe(ctx)
    if mode == 'alias' and not any(v['sig'] == SIG_ALIAS for v in ctx.violations):
        ctx.disagree('source classified alias but no history exhibited a poisoned result', dict(facts=facts))


def search(ctx, reasons):
    """The witness history of the alias theorem, on several crystals, plus longer random histories (oracle only matters)."""
    facts = _facts(os.environ.get('ONSAGER_REPO', '/repo'))
    mode = 'copy' if facts['returnCopies'] else 'alias'
    items = []
    for name in ('sq', 'fcc', 'hcp', 'hon'):
        items.append((name, [('L', 0, 0), ('M', 0, 0, 7), ('L', 0, 0)]))
        items.append((name, [('L', 0, 0), ('L', 0, 1), ('M', 1, 0, 7), ('S',), ('L', 0, 0)]))
        items.append((name, [('L', 0, 0), ('M', 0, 0, 7), ('L', 1, 2), ('L', 0, 1)]))
    for t in range(100):
        items.append((('sq', 'hon', 'fcc', 'rect2', 'pol2')[t % 5], _rand_hist(ctx.rng, 12)))
    _run_histories(ctx, mode, items)
