"""
C27 — Supercell symmetry and equivalence mapping are sound and complete.

Tie: (a) translator: whether `equivalencemap` handles the no-defect case before `min(defcount)` is read
from the source with `ast` (cross-checked by running the real function once on a defect-free pair) and
emitted as Generated/C27Facts.lean; the Lean driver runs the model with that flag and
OnsagerProofs/C27Tie.lean instantiates the completeness theorem at it.
(b) correspondence: maketrans / gengroup (integer model, exact geometric check) and defectindices /
equivalencemap (exact search over the op list in the source's iteration order) against real Supercell
objects.  (c) direct oracles on the implementation: ops are permutations consistent with the geometry;
a returned (g, mapping) transforms self into other exactly; a pair is returned iff some op of G maps
the occupations (brute force over G).
"""
import ast, os, sys, subprocess, time, warnings
from fractions import Fraction
import numpy as np
from props import c27zoo
from props.c27zoo import rat, showrat

META = dict(
    id='C27',
    level_text='Kernel-checked theorems for the model of equivalencemap over ANY op list and occupations: a returned '
               '(g, mapping) transforms self into other exactly (occ and chemorder, via __imul__ + reorder); if some '
               'site-class-preserving permutation in G maps the occupations a pair is returned (proved under '
               '"some defect exists" unless the source guards the empty case - the flag is translated from the '
               'source each run); None is only returned when no op maps them; the defect pre-filter is implied by '
               'the full comparison; the permutation test of gengroup implies a genuine permutation. The geometric '
               'consistency pos[indexmap[i]] = Rsuper pos[i] + tsuper (mod 1) is NOT proved in general: it is checked '
               'exactly (rationals) by the model on every generated op and by a float oracle on the real ops (partial).',
    level_note='Trusted: Lean kernel + standard axioms; ast translator of the empty-defect guard; harness. Modelled not '
               'verified: numpy indexing, frozenset iteration order (passed to the model as observed), float "%" in tsuper.',
    technique='Lean 4 proofs over an executable search model + ast-translated guard flag + differential runs + brute-force oracle',
    lean_modules=['OnsagerModel.C27', 'OnsagerProofs.C27', 'Generated.C27Facts', 'OnsagerProofs.C27Tie'],
    theorems=['Onsager.C27.perm_of_isPermB', 'Onsager.C27.permOcc_perm', 'Onsager.C27.permOcc_buffer',
              'Onsager.C27.equiv_sound', 'Onsager.C27.equiv_sound_reorder', 'Onsager.C27.prefilter_implied',
              'Onsager.C27.equiv_complete_partial', 'Onsager.C27.equiv_complete_full_guarded',
              'Onsager.C27.equiv_complete_full_unguarded_fails', 'Onsager.C27.equiv_none_sound',
              'Onsager.C27.equiv_nodefect_raises', 'Onsager.C27.inv_sane'],
    tie_theorems=['Onsager.C27.src_equiv_complete'],
    rule='(crystal from the zoo, supercell matrix incl. non-diagonal/symmetry-breaking, interstitial/solute setting, '
         'occupation pair); pairs: related by a random op of G + random reordering, same stoichiometry re-placed defects, '
         'different stoichiometry, defect-free, all-vacant, random soup, tampered chemorder (malformed); a case is one '
         'pair or one supercell geometry; non-trivial = the op search is entered (defect census matches) or geometry with '
         'size>1; distinct by the request text',
    trusted=['Python ast extraction of the guard around min(defcount) (harness/props/c27.py: extract)',
             'iteration order of frozenset G and of Wyckoff frozensets is observed from the implementation and passed to the model'],
    assumptions=['both supercells of a pair come from the same Supercell (same sites, same G)',
                 'chemistry names contain no separator characters used by the line protocol'],
)

DRIVER = 'Drive/C27.lean'


# ---------------------------------------------------------------- translator
def _guard_from_ast(src):
    """True when the call min(defcount, ...) inside Supercell.equivalencemap cannot see an empty dict:
    it has a default=, or sits under an if/conditional/try that tests the defect dictionaries."""
    tree = ast.parse(src)
    fn = next(n for cls in ast.walk(tree) if isinstance(cls, ast.ClassDef) and cls.name == 'Supercell'
              for n in cls.body if isinstance(n, ast.FunctionDef) and n.name == 'equivalencemap')
    names = {'defcount', 'selfdefects', 'otherdefects'}

    def mentions(node):
        return any(isinstance(x, ast.Name) and x.id in names for x in ast.walk(node))

    found = []

    def visit(node, guarded):
        if isinstance(node, ast.Call) and isinstance(node.func, ast.Name) and node.func.id == 'min' \
                and node.args and mentions(node.args[0]):
            found.append(guarded or any(k.arg == 'default' for k in node.keywords))
        if isinstance(node, ast.If) or isinstance(node, ast.IfExp):
            g = guarded or mentions(node.test)
            for ch in ast.iter_child_nodes(node): visit(ch, g)
            return
        if isinstance(node, ast.Try):
            for ch in ast.iter_child_nodes(node): visit(ch, True)
            return
        for ch in ast.iter_child_nodes(node): visit(ch, guarded)

    # an early `if <no defects>: return ...` before the min also counts
    early = False
    for st in fn.body:
        if isinstance(st, ast.If) and mentions(st.test) and any(isinstance(x, ast.Return) for x in ast.walk(st)) \
                and any(isinstance(x, (ast.Not,)) or (isinstance(x, ast.Call) and getattr(x.func, 'id', '') == 'len')
                        for x in ast.walk(st.test)) and not any(isinstance(x, ast.For) for x in ast.walk(st)):
            early = True
        visit(st, early)
    if not found:
        return True, 'no min(defcount) call found'
    return all(found), 'min(defcount) %s' % ('guarded' if all(found) else 'unguarded')


_PROBE = r'''
import sys, warnings
warnings.simplefilter('ignore')
sys.path.insert(0, sys.argv[1])
import numpy as np
from onsager import crystal, supercell
sup = supercell.Supercell(crystal.Crystal.FCC(1., chemistry='Ni'), np.diag([2, 1, 1]))
sup.fillperiodic((0, 0))
try:
    g, m = sup.equivalencemap(sup.copy())
    print('returns' if g is not None else 'none')
except ValueError:
    print('raises')
'''


def extract(repo):
    src = open(os.path.join(repo, 'onsager', 'supercell.py')).read()
    guard, why = _guard_from_ast(src)
    try:
        p = subprocess.run([sys.executable, '-c', _PROBE, repo], capture_output=True, text=True, timeout=120)
        live = p.stdout.strip().split('\n')[-1] if p.stdout.strip() else 'probe-failed'
    except Exception as e:
        live = 'probe-failed'
    note = why + '; live probe on a defect-free FCC pair: ' + live
    if live == 'returns' and not guard:
        guard, note = True, note + ' (ast pattern not recognised; flag taken from the live probe)'
    if live == 'raises' and guard:
        guard, note = False, note + ' (ast saw a guard but the call still raises; flag taken from the live probe)'
    txt = ('/- GENERATED by harness/props/c27.py from onsager/supercell.py (Supercell.equivalencemap) on every run. -/\n'
           'namespace Generated.C27\n'
           '/-- %s -/\n'
           'def guardsEmpty : Bool := %s\n'
           'end Generated.C27\n') % (note.replace('/-', '').replace('-/', ''), 'true' if guard else 'false')
    return {'C27Facts.lean': txt}


# ---------------------------------------------------------------- printing helpers
def _l(l):
    return '-' if len(l) == 0 else ','.join(str(int(x)) for x in l)


def _ll(ll):
    return '-' if len(ll) == 0 else ';'.join((','.join(str(int(x)) for x in l) if len(l) else '_') for l in ll)


def _names(l):
    return '-' if len(l) == 0 else ','.join((x if x != '' else '~') for x in l)


def _j(x):
    if isinstance(x, np.ndarray): return x.tolist()
    if isinstance(x, (np.integer,)): return int(x)
    if isinstance(x, (list, tuple)): return [_j(y) for y in x]
    return x


def _cell(sup):
    return dict(occ=_j(sup.occ), chemorder=_j(sup.chemorder))


# ---------------------------------------------------------------- geometry: maketrans / gengroup
GEOM_SESSIONS = []


def _geometry_session(ctx, name, crys, S, sup, nwarn, lines, checks):
    """requests for one supercell + the direct oracles on the real ops"""
    n = sup.N * sup.size
    rep = dict(crystal=name, superlatt=_j(S), lattice=_j(crys.lattice), basis=_j(crys.basis))
    Glist = list(sup.G)
    # ---- direct oracles on the implementation
    for g in Glist:
        im = g.indexmap[0]
        if len(im) != n or sorted(im) != list(range(n)):
            ctx.violation('op-not-permutation', 'supercell op index map is not a permutation of the sites',
                          dict(rep, rot=_j(g.rot), indexmap=_j(im)))
            return
        img = np.dot(sup.pos, g.rot.T) + g.trans
        d = img - sup.pos[list(im)]
        d -= np.round(d)
        if np.abs(d).max() > 1e-9:
            ctx.violation('op-not-geometric', 'pos[indexmap[i]] != Rsuper pos[i] + tsuper (mod 1)',
                          dict(rep, rot=_j(g.rot), trans=_j(g.trans), indexmap=_j(im), maxdev=float(np.abs(d).max())))
            return
    # which crystal ops survive in the supercell (independent exact computation)
    det = int(round(np.linalg.det(S)))
    adj = np.round(np.linalg.inv(S) * det).astype(int)   # S^-1 = adj/det
    keep = 0
    for g0 in crys.G:
        M = adj.dot(g0.rot).dot(S)
        if np.all(M % det == 0): keep += 1
    if len(Glist) != keep * sup.size:
        ctx.violation('group-size', 'len(G) != (#crystal ops with integer Rsuper) * size',
                      dict(rep, lenG=len(Glist), kept=keep, size=sup.size))
    if nwarn != len(crys.G) - keep:
        ctx.violation('broken-symmetry-warning', 'number of Broken-symmetry warnings != number of crystal ops dropped',
                      dict(rep, warnings=nwarn, dropped=len(crys.G) - keep))
    if not any(np.all(g.rot == np.eye(3, dtype=int)) and tuple(g.indexmap[0]) == tuple(range(n)) for g in Glist):
        ctx.violation('no-identity', 'identity is not among the supercell ops', rep)
    # ---- model requests
    try:
        basis = [[rat(x) for x in crys.basis[c][i]] for (c, i) in crys.atomindices]
    except ValueError:
        return
    lines.append('super %s %d %s' % (_l(S.flatten()), sup.N, ';'.join(','.join(showrat(x) for x in b) for b in basis)))
    checks.append(('super', rep, sup))
    zero = np.zeros(3, dtype=int)
    sess = dict(rep=rep, nG=len(Glist), seen=set(), complete=True)
    GEOM_SESSIONS.append(sess)
    for g0 in crys.G:
        try:
            t = [rat(x) for x in g0.trans]
        except ValueError:
            sess['complete'] = False
            continue
        atoms = []
        for ci in crys.atomindices:
            d, ci1 = crys.g_pos(g0, zero, ci)
            atoms.append(','.join(str(int(x)) for x in [sup.indexatom[ci1]] + list(d)))
        lines.append('cop %s %s %s' % (_l(g0.rot.flatten()), ','.join(showrat(x) for x in t), ';'.join(atoms)))
        checks.append(('cop', rep, (sup, g0, Glist, sess['seen'])))
    ctx.case(('geom', name, S.tobytes()), nontrivial=sup.size > 1,
             sample=dict(kind='geometry', crystal=name, superlatt=_j(S), size=sup.size, ops=len(Glist), dropped=nwarn))
    ctx.count('geom:ops', len(Glist)); ctx.count('geom:dropped-crystal-ops', nwarn)
    ctx.count('geom:nondiagonal' if np.any(S != np.diag(np.diag(S))) else 'geom:diagonal')


def _check_geometry(ctx, line, ans, chk):
    kind, rep, data = chk
    if kind == 'super':
        sup = data
        exp = 'ok %d %s %s' % (sup.size, _l(sup.invsuper.flatten()), _ll(sup.translist))
        if ans != exp:
            ctx.disagree('maketrans: model `%s` impl `%s`' % (ans[:200], exp[:200]), dict(rep, line=line, model=ans, impl=exp))
        return
    sup, g0, Glist, seen = data
    byk = {}
    for g in Glist:
        byk.setdefault(tuple(g.rot.flatten()), {})[tuple(g.indexmap[0])] = g
    if ans == 'none':
        M = sup.invsuper.dot(g0.rot).dot(sup.superlatt)
        if np.all(M % sup.size == 0):
            ctx.disagree('gengroup: model drops crystal op kept by the implementation', dict(rep, line=line))
        return
    if not ans.startswith('ops '):
        ctx.disagree('gengroup: model answered `%s`' % ans[:100], dict(rep, line=line, model=ans))
        return
    for part in ans[4:].split(' # '):
        R, t, im, geom = part.split('|')
        R = tuple(int(x) for x in R.split(','))
        im = tuple(int(x) for x in im.split(','))
        g = byk.get(R, {}).get(im)
        if g is None:
            ctx.disagree('gengroup: model op (Rsuper, indexmap) not in the implementation G',
                         dict(rep, line=line, rot=R, indexmap=im))
            return
        seen.add((R, im))
        tm = np.array([float(Fraction(x)) for x in t.split(',')])
        d = tm - g.trans
        d -= np.round(d)
        if np.abs(d).max() > 1e-9:
            ctx.disagree('gengroup: tsuper differs (mod 1)', dict(rep, line=line, model=t, impl=_j(g.trans)))
            return
        if geom != '1':
            ctx.disagree('exact geometric check failed on a model op', dict(rep, line=line, op=part), sig='op-not-geometric')
            return


# ---------------------------------------------------------------- occupations
def _filled(sup):
    s = sup.copy()
    for (c, i) in sup.crys.atomindices:
        if c not in sup.interstitial:
            s.fillperiodic((c, i), Wyckoff=False)
    return s


def _place_defects(rng, base, k):
    """k random point defects on a filled cell"""
    s = base.copy()
    n = len(s.occ)
    sites = rng.sample(range(n), min(k, n))
    for ind in sites:
        native = s.atomindices[ind % s.N][0]
        if native in s.interstitial:
            c = rng.choice([native] + list(range(s.Nchem)))
        else:
            c = rng.choice([-1, -1] + [x for x in range(s.Nchem) if x != native])
        s.setocc(ind, c)
    return s


def _soup(rng, sup):
    s = sup.copy()
    for ind in range(len(s.occ)):
        s.setocc(ind, rng.randint(-1, s.Nchem - 1))
    return s


class _OracleFail(Exception):
    def __init__(self, sig, what, rep):
        Exception.__init__(self, what)
        self.sig, self.what, self.rep = sig, what, rep


def _shuffle_order(rng, s):
    """random reordering; direct oracle for reorder: new[c][i] == old[c][mapping[c][i]], occ untouched"""
    mp = []
    for cl in s.chemorder:
        p = list(range(len(cl))); rng.shuffle(p); mp.append(p)
    old, oldocc = [list(l) for l in s.chemorder], s.occ.copy()
    try:
        s.reorder(mp)
    except Exception as e:
        raise _OracleFail('reorder-rejects-permutation', 'reorder raised %r on a proper permutation' % (e,),
                          dict(chemorder=_j(old), mapping=mp))
    if not np.array_equal(oldocc, s.occ) or any(s.chemorder[c][i] != old[c][mp[c][i]] for c in range(len(old)) for i in range(len(old[c]))):
        raise _OracleFail('reorder-wrong', 'reorder: new[c][i] != old[c][mapping[c][i]]',
                          dict(chemorder=_j(old), mapping=mp, result=_j(s.chemorder)))
    return s


def _apply(g, A):
    """g*A with the direct oracle for __imul__: site i goes to indexmap[i], in occ and in chemorder"""
    im = g.indexmap[0]
    B = g * A
    ok = all(B.occ[im[i]] == A.occ[i] for i in range(len(im))) and \
        B.chemorder == [[im[i] for i in cl] for cl in A.chemorder] and B.__sane__() and B is not A
    if not ok:
        raise _OracleFail('imul-wrong', 'g*supercell does not move the occupation of site i to indexmap[i] (occ/chemorder)',
                          dict(indexmap=_j(im), before=_cell(A), after=_cell(B)))
    return B


def _replace_defects(rng, base, A):
    """same defect census as A, placed on other random sites of the same class"""
    s = base.copy()
    n = len(s.occ)
    bycls = {}
    for ind in range(n):
        bycls.setdefault(A.atomindices[ind % A.N][0], []).append(ind)
    for cls, inds in bycls.items():
        vals = [A.occ[i] for i in inds if A.occ[i] != base.occ[i]]
        for ind, c in zip(rng.sample(inds, len(vals)), vals):
            s.setocc(ind, int(c))
    return s


def _pairs(ctx, rng, sup, Glist, npairs, rep0):
    base = _filled(sup)
    out = []
    kinds = ['related', 'related', 'related', 'replaced', 'replaced', 'stoich', 'nodefect', 'soup-related', 'soup',
             'tamper', 'allvacant', 'related-big']
    for t in range(npairs):
        kind = kinds[t % len(kinds)] if t < len(kinds) else rng.choice(kinds)
        n = len(base.occ)
        try:
            pr = _one_pair(rng, sup, Glist, base, kind, n)
        except _OracleFail as e:
            ctx.violation(e.sig, e.what, dict(rep0, kind=kind, **e.rep))
            continue
        out.append(pr)
    return out


def _one_pair(rng, sup, Glist, base, kind, n):
    if True:
        if kind in ('related', 'replaced', 'stoich', 'tamper'):
            A = _place_defects(rng, base, rng.randint(1, 4))
        elif kind == 'related-big':
            A = _place_defects(rng, base, rng.randint(4, max(4, n // 2)))
        elif kind in ('soup', 'soup-related'):
            A = _soup(rng, sup)
        elif kind == 'allvacant':
            A = sup.copy()
        else:
            A = base.copy()
        _shuffle_order(rng, A)
        g = Glist[rng.randrange(len(Glist))]
        if kind in ('related', 'related-big', 'soup-related', 'nodefect', 'allvacant', 'tamper'):
            B = _shuffle_order(rng, _apply(g, A))
        elif kind == 'replaced':
            B = _shuffle_order(rng, _replace_defects(rng, base, A))
        elif kind == 'soup':
            if rng.random() < 0.5:
                B = _shuffle_order(rng, _soup(rng, sup))
            else:   # same multiset of species, shuffled over the sites
                vals = [int(c) for c in A.occ]; rng.shuffle(vals)
                B = sup.copy()
                for ind, c in enumerate(vals): B.setocc(ind, c)
        else:  # different stoichiometry
            B = _apply(g, A)
            ind = rng.randrange(n)
            B.setocc(ind, rng.choice([c for c in range(-1, B.Nchem) if c != B.occ[ind]]))
        malformed = False
        if kind == 'tamper':
            malformed = True
            B = B.copy()
            cs = [c for c, l in enumerate(B.chemorder) if len(l) > 0]
            if cs:
                c = rng.choice(cs)
                if rng.random() < 0.5:
                    B.chemorder[c].pop()
                else:
                    B.chemorder[c][rng.randrange(len(B.chemorder[c]))] = rng.randrange(n)
        return (kind, A, B, malformed)


def _equiv_session(ctx, name, crys, S, inter, nsol, solnames, sup, lines, checks, npairs):
    rng = ctx.rng
    Glist = list(sup.G)
    n = sup.N * sup.size
    sup = sup.copy()
    for c, nm in zip(range(crys.Nchem, sup.Nchem), solnames):
        sup.chemistry = list(sup.chemistry)
        sup.definesolute(c, nm)
    order = [i for wset in sup.Wyckofflist for i in wset]
    interflags = [1 if sup.atomindices[a][0] in sup.interstitial else 0 for a in range(sup.N)]
    sitechem = [sup.chemistry[c] for (c, i) in sup.atomindices]
    lines.append('ctx %d %d x %s %s %s %s' % (sup.N, sup.size, _names(sup.chemistry), _l(interflags), _names(sitechem), _l(order)))
    checks.append(('expect', None, 'ok'))
    lines.append('G ' + _ll([g.indexmap[0] for g in Glist]))
    checks.append(('expect', None, 'ok %d/%d' % (len(Glist), len(Glist))))
    IM = np.array([g.indexmap[0] for g in Glist])
    rows = np.arange(len(Glist))[:, None]
    rep0 = dict(crystal=name, superlatt=_j(S), lattice=_j(crys.lattice), basis=_j(crys.basis), interstitial=_j(inter),
                Nsolute=nsol)
    for kind, A, B, malformed in _pairs(ctx, rng, sup, Glist, npairs, rep0):
        rep = dict(crystal=name, superlatt=_j(S), lattice=_j(crys.lattice), basis=_j(crys.basis), interstitial=_j(inter),
                   Nsolute=nsol, solute_names=solnames, kind=kind, self=_cell(A), other=_cell(B))
        # defect census correspondence
        da = A.defectindices()
        lines.append('defects ' + _l(A.occ))
        checks.append(('expect-defects', rep, '-' if not da else '|'.join('%s=%s' % (k if k != '' else '~', _l(sorted(v))) for k, v in da.items())))
        # the call under test
        try:
            with warnings.catch_warnings():
                warnings.simplefilter('ignore')
                g, mp = A.equivalencemap(B)
            if g is None:
                res = 'none'
            else:
                k = next((i for i, h in enumerate(Glist) if h is g), None)
                res = 'some %s %s' % (k, _ll(mp))
        except ValueError as e:
            g, mp, res = None, None, 'err value'
        except IndexError as e:
            g, mp, res = None, None, 'err index'
        except Exception as e:
            g, mp, res = None, None, 'err other:' + type(e).__name__
        lines.append('equiv %s %s %s %s' % (_l(A.occ), _ll(A.chemorder), _l(B.occ), _ll(B.chemorder)))
        nodefects = (len(da) == 0)
        checks.append(('expect-equiv', rep, (res, nodefects)))
        ctx.count('pair:' + kind); ctx.count('result:' + res.split()[0] + (':err' if res.startswith('err') else ''))
        # ---- direct oracles (well-formed pairs only)
        gocc = np.empty((len(Glist), n), dtype=int)
        gocc[rows, IM] = A.occ[None, :]
        hits = np.nonzero((gocc == B.occ[None, :]).all(axis=1))[0]
        exists = len(hits) > 0
        census_match = sorted((k, len(v)) for k, v in da.items()) == sorted((k, len(v)) for k, v in B.defectindices().items())
        ctx.case(('pair', lines[-1], lines[-2]), nontrivial=census_match and not (exists and IM[hits[0]].tolist() == list(range(n))),
                 sample=dict(kind=kind, crystal=name, superlatt=_j(S), Nsolute=nsol, result=res[:60], exists=bool(exists)))
        ctx.count('oracle:equivalent' if exists else ('oracle:inequivalent-same-census' if census_match else 'oracle:census-differs'))
        if malformed:
            continue
        if res.startswith('err'):
            ctx.violation('equiv-raises:' + ('no-defects' if nodefects else 'with-defects'),
                          'equivalencemap raised %s on two sane supercells (%s)' % (res[4:], 'no defects in either' if nodefects else kind),
                          dict(rep, oracle_equivalent=bool(exists)))
            continue
        if g is None:
            if exists:
                ctx.violation('equiv-incomplete', 'equivalencemap returned None although op #%d of G maps self.occ onto other.occ' % hits[0],
                              dict(rep, op_indexmap=_j(IM[hits[0]])))
            continue
        # sound: g in G, g*self reordered by mapping is other, exactly
        if k is None:
            ctx.violation('equiv-unsound:foreign-op', 'returned op is not an element of self.G', rep)
            continue
        T = (g * A)
        try:
            T.reorder(mp)
            ok = np.array_equal(T.occ, B.occ) and T.chemorder == B.chemorder
        except Exception as e:
            ok = False
        ok2 = all(T2 == b for T2, b in zip([[ (g * A).chemorder[c][mp[c][i]] for i in range(len(B.chemorder[c]))]
                                             for c in range(len(B.chemorder))], B.chemorder)) if ok else False
        if not (ok and ok2):
            ctx.violation('equiv-unsound', 'returned (g, mapping) does not transform self into other (occ and chemorder)',
                          dict(rep, g_indexmap=_j(g.indexmap[0]), mapping=_j(mp), oracle_equivalent=bool(exists)))
            continue
        # model-level application of the returned pair
        lines.append('imul %d %s %s %s' % (k, _l(A.occ), _ll(A.chemorder), _ll(mp)))
        checks.append(('expect', rep, '%s %s' % (_l(B.occ), _ll(B.chemorder))))


def _check(ctx, line, ans, chk, guard):
    kind, rep, exp = chk
    if kind in ('super', 'cop'):
        return _check_geometry(ctx, line, ans, chk)
    if kind == 'expect-equiv':
        res, nodefects = exp
        if ans == res: return
        if nodefects and ans.split()[0] == res.split()[0]:
            return   # defect-free pair: any valid op is acceptable (soundness is checked by the oracle)
        sig = 'equiv-raises:no-defects' if (nodefects and res.startswith('err') != ans.startswith('err')) else None
        ctx.disagree('equivalencemap: model `%s` impl `%s`' % (ans[:120], res[:120]), dict(rep, line=line, model=ans, impl=res), sig=sig)
        return
    if ans != exp:
        ctx.disagree('%s: model `%s` impl `%s`' % (line.split()[0], ans[:160], exp[:160]), dict(rep or {}, line=line, model=ans, impl=exp))


def _configs(ctx, rng, nconf, maxsites):
    Z = c27zoo.zoo(rng)
    out = []
    tries = 0
    while len(out) < nconf and tries < 20 * nconf:
        tries += 1
        name, crys, intercand = Z[(tries - 1) % len(Z)] if tries <= len(Z) else rng.choice(Z)
        S = c27zoo.supermat(rng)
        size = abs(int(round(np.linalg.det(S))))
        if crys.N * size > maxsites or len(crys.G) * size > 1600: continue
        inter = intercand if (intercand and rng.random() < 0.8) else ()
        nsol = rng.choice([0, 1, 1, 2])
        solnames = [rng.choice(['', 'X', 'Y', crys.chemistry[0]]) for _ in range(nsol)]
        out.append((name, crys, S, inter, nsol, solnames))
    return out


def _run(ctx, nconf, npairs, maxsites):
    rng = ctx.rng
    guard = None
    t_start = time.time()
    lines, checks = [], []
    del GEOM_SESSIONS[:]
    for (name, crys, S, inter, nsol, solnames) in _configs(ctx, rng, nconf, maxsites):
        if time.time() - t_start > (60 if ctx.quick else 900): break
        sup, nwarn = c27zoo.make_supercell(crys, S, inter, nsol)
        ctx.count('cfg:' + name); ctx.count('cfg:Nsolute=%d' % nsol); ctx.count('cfg:interstitial' if inter else 'cfg:no-interstitial')
        if nwarn: ctx.count('cfg:symmetry-broken-by-supercell')
        _geometry_session(ctx, name, crys, S, sup, nwarn, lines, checks)
        _equiv_session(ctx, name, crys, S, inter, nsol, solnames, sup, lines, checks, npairs)
    if ctx.evaluations == 0:
        raise RuntimeError('C27: no case was evaluated (generation produced nothing)')
    got = ctx.lean(DRIVER, lines, timeout=1200)
    for line, ans, chk in zip(lines, got, checks):
        _check(ctx, line, ans, chk, guard)
    for sess in GEOM_SESSIONS:
        if sess['complete'] and len(sess['seen']) != sess['nG']:
            ctx.disagree('gengroup: model generates %d distinct ops, implementation has %d' % (len(sess['seen']), sess['nG']), sess['rep'])


def run(ctx):
    if ctx.quick:
        _run(ctx, nconf=26, npairs=14, maxsites=36)
    else:
        _run(ctx, nconf=150, npairs=40, maxsites=64)


def search(ctx, reasons):
    """More pairs, emphasising the excluded points of the proofs: defect-free and all-vacant cells, several
    defect types with equal counts, symmetry-breaking supercells."""
    _run(ctx, nconf=20, npairs=24, maxsites=32)
