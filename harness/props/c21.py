"""
C21 — Jump networks are complete, closed and obstruction-aware.

Tie: (a) translator: the search-box formula (`nmax = [...]`) of Crystal.jumpnetwork is read from the
source with `ast`, classified (|a_i| form / dual-basis form) and emitted as Generated/C21Facts.lean;
OnsagerProofs/C21Tie.lean states what is proved about the form found.  The same statements are
*evaluated live* on every generated crystal to obtain the box the implementation really uses.
(b) correspondence: the exact Lean model (lattice coordinates, rational metric) is run with the
implementation's box and must reproduce the implementation's network class by class; it is run
again with the provably complete dual box, and any difference is a lost jump / lost obstacle.
(c) direct oracles on the implementation's output: completeness against an exact enumeration in
the complete box, no extra/duplicate jumps, closure of every class under the space group and
reversal, geometric obstruction on every member, lattice form.
"""
import ast, os, itertools, math
from fractions import Fraction as Fr
import numpy as np
from props import _latgeom as LG

META = dict(
    id='C21',
    level_text='Kernel-checked theorems (any dimension, any rational positive-definite metric): Cauchy-Schwarz box bound '
               '(box_dual_complete) and the verified box criterion boxOK_complete, completeness/soundness of the box '
               'enumeration, the expansion loop of the source produces duplicate-free classes closed under the group and '
               'reversal that partition the candidates (orbit lemmas for any closed op list), isometry of valid operations, '
               'geometric invariance of the obstruction test, lattice-form round trip; a kernel-checked witness that the '
               '|a_i| box formula found in the source is incomplete and a proof that the dual-basis formula is complete. '
               'Tied to the code by the ast-translated box formula and by differential runs of the exact model against '
               'Crystal.jumpnetwork on generated crystals, plus direct oracles on the implementation output.',
    level_note='Trusted: Lean kernel + standard axioms; ast classification of the box formula; rationalisation of metric, '
               'basis and group operations (checked exactly by the model: every op must preserve the metric and map atoms '
               'onto atoms); harness comparison. The space group itself is taken from the implementation (C18 is the '
               'property about its correctness) and validated op by op; group closure of the op list is checked per crystal. '
               'Floating-point thresholds (__isclose__, np.isclose in the obstruction test) are not modelled: cases whose '
               'outcome hinges on an atom exactly on a boundary of the obstruction region, or on a shell within 1e-6 of the '
               'cutoff, are classified by the model and accepted either way - except atoms whose rational projection falls exactly on an '
               'end point of the representative jump: there the closed segment test of the source is re-evaluated with the source\'s own '
               'float expressions and a kept jump is a violation when that test passes.',
    technique='Lean 4 proof (Cauchy-Schwarz box bound, orbit/partition lemmas, isometry) + ast-translated box formula + '
              'differential exact model vs implementation + direct oracles',
    lean_modules=['OnsagerModel.C21', 'OnsagerProofs.C21Geom', 'OnsagerProofs.C21Orbit', 'OnsagerProofs.C21', 'Generated.C21Facts',
                  'OnsagerProofs.C21Tie'],
    theorems=['Onsager.Geom.cauchy_schwarz', 'Onsager.Geom.coord_sq_le', 'Onsager.Geom.boxOK_complete',
              'Onsager.Geom.boxB_ok', 'Onsager.Geom.boxB_complete', 'Onsager.Geom.mem_boxVecs', 'Onsager.Geom.psdCert_sound',
              'Onsager.C21.mem_expand', 'Onsager.C21.expand_nodup', 'Onsager.C21.expand_closed',
              'Onsager.C21.classes_cover', 'Onsager.C21.classes_disjoint', 'Onsager.C21.classes_flatten_nodup',
              'Onsager.C21.act_rev', 'Onsager.C21.dx_act', 'Onsager.C21.len2_act', 'Onsager.C21.opsGroupCheck_sound',
              'Onsager.C21.box_dual_complete', 'Onsager.C21.candidates_complete', 'Onsager.C21.network_exact',
              'Onsager.C21.each_jump_once', 'Onsager.C21.class_closed_under_G_and_reversal',
              'Onsager.C21.obstructed_complete', 'Onsager.C21.blocks_rev', 'Onsager.C21.blocks_act',
              'Onsager.C21.obstruction_is_geometric', 'Onsager.C21.lattice_roundtrip', 'Onsager.C21.dx_injective',
              'Onsager.C21.C21_model', 'Onsager.C21.C21_dual_box', 'Onsager.C21.boxA_incomplete_witness'],
    tie_theorems=['Onsager.C21.src_form_known', 'Onsager.C21.src_box_verdict', 'Onsager.C21.form1_incomplete',
                  'Onsager.C21.dual_forms_complete'],
    rule='one case = (crystal, mobile species, cutoff, closestdistance); crystals from a zoo (SC, FCC, BCC, HCP, B2, L1_2, '
         'diamond, NaCl, interstitial decorations, 2-D square/triangular/honeycomb) and random rational-metric cells of '
         'every Bravais family incl. obtuse/acute rhombohedral, needle/plate and skewed noreduce=True cells, layered two-species '
         'cells (obstructing atoms exactly in the planes through the end sites of a jump); cutoffs just above or between exact '
         'shell radii; scalar and per-species closestdistance incl. values just below / above the distance of end-plane atoms; '
         'non-trivial = network has at least one class; distinct by (metric, basis, chem, cutoff, closestdistance)',
    trusted=['ast classification of the nmax formula (harness/props/c21.py: extract)',
             'space-group operations are read from Crystal.G and validated exactly by the model'],
    assumptions=['metric, basis and translations are rational with denominators the harness can recover (checked: snapping residual < 1e-9, '
                 'exact symmetry validation in the model)',
                 'cases within 1e-6 (relative) of a shell radius or with an obstructing atom exactly on the boundary of the test region '
                 'are outside the compared domain (float thresholds)'],
)

DRIVER = 'Drive/C21.lean'
EPS = Fr(1, 10000)
FORMS = {1: 'A', 2: 'B0', 3: 'B1', 4: 'B2'}


# ---------------------------------------------------------------- translator
def find_function(tree, qual):
    parts = qual.split('.')
    body = tree.body
    node = None
    for p in parts:
        node = next((n for n in body if isinstance(n, (ast.FunctionDef, ast.ClassDef)) and n.name == p), None)
        if node is None: raise ValueError('no %s in source' % qual)
        body = node.body
    return node


def _is(node, src):
    return ast.unparse(node).replace(' ', '') == src.replace(' ', '')


def classify_nmax(fn):
    """(form, text, prelude-statements) for the `nmax = [...]` statement of a function.
    form: 0 unknown, 1 = int(round(sqrt(r2/metric[i,i])))+1, 2/3/4 = int|round|ceil (sqrt(r2*inv(metric)[i,i]))+1"""
    assigns = []
    target = None
    for st in fn.body:
        if isinstance(st, ast.Assign) and len(st.targets) == 1 and isinstance(st.targets[0], ast.Name):
            assigns.append(st)
            if st.targets[0].id == 'nmax':
                target = st
                break
    if target is None: return 0, '(no nmax assignment found)', []
    text = ast.unparse(target)
    form = 0
    try:
        lc = target.value
        assert isinstance(lc, ast.ListComp) and len(lc.generators) == 1
        ivar = lc.generators[0].target.id
        e = lc.elt
        assert isinstance(e, ast.BinOp) and isinstance(e.op, ast.Add) and isinstance(e.right, ast.Constant) and e.right.value == 1
        c = e.left
        assert isinstance(c, ast.Call) and _is(c.func, 'int') and len(c.args) == 1
        inner = c.args[0]
        mode = 0
        if isinstance(inner, ast.Call) and ast.unparse(inner.func) in ('np.round', 'np.around', 'np.rint', 'round'):
            mode, inner = 1, inner.args[0]
        elif isinstance(inner, ast.Call) and ast.unparse(inner.func) in ('np.ceil', 'math.ceil'):
            mode, inner = 2, inner.args[0]
        elif isinstance(inner, ast.Call) and ast.unparse(inner.func) in ('np.floor', 'math.floor'):
            mode, inner = 0, inner.args[0]
        metric_names = ('self.metric', 'crys.metric')
        def is_inv(node):
            if isinstance(node, ast.Call) and ast.unparse(node.func) in ('np.linalg.inv', 'linalg.inv', 'inv') \
                    and ast.unparse(node.args[0]) in metric_names: return True
            if isinstance(node, ast.Name):
                return any(a.targets[0].id == node.id and is_inv(a.value) for a in assigns[:-1])
            return False
        def diag(node):
            """'metric' / 'inv' / None for X[i,i]"""
            if not (isinstance(node, ast.Subscript) and _is(node.slice, '(%s,%s)' % (ivar, ivar))): return None
            if ast.unparse(node.value) in metric_names: return 'metric'
            if is_inv(node.value): return 'inv'
            return None
        def is_r2(node):
            if _is(node, 'r2') or _is(node, 'cutoff*cutoff') or _is(node, 'cutoff**2'): return True
            return False
        assert isinstance(inner, ast.Call) or isinstance(inner, ast.BinOp)
        if isinstance(inner, ast.Call) and ast.unparse(inner.func) in ('np.sqrt', 'math.sqrt'):
            arg = inner.args[0]
            if isinstance(arg, ast.BinOp) and isinstance(arg.op, ast.Div) and is_r2(arg.left) and diag(arg.right) == 'metric':
                form = 1 if mode == 1 else 0
            elif isinstance(arg, ast.BinOp) and isinstance(arg.op, ast.Mult) and \
                    ((is_r2(arg.left) and diag(arg.right) == 'inv') or (is_r2(arg.right) and diag(arg.left) == 'inv')):
                form = 2 + mode
        elif isinstance(inner, ast.BinOp) and isinstance(inner.op, ast.Mult):
            a, b = inner.left, inner.right
            if _is(b, 'cutoff'): a, b = b, a
            if _is(a, 'cutoff') and isinstance(b, ast.Call) and ast.unparse(b.func) in ('np.sqrt', 'math.sqrt') \
                    and diag(b.args[0]) == 'inv':
                form = 2 + mode
    except (AssertionError, AttributeError, IndexError):
        form = 0
    return form, text, [ast.unparse(a) for a in assigns]


def facts_text(pid, srcfile, qual, form, text):
    return ('/- GENERATED by harness/props/%s.py from %s (%s) on every run. -/\n'
            'namespace Generated.%s\n'
            '/- source statement: `%s` -/\n'
            '/-- 0 = not recognised; 1 = `int(round(sqrt(r2/metric[i,i])))+1` (from |a_i|);\n'
            '    2,3,4 = `int|round|ceil (sqrt(r2*inv(metric)[i,i]))+1` (from the dual basis) -/\n'
            'def srcForm : Nat := %d\n'
            'end Generated.%s\n') % (pid.lower(), srcfile, qual, pid, text.replace('/-', '').replace('-/', ''), form, pid)


def parse_source(path):
    import warnings
    with warnings.catch_warnings():
        warnings.simplefilter('ignore')
        return ast.parse(open(path).read())


def extract(repo):
    fn = find_function(parse_source(os.path.join(repo, 'onsager', 'crystal.py')), 'Crystal.jumpnetwork')
    form, text, _ = classify_nmax(fn)
    return {'C21Facts.lean': facts_text('C21', 'onsager/crystal.py', 'Crystal.jumpnetwork', form, text)}


_SRC = {}


def source_box(relfile, qual):
    """-> (form, function(namespace)->box or None): evaluates the source's own statements up to `nmax = …`"""
    key = (relfile, qual)
    if key not in _SRC:
        import onsager
        path = os.path.join(os.path.dirname(os.path.dirname(os.path.abspath(onsager.__file__))), relfile)
        fn = find_function(parse_source(path), qual)
        form, text, stmts = classify_nmax(fn)
        def ev(ns, stmts=stmts):
            ns = dict(ns); ns.setdefault('np', np); ns.setdefault('itertools', itertools)
            for s in stmts:
                try:
                    exec(s, ns)
                except Exception:
                    pass
            b = ns.get('nmax')
            try:
                return [int(x) for x in b]
            except Exception:
                return None
        _SRC[key] = (form, ev)
    return _SRC[key]


# ---------------------------------------------------------------- exact / float oracles
def jkey(J):
    return '%d:%d:%s' % (J[0], J[1], '.'.join(str(int(x)) for x in J[2]))


def class_str(cl):
    return ','.join(sorted(jkey(J) for J in cl))


def rev(J):
    return (J[1], J[0], tuple(-x for x in J[2]))


def norm_cds(crys, chem, cd):
    """closestdistance argument -> list of (species, mindist float) the source uses"""
    if type(cd) is list:
        return [(c, float(x)) for c, x in enumerate(cd) if c != chem]
    return [(c, float(cd)) for c in range(crys.Nchem) if c != chem]


def obstruction_status(X, chem, jumps, cds_m2, r2):
    """float64 evaluation with margins of the source's test on every jump, with obstacles from the
    complete box: dict J -> 0 free / 1 blocked / 2 boundary; also the lattice vector of a blocking atom"""
    crys = X.crys
    eps = float(EPS)
    out, blockers = {}, {}
    edges = obstruction_status.edges = {}     # J -> atoms (c, a, n, m2) in the planes through the end sites, within the distance
    if not cds_m2:
        return {J: 0 for J in jumps}, {}
    R2 = Fr(r2) + max(m for _, m in cds_m2)
    box = LG.dual_box(X.h, R2)
    nv = np.array(list(itertools.product(*[range(-b, b + 1) for b in box])), dtype=float)
    L = crys.lattice
    for J in jumps:
        i, j, n = J
        ui, uj = np.array(crys.basis[chem][i]), np.array(crys.basis[chem][j])
        v = L @ (np.array(n, dtype=float) + uj - ui)
        v2 = float(v @ v)
        st = 0
        for c, m2 in cds_m2:
            m2 = float(m2)
            for a, ua in enumerate(crys.basis[c]):
                x = (nv + (np.array(ua) - ui)) @ L.T
                p = x @ v
                dd = (x * x).sum(axis=1) * v2 - p * p
                inside = (p > eps * v2) & (p < v2 * (1 - eps))
                close = (np.abs(dd - m2 * v2) <= 1e-9 * v2 * max(1.0, m2)) | (dd <= (m2 - eps * (m2 + 1)) * v2)
                b1 = inside & close
                nb = (p < -eps * v2) | (p > v2 * (1 + eps)) | (dd > (m2 + eps * (m2 + 1)) * v2)
                if b1.any():
                    st = 1
                    k = int(np.argmax(b1)); blockers[J] = (c, a, tuple(int(t) for t in nv[k]))
                    break
                if not nb.all(): st = 2
                onplane = ((np.abs(p) <= eps * v2) | (np.abs(p - v2) <= eps * v2)) & close
                for k in np.nonzero(onplane)[0][:8]:
                    edges.setdefault(J, []).append((c, a, tuple(int(t) for t in nv[k]), m2))
            if st == 1: break
        out[J] = st
    return out, blockers


def run_impl(X, chem, cutoff, cd):
    """call the implementation; -> (classes as lists of (i,j,n) or error string, raw network)"""
    crys = X.crys
    jn = crys.jumpnetwork(chem, cutoff, cd)
    classes = []
    bad = []
    for cl in jn:
        out = []
        for (i, j), dx in cl:
            n = X.jump_to_lattice(chem, i, j, dx)
            if n is None: bad.append(((int(i), int(j)), [float(t) for t in dx]))
            else: out.append((int(i), int(j), n))
        classes.append(out)
    return classes, bad, jn


def oracle(ctx, X, case, classes, bad, jn, box):
    """direct statement of C21 on the implementation's output; returns list of violation sigs"""
    chem, cutoff, cd, cds_m2 = case['chem'], case['cutoff'], case['cd'], case['cds_m2']
    crys = X.crys
    r2 = Fr(cutoff * cutoff)
    sigs = []
    def viol(sig, what, **extra):
        sigs.append(sig)
        rp = dict(crystal=X.name, construct=getattr(crys, '_verif_args', None), lattice=crys.lattice.tolist(),
                  basis=[[list(map(float, u)) for u in a] for a in crys.basis], chem=chem, cutoff=cutoff,
                  closestdistance=cd, source_box=box, call='crys.jumpnetwork(chem, cutoff, closestdistance)')
        rp.update(extra)
        ctx.violation(sig, what, rp)
    if bad:
        viol('not-a-jump', 'network entry whose dx is not a vector between sites i and j', entries=bad[:5])
        return sigs, Fr(1), {}
    allj = [J for cl in classes for J in cl]
    seen = set()
    dup = [J for J in allj if (J in seen or seen.add(J))]
    if dup:
        viol('duplicate-jump', 'jump listed more than once', jumps=[jkey(J) for J in dup[:5]])
    have = set(allj)
    exact = X.all_jumps(chem, r2)          # complete exact enumeration
    margin = min([abs(l2 - r2) / r2 for l2 in exact.values()] + [Fr(1)])
    # jumps slightly beyond the cutoff would show up as too-long
    status, blockers = obstruction_status(X, chem, sorted(set(exact) | have), cds_m2, r2)
    missing = [J for J in exact if J not in have and status[J] == 0]
    if missing:
        outside = [J for J in missing if box is not None and any(abs(J[2][k]) > box[k] for k in range(X.d))]
        sig = 'missing-jump:outside-search-box' if outside else 'missing-jump:inside-search-box'
        J = (outside or missing)[0]
        viol(sig, '%d of %d unobstructed jumps below the cutoff are absent (e.g. %s, |dx|^2=%s < r2=%.6g)'
             % (len(missing), sum(1 for K in exact if status[K] == 0), jkey(J), LG.rs(exact[J]), float(r2)),
             missing=[jkey(K) for K in missing[:12]], found=len(have), expected=sum(1 for K in exact if status[K] == 0))
    extra = [J for J in have if J not in exact]
    if extra:
        J = extra[0]
        viol('extra-jump:not-below-cutoff', 'jump %s with |dx|^2=%s not in (0, r2=%.6g)' % (jkey(J), LG.rs(X.len2(chem, *J)), float(r2)),
             jumps=[jkey(K) for K in extra[:12]])
    kept_blocked = [J for J in have if J in exact and status[J] == 1]
    if kept_blocked:
        J = kept_blocked[0]
        c, a, n = blockers[J]
        # is the blocking atom outside the box the source scans (relative to cell 0)?
        outside = box is not None and any(abs(n[k]) > box[k] for k in range(X.d))
        only_outside = outside
        viol('obstructed-kept:' + ('obstacle-outside-search-box' if only_outside else 'obstacle-inside-search-box'),
             'jump %s is kept although atom (%d,%d)+%s lies within closestdistance of its path' % (jkey(J), c, a, list(n)),
             jumps=[jkey(K) for K in kept_blocked[:12]])
    # atoms exactly in the plane through an end site of the representative (projection 0 or dx^2: the closed segment test
    # of the property includes them).  Claimed only when the rational projection is exactly on the end point, the atom is
    # inside the box the source scans, and the source's own float expressions put it on the closed segment within the distance.
    edges = getattr(obstruction_status, 'edges', {})
    for k, cl in enumerate(classes):
        if not cl or cl[0] not in exact or status.get(cl[0]) != 2: continue
        J0 = cl[0]
        dxf = np.array(jn[k][0][1], dtype=float)
        dx2f = np.dot(dxf, dxf)
        vex = X.dx(chem, *J0)
        v2ex = LG.qform(X.g, vex, vex)
        for (c, a, n, m2f) in edges.get(J0, []):
            if box is not None and any(abs(n[t]) > box[t] for t in range(X.d)): continue
            xex = [Fr(n[t]) + X.basis[c][a][t] - X.basis[chem][J0[0]][t] for t in range(X.d)]
            pex = LG.qform(X.g, xex, vex)
            if pex != 0 and pex != v2ex: continue
            xf = crys.unit2cart(np.array(n), crys.basis[c][a] - crys.basis[chem][J0[0]])
            pf = np.dot(xf, dxf)
            if not (0 <= pf <= dx2f): continue
            d2f = (np.dot(xf, xf) * dx2f - pf * pf) / dx2f
            if np.isclose(d2f, m2f) or d2f < m2f:
                viol('obstructed-kept:obstacle-in-end-plane',
                     'jump %s is kept although atom (%d,%d)+%s projects exactly onto %s of the jump at distance^2 %.6g <= closestdistance^2 %.6g'
                     % (jkey(J0), c, a, list(n), 'the start' if pex == 0 else 'the end', float(d2f), float(m2f)),
                     jumps=[jkey(K) for K in cl[:6]])
                break
        else: continue
        break
    # closure of every class under the group and reversal
    def closure_failure():
        for cl in classes:
            S = set(cl)
            for J in cl:
                if rev(J) not in S:
                    return ('class-not-closed:reversal', 'class of %s lacks the reverse jump' % jkey(J), dict(cls=class_str(cl)))
            for gi in range(len(X.ops)):
                for J in cl:
                    K = X.g_jump(gi, chem, J)
                    if K not in S:
                        return ('class-not-closed:group', 'class of %s lacks its image %s under group op %d' % (jkey(J), jkey(K), gi),
                                dict(cls=class_str(cl), rot=X.ops[gi][0], trans=[LG.rs(t) for t in X.ops[gi][1]]))
        return None
    cf = closure_failure()
    if cf: viol(cf[0], cf[1], **cf[2])
    # lattice form
    jl = crys.jumpnetwork2lattice(chem, jn)
    if len(jl) != len(jn) or any(len(a) != len(b) for a, b in zip(jl, jn)):
        viol('lattice-form:shape', 'jumpnetwork2lattice changes the shape of the network')
    else:
        for cl, cll in zip(classes, jl):
            for J, ((i, j), R) in zip(cl, cll):
                if (int(i), int(j), tuple(int(t) for t in R)) != J:
                    viol('lattice-form:differs', 'lattice form of %s is %s' % (jkey(J), ((int(i), int(j)), [int(t) for t in R])))
                    break
            else: continue
            break
    return sigs, margin, status


# ---------------------------------------------------------------- case generation
def choose_cutoffs(rng, X, chem, n):
    """cutoffs just above / between exact shell radii of the mobile sublattice"""
    d = X.d
    # smallest non-zero |dx|^2 in a small box, then all shells up to ~3.2 x that
    N = len(X.basis[chem])
    best = None
    for i in range(N):
        for j in range(N):
            for nn in itertools.product(range(-2, 3), repeat=d):
                l2 = X.len2(chem, i, j, nn)
                if l2 > 0 and (best is None or l2 < best): best = l2
    sh = X.shells(chem, best * Fr(16, 5))
    out = []
    for _ in range(n):
        s = rng.randrange(min(len(sh), 3 if d == 3 else 4))
        lo = sh[s]
        hi = sh[s + 1] if s + 1 < len(sh) else lo * Fr(5, 4)
        style = rng.random()
        if style < 0.5: c2 = float(lo) * 1.02           # just above a shell (1% in distance)
        elif style < 0.8: c2 = float(lo + hi) / 2
        else: c2 = float(lo) * 1.0002
        if not (float(lo) * (1 + 1e-5) < c2 < float(hi) * (1 - 1e-5)): c2 = float(lo + hi) / 2
        out.append(math.sqrt(c2))
    return out


def end_plane_distances(X, chem, r2):
    """exact squared distances of atoms of other species lying exactly in the planes through the end sites of a jump
    (perpendicular to it), for the jumps below the cutoff: {species: sorted distances^2}"""
    out = {}
    jumps = list(X.all_jumps(chem, r2))[:24]
    for J in jumps:
        v = X.dx(chem, *J); v2 = LG.qform(X.g, v, v)
        for c, atoms in enumerate(X.basis):
            if c == chem: continue
            for a, ua in enumerate(atoms):
                for n in itertools.product(range(-1, 2), repeat=X.d):
                    x = [Fr(n[t]) + ua[t] - X.basis[chem][J[0]][t] for t in range(X.d)]
                    p = LG.qform(X.g, x, v)
                    if p == 0: out.setdefault(c, set()).add(LG.qform(X.g, x, x))
                    elif p == v2:
                        y = [a_ - b_ for a_, b_ in zip(x, v)]
                        out.setdefault(c, set()).add(LG.qform(X.g, y, y))
    return {c: sorted(d for d in ds if d > 0) for c, ds in out.items()}


def choose_cd(rng, X, chem, cutoff, malformed=False):
    """closestdistance argument and the exact m2 per species"""
    crys = X.crys
    others = [c for c in range(crys.Nchem) if c != chem]
    if others and rng.random() < 0.4:
        # obstruction distance just below / above the distance of atoms sitting exactly in an end plane of a jump
        ep = end_plane_distances(X, chem, Fr(cutoff * cutoff))
        ep = {c: d for c, d in ep.items() if d}
        if ep:
            c0 = rng.choice(sorted(ep))
            dist = math.sqrt(float(rng.choice(ep[c0][:3]))) * rng.choice([0.8, 1.2, 1.2, 1.5])
            cd = dist if rng.random() < 0.5 else [dist if c == c0 else 0.0 for c in range(crys.Nchem)]
            cds = norm_cds(crys, chem, cd)
            return cd, [(c, Fr(x * x)) for c, x in cds]
    r = rng.random()
    if not others or r < 0.15:
        cd = 0
    else:
        # distances of the other species from jump paths: pick values around them
        def val():
            t = rng.random()
            if t < 0.2: return 0.0
            if t < 0.85: return rng.choice([0.2, 0.35, 0.5, 0.6, 0.75, 0.9]) * cutoff
            return rng.choice([1.1, 1.5]) * cutoff
        if r < 0.6: cd = val()
        else: cd = [val() if c != chem else rng.choice([0.0, 5.0]) for c in range(crys.Nchem)]
    cds = norm_cds(crys, chem, cd)
    cds_m2 = [(c, Fr(x * x)) for c, x in cds]
    return cd, cds_m2


CORPUS = {   # regression inputs that run in every tier: crystal name -> [(chem, cutoff, closestdistance)]
    'rhombohedral cos(alpha)=-0.485 a=1 (default constructed)': [(0, 1.01, 0)],
    'rhombohedral cos(alpha)=0.9 a=1 (default constructed)': [(0, 1.01, 0)],
    'FCC': [(0, 0.75, 0)], 'BCC': [(0, 0.9, 0)], 'HCP': [(0, 1.01, 0)],
    'FCC+oct': [(1, 0.75, [0.45, 0.0]), (1, 0.75, 0.3)], 'B2': [(0, 1.01, 0.45), (0, 1.01, 0.55)],
    'honeycomb': [(0, 0.6, 0)], 'square': [(0, 1.5, 0)],
    'tetragonal-stack': [(0, 1.2, 0.9), (0, 1.2, [0.0, 0.9]), (0, 1.2, 0.6)], 'rect-stack-2D': [(0, 1.2, 0.9), (0, 1.2, 0.6)],
}


def cases_for(rng, X, ncut):
    out = []
    crys = X.crys
    for chem, cutoff, cd in CORPUS.get(X.name, []):
        out.append(dict(chem=chem, cutoff=cutoff, cd=cd, cds_m2=[(c, Fr(x * x)) for c, x in norm_cds(crys, chem, cd)]))
    chems = list(range(crys.Nchem))
    rng.shuffle(chems)
    for chem in chems[:2]:
        for cutoff in choose_cutoffs(rng, X, chem, ncut):
            cd, cds_m2 = choose_cd(rng, X, chem, cutoff)
            out.append(dict(chem=chem, cutoff=cutoff, cd=cd, cds_m2=cds_m2))
    return out


def crystals(ctx, nrand):
    rng = ctx.rng
    out = []
    for name, th in LG.zoo():
        try:
            out.append(LG.XCrystal(th(), name))
        except LG.SnapFail as e:
            ctx.count('snap-fail')
    # layered two-species cells: species 1 directly above species 0 along an axis perpendicular to the layer, so that
    # obstructing atoms sit exactly in the planes through the end sites of in-layer jumps
    for t in range(max(4, nrand // 6)):
        try:
            kind = rng.choice(['tetragonal', 'orthorhombic', 'hexagonal', 'cubic', 'rect', 'square'])
            g = LG.rand_metric(rng, kind)
            d = len(g)
            sp = [Fr(0), Fr(1, 2), Fr(1, 3), Fr(2, 3), Fr(1, 4)]
            inplane = []
            for _ in range(rng.randint(1, 2)):
                u = tuple(rng.choice(sp) for _ in range(d - 1))
                if u not in inplane: inplane.append(u)
            z = rng.choice([Fr(1, 2), Fr(1, 3), Fr(1, 4)])
            basis = [[u + (Fr(0),) for u in inplane], [u + (z,) for u in inplane]]
            crys = LG.make_crystal(g, basis)
            out.append(LG.XCrystal(crys, 'stacked-%s g=%s basis=%s' % (kind, LG.rmat(g), '#'.join(';'.join(LG.rlist(u) for u in a) for a in basis))))
            ctx.count('crystals:stacked-two-species')
        except LG.SnapFail:
            ctx.count('snap-fail')
        except Exception as e:
            ctx.count('crystal-construction-error:' + type(e).__name__)
    plan = ['rhomb-obtuse', 'rhomb-acute', 'hexagonal', 'monoclinic', 'triclinic', 'needle', 'fcc', 'bcc', 'cubic',
            'tetragonal', 'orthorhombic']
    for t in range(nrand):
        try:
            if t % 4 == 3:
                name, crys = LG.random_crystal(rng, dim=2)
            else:
                name, crys = LG.random_crystal(rng, dim=3, kinds=[plan[(t // 2) % len(plan)]] if t % 2 == 0 else None)
            out.append(LG.XCrystal(crys, name))
        except LG.SnapFail:
            ctx.count('snap-fail')
        except Exception as e:
            ctx.count('crystal-construction-error:' + type(e).__name__)
    return out


def cds_text(cds_m2):
    return ';'.join('%d:%s' % (c, LG.rs(m)) for c, m in cds_m2) if cds_m2 else '-'


def parse_classes(body):
    """model answer body -> list of (exact verdict, robust verdict, class string)"""
    if body.strip() == '-': return []
    out = []
    for part in body.strip().split(';'):
        tag, cls = part.split('=', 1)
        out.append((int(tag[0]), int(tag[1]), cls))
    return out


def run_cases(ctx, Xs, ncut, use_lean=True):
    form, boxfn = source_box('onsager/crystal.py', 'Crystal.jumpnetwork')
    rng = ctx.rng
    lines, book = [], []
    for X in Xs:
        if ctx.budget_left() < 40 and ctx.evaluations >= 30: ctx.note('budget: stopped generating cases early'); break
        if not X.ops_exact():
            ctx.count('crystal-skipped:group-op-not-exact-after-snapping'); continue
        lines.append(X.line()); book.append(('crys', X, None))
        for case in cases_for(rng, X, ncut):
            chem, cutoff, cd = case['chem'], case['cutoff'], case['cd']
            box = boxfn(dict(self=X.crys, crys=X.crys, cutoff=cutoff, chem=chem, closestdistance=cd))
            try:
                classes, bad, jn = run_impl(X, chem, cutoff, cd)
            except Exception as e:
                ctx.violation('exception:' + type(e).__name__, 'jumpnetwork raised %r' % (e,),
                              dict(crystal=X.name, chem=chem, cutoff=cutoff, closestdistance=cd))
                continue
            sigs, margin, status = oracle(ctx, X, case, classes, bad, jn, box)
            key = (X.line(), chem, cutoff, repr(cd))
            ctx.case(key, nontrivial=len(classes) > 0,
                     sample=dict(crystal=X.name, chem=chem, cutoff=cutoff, closestdistance=cd, classes=len(classes),
                                 jumps=sum(len(c) for c in classes), source_box=box))
            ctx.count('dim:%d' % X.d); ctx.count('nclasses:%s' % (len(classes) if len(classes) < 4 else '4+'))
            ctx.count('cd:' + ('list' if type(cd) is list else ('zero' if cd == 0 else 'scalar')))
            if any(s == 1 for s in status.values()): ctx.count('has-obstructed-jumps')
            if any(s == 2 for s in status.values()): ctx.count('has-boundary-obstruction')
            if sigs: ctx.count('oracle-violation-cases')
            r2 = Fr(cutoff * cutoff)
            if use_lean:
                bt = ','.join(map(str, box)) if box is not None else 'dual'
                lines.append('jn %d %s %s %s %s' % (chem, LG.rs(r2), bt, cds_text(case['cds_m2']), LG.rs(EPS)))
                book.append(('impl', X, dict(case=case, classes=classes, sigs=sigs, box=box, margin=margin)))
                lines.append('jn %d %s dual %s %s' % (chem, LG.rs(r2), cds_text(case['cds_m2']), LG.rs(EPS)))
                book.append(('dual', X, None))
                if form in FORMS and box is not None:
                    lines.append('box %s %s' % (LG.rs(r2), FORMS[form]))
                    book.append(('form', X, dict(box=box, r2=r2, cutoff=cutoff)))
    if not use_lean: return
    ans = LG.lean_run(ctx, DRIVER, ['OnsagerModel.C21', 'OnsagerModel.Basic'], lines)
    last_impl = None
    for a, (kind, X, info) in zip(ans, book):
        if kind == 'crys':
            if a == 'ok valid=1 group=0':
                # Crystal.G is not closed under composition/inverse for this cell (a C18 matter): the class
                # theorems do not apply; the model still mirrors the algorithm and the direct oracles still run
                ctx.count('crystal:G-not-a-group (theorem hypotheses not met)')
                ctx.note('Crystal.G not closed as a group for %s (%d ops)' % (X.name[:120], len(X.ops)))
            elif a != 'ok valid=1 group=1':
                ctx.disagree('model rejects the crystal %s (exact symmetry validation / group closure of Crystal.G): %s' % (X.name, a),
                             dict(crystal=X.name, line=X.line()[:2000], answer=a))
            else: ctx.count('crystals-validated-exactly')
            continue
        if kind == 'form':
            # the classified formula, evaluated exactly by the model, is the box the source computes
            mb = [int(t) for t in a.split(',')] if a[0].isdigit() else None
            if mb != info['box']:
                # float rounding at an exact half / perfect square may differ legitimately
                ctx.count('form-box-differs')
                q = [float(info['r2'] / X.g[k][k]) ** .5 if form == 1 else float(info['r2'] * X.h[k][k]) ** .5 for k in range(X.d)]
                # float rounding exactly at a rounding boundary may differ legitimately
                mult = 2.0 if form in (1, 3) else 1.0
                if all(abs((x * mult) - round(x * mult)) > 1e-9 for x in q):
                    ctx.disagree('translated box formula (form %d) gives %s but the source computes %s' % (form, mb, info['box']),
                                 dict(crystal=X.name, cutoff=info['cutoff'], model_box=mb, source_box=info['box']))
            else: ctx.count('form-box-agrees')
            continue
        if not a.startswith('ok '):
            ctx.disagree('model answer %r for %s' % (a[:100], X.name), dict(crystal=X.name)); continue
        head, body = a.split(' | ', 1)
        _, boxs, okJ, okO, marg = head.split()
        cls = parse_classes(body)
        if kind == 'impl':
            last_impl = (cls, info, okJ, okO)
            if int(marg) < 1000:     # a shell within 1e-6 of the cutoff: float-dependent
                ctx.count('ill-conditioned-cutoff'); last_impl = None; continue
            py = set(class_str(c) for c in info['classes'])
            must = set(c for e, r, c in cls if r == 0)
            may = set(c for e, r, c in cls if r == 2)
            mustnot = set(c for e, r, c in cls if r == 1)
            if any(e != r for e, r, c in cls if r != 2):
                ctx.disagree('model: exact and robust obstruction verdicts differ', dict(crystal=X.name))
            ctx.count('boxOK-jumps:' + okJ); ctx.count('boxOK-obstacles:' + okO)
            if not (must <= py and py <= (must | may)):
                case = info['case']
                ctx.disagree('model (run with the source\'s box %s) and implementation differ on %s chem=%d cutoff=%r cd=%r: '
                             'model-only %s impl-only %s' % (info['box'], X.name, case['chem'], case['cutoff'], case['cd'],
                                                             sorted(must - py)[:3], sorted(py - must - may)[:3]),
                             dict(crystal=X.name, line=X.line()[:3000], chem=case['chem'], cutoff=case['cutoff'], cd=case['cd'],
                                  model_only=sorted(must - py)[:5], impl_only=sorted(py - must - may)[:5]),
                             sig=(info['sigs'][0] if info['sigs'] else None))
        elif kind == 'dual' and last_impl is not None:
            icls, info, okJ, okO = last_impl
            last_impl = None
            a_set = set((r, c) for e, r, c in icls)
            d_set = set((r, c) for e, r, c in cls)
            lost = a_set != d_set
            if okJ == '1' and okO == '1' and lost:
                ctx.disagree('model: box passes boxOK but the complete box gives a different network (contradicts boxOK_complete)',
                             dict(crystal=X.name))
            if lost: ctx.count('source-box-incomplete-cases')
            explained = [s for s in info['sigs'] if s.startswith('missing-jump:outside') or s.startswith('obstructed-kept:obstacle-outside')]
            # boundary classes can hide a difference; only robust differences must be reflected by the oracle
            robust_lost = set(c for r, c in d_set if r == 0) - set(c for r, c in a_set) or \
                          (set(c for r, c in a_set if r == 0) - set(c for r, c in d_set if r != 1))
            if robust_lost and not explained:
                ctx.disagree('model: the source\'s box %s loses jumps/obstacles on %s but the direct oracle saw no violation'
                             % (info['box'], X.name), dict(crystal=X.name, case=repr(info['case'])))
            if explained and not lost:
                ctx.disagree('direct oracle reports a loss outside the box but the model networks agree', dict(crystal=X.name))
            if lost and explained:
                # the disagreement with the *complete* model is explained by the finding
                ctx.disagree('implementation network differs from the complete enumeration on %s (box %s)' % (X.name, info['box']),
                             dict(crystal=X.name, case=repr(info['case'])), sig=explained[0])


def run(ctx):
    Xs = crystals(ctx, 36 if ctx.quick else 400)
    ctx.count('crystals', len(Xs))
    run_cases(ctx, Xs, 1 if ctx.quick else 2)


def search(ctx, reasons):
    """failing-input search with the direct oracles only: the regimes where a search box computed
    from |a_i| is too small (obtuse/acute rhombohedral, sheared cells, noreduce=True)"""
    rng = ctx.rng
    Xs = []
    for t in range(60 if ctx.quick else 400):
        if ctx.budget_left() < 20: break
        try:
            name, crys = LG.random_crystal(rng, dim=3 if t % 5 else 2,
                                           kinds=['rhomb-obtuse', 'rhomb-acute', 'triclinic', 'monoclinic'] if t % 5 else None,
                                           skew=(t % 3 == 0))
            Xs.append(LG.XCrystal(crys, name))
        except Exception:
            pass
    run_cases(ctx, Xs, 2, use_lean=False)
