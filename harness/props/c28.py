"""
C28 — Supercell occupancy bookkeeping over any edit history.

Tie: (a) translator: the species guard of Supercell.setocc is read from the source with `ast` and
emitted as Generated/C28Facts.lean; OnsagerProofs/C28Tie.lean proves it equals the specified range.
(b) correspondence: bounded-exhaustive and random op sequences run on real Supercell objects and on
the Lean model (Drive/C28.lean); occ, chemorder, __sane__() and the error kind are compared after
every op.  (c) direct oracles on the implementation (used for the failing-input search).
"""
import ast, os, itertools, copy
import numpy as np

META = dict(
    id='C28',
    level_text='Kernel-checked invariant theorems for the occ/chemorder state machine (any cell size, species count and '
               'history), for the WHOLE op language: setocc/fill/POSCAR_occ, group operations carrying a site '
               'permutation (imul/mul: every value lands at its image), reorder (a mapping accepted by the length guard '
               'and __sane__ is proved to be a genuine permutation of every species list), copy, and the POSCAR round '
               'trip (reproduces occupation and presentation order exactly); run_inv: every cell of every store reachable '
               'by any op list stays consistent, hence passes the source\'s __sane__ (reachable_sane). The setocc species '
               'guard is translated from the source on every run and the whole op language, including reorder with too '
               'few / too many maps, is run differentially against real Supercell objects. reorderZip_truncates proves '
               'that without the length guard (source before 69f613b, finding F41) a consistent cell can become '
               'inconsistent while still passing __sane__.',
    level_note='Trusted: Lean kernel + standard axioms; the ast translator of the guard; the harness. Modelled not verified: '
               'numpy indexing, Supercell.index position lookup and float parsing in POSCAR_occ.',
    technique='Lean 4 invariant proof by induction over the op language + ast-translated guard obligation + differential op sequences',
    lean_modules=['OnsagerModel.C28', 'OnsagerProofs.C28', 'OnsagerProofs.C28More', 'Generated.C28Facts',
                  'OnsagerProofs.C28Tie'],
    theorems=['Onsager.C28.empty_inv', 'Onsager.C28.setocc_inv', 'Onsager.C28.setocc_ok_of_declared',
              'Onsager.C28.setocc_rejects', 'Onsager.C28.setoccMany_inv', 'Onsager.C28.fill_inv',
              'Onsager.C28.poscarOcc_inv',
              'Onsager.C28.imul_occ', 'Onsager.C28.imul_chemorder', 'Onsager.C28.imul_inv',
              'Onsager.C28.inv_sane', 'Onsager.C28.sane_inv', 'Onsager.C28.inv_iff_sane',
              'Onsager.C28.reorder_perm', 'Onsager.C28.reorder_inv', 'Onsager.C28.reorder_rejects',
              'Onsager.C28.reorder_rejects_length', 'Onsager.C28.reorderZip_perm', 'Onsager.C28.reorderZip_truncates',
              'Onsager.C28.setoccMany_vacant', 'Onsager.C28.poscar_roundtrip',
              'Onsager.C28.applyOp_inv', 'Onsager.C28.run_inv', 'Onsager.C28.reachable_sane'],
    tie_theorems=['Onsager.C28.src_guard_is_spec', 'Onsager.C28.src_setocc_eq_spec'],
    rule='op sequences on real Supercell objects (bounded-exhaustive over setocc with species -2..Nchem+1 on a '
         '2-site cell, then random sequences of setocc/setitem/fillperiodic/imul/mul/reorder/copy/POSCAR on '
         'several crystals, plus directed reorder sessions with fewer / more maps than chemistries followed by placing '
         'every species); a case is one sequence; non-trivial = contains at least one state-changing op; '
         'distinct by the op text',
    trusted=['Python ast extraction of the setocc guard (harness/props/c28.py: extract)',
             'float parsing in POSCAR_occ and position lookup Supercell.index are exercised, not modelled'],
    assumptions=['site indices passed to the API are in range (negative numpy indices are not generated)',
                 'POSCAR round trip assumes site positions are distinct at the printed precision'],
)

DRIVER = 'Drive/C28.lean'


# ---------------------------------------------------------------- translator
def _expr(node):
    """Translate an int expression over self.Nchem / self.crys.Nchem into Lean source."""
    if isinstance(node, ast.Constant) and isinstance(node.value, int):
        return '(%d)' % node.value
    if isinstance(node, ast.UnaryOp) and isinstance(node.op, ast.USub):
        return '(-%s)' % _expr(node.operand)
    if isinstance(node, ast.BinOp) and isinstance(node.op, (ast.Add, ast.Sub)):
        return '(%s %s %s)' % (_expr(node.left), '+' if isinstance(node.op, ast.Add) else '-', _expr(node.right))
    src = ast.unparse(node)
    if src == 'self.Nchem': return 'nchem'
    if src == 'self.crys.Nchem': return 'crysNchem'
    raise ValueError('untranslatable expression ' + src)


def extract(repo):
    src = open(os.path.join(repo, 'onsager', 'supercell.py')).read()
    tree = ast.parse(src)
    fn = next(n for cls in ast.walk(tree) if isinstance(cls, ast.ClassDef) and cls.name == 'Supercell'
              for n in cls.body if isinstance(n, ast.FunctionDef) and n.name == 'setocc')
    lo = hi = None
    guard_src, parsed = '', False
    try:
        first = next(st for st in fn.body if isinstance(st, ast.If))
        guard_src = ast.unparse(first.test)
        if not (len(first.body) == 1 and isinstance(first.body[0], ast.Raise)):
            raise ValueError('first if is not a raise guard')
        tests = first.test.values if isinstance(first.test, ast.BoolOp) and isinstance(first.test.op, ast.Or) \
            else [first.test]
        for t in tests:
            if not (isinstance(t, ast.Compare) and len(t.ops) == 1 and ast.unparse(t.left) == fn.args.args[2].arg):
                raise ValueError('unrecognised test ' + ast.unparse(t))
            op, rhs = t.ops[0], _expr(t.comparators[0])
            if isinstance(op, ast.Lt): lo = rhs
            elif isinstance(op, ast.LtE): lo = '(%s + 1)' % rhs
            elif isinstance(op, ast.Gt): hi = rhs
            elif isinstance(op, ast.GtE): hi = '(%s - 1)' % rhs
            else: raise ValueError('unrecognised operator')
        parsed = lo is not None and hi is not None
    except (StopIteration, ValueError, IndexError) as e:
        guard_src += '  [not parsed: %s]' % e
    if not parsed: lo, hi = '0', '0'
    txt = ('/- GENERATED by harness/props/c28.py from onsager/supercell.py (Supercell.setocc) on every run. -/\n'
           'namespace Generated.C28\n'
           '/-- source guard: `%s` -/\n'
           'def parsed : Bool := %s\n'
           'def srcLo (nchem crysNchem : Int) : Int := %s\n'
           'def srcHi (nchem crysNchem : Int) : Int := %s\n'
           'end Generated.C28\n') % (guard_src.replace('/-', '').replace('-/', ''),
                                     'true' if parsed else 'false', lo, hi)
    return {'C28Facts.lean': txt}


# ---------------------------------------------------------------- implementation adapter
def _configs():
    from onsager import crystal
    a = 1.0
    sc = crystal.Crystal(a * np.eye(3), [np.zeros(3)], chemistry=['A'])
    b2 = crystal.Crystal(a * np.eye(3), [[np.zeros(3)], [np.array([.5, .5, .5])]], chemistry=['A', 'B'])
    fcc = crystal.Crystal.FCC(a, chemistry='Ni')
    fcci = fcc.addbasis(fcc.Wyckoffpos(np.array([.5, .5, .5])), chemistry=['O'])
    hcp = crystal.Crystal.HCP(a, chemistry='Ti')
    d2 = np.diag([2, 1, 1]); d221 = np.diag([2, 2, 1]); sk = np.array([[1, 1, 0], [-1, 1, 0], [0, 0, 1]])
    return [
        ('sc-2', sc, d2, (), [0, 1, 2]),
        ('sc-sk', sc, sk, (), [0, 2]),
        ('b2-2', b2, d2, (), [0, 1]),
        ('b2-221', b2, d221, (), [0, 2]),
        ('fccO-2', fcci, d2, (1,), [0, 1]),
        ('fccO-sk', fcci, sk, (1,), [0, 2]),
        ('hcp-2', hcp, d2, (), [0, 1]),
    ]


def _err(e):
    if isinstance(e, IndexError): return 'index-error'
    if isinstance(e, ValueError): return 'value-error'
    return 'other:' + type(e).__name__


def _show_ll(ll):
    return '-' if len(ll) == 0 else ';'.join((','.join(str(int(x)) for x in l) if len(l) else '_') for l in ll)


def _show_l(l):
    return '-' if len(l) == 0 else ','.join(str(int(x)) for x in l)


def _show_cell(sup):
    return '%s %s %d' % (_show_l(sup.occ), _show_ll(sup.chemorder), 1 if sup.__sane__() else 0)


_BASES = {}


class Impl:
    def __init__(self, crys, superlatt, interstitial, nsolute, nslots):
        from onsager import supercell
        key = (id(crys), superlatt.tobytes(), interstitial, nsolute)
        if key not in _BASES:
            _BASES[key] = supercell.Supercell(crys, superlatt, interstitial=interstitial, Nsolute=nsolute)
        base = _BASES[key]   # never mutated: every slot is a fresh copy of the empty cell
        self.slots = [base.copy() for _ in range(nslots)]
        self.G = sorted(base.G, key=lambda g: (g.rot.tolist(), g.indexmap[0]))
        self.nsites, self.nchem = base.N * base.size, base.Nchem

    def show(self):
        return ' | '.join(_show_cell(s) for s in self.slots)

    def apply(self, op):
        """op = tuple; returns status string; mutates slots like the user would."""
        try:
            k = op[0]
            if k == 'setocc':
                _, s, i, c, how = op
                sup = self.slots[s]
                if how == 0: sup.setocc(i, c)
                elif how == 1: sup[i] = c
                else: sup[sup.pos[i].copy()] = c
            elif k == 'fill':
                _, s, ci, wy = op
                self.slots[s].fillperiodic(ci, Wyckoff=wy)
            elif k == 'imul':
                _, s, g = op
                self.slots[s] *= self.G[g]
            elif k == 'mul':
                _, a, b, g, left = op
                self.slots[b] = (self.G[g] * self.slots[a]) if left else (self.slots[a] * self.G[g])
            elif k == 'reorder':
                _, s, mp = op
                self.slots[s].reorder(mp)
            elif k == 'copy':
                _, a, b = op
                self.slots[b] = self.slots[a].copy()
            elif k == 'poscar':
                _, a, b = op
                self.slots[b].POSCAR_occ(self.slots[a].POSCAR())
            return 'ok'
        except Exception as e:
            return _err(e)

    def line(self, op):
        """The model-protocol line for op (computed BEFORE applying it)."""
        k = op[0]
        if k == 'setocc': return 'setocc %d %d %d' % (op[1], op[2], op[3])
        if k == 'fill':
            sup = self.slots[op[1]]
            ci, wy = op[2], op[3]
            ind = sup.indexatom[ci]
            indlist = next((nset for nset in sup.Wyckofflist if ind in nset), None) if wy else (ind,)
            idxs = [n * sup.N + i for n in range(sup.size) for i in indlist]
            return 'fill %d %d %s' % (op[1], ci[0], _show_l(idxs))
        if k == 'imul': return 'imul %d %s' % (op[1], _show_l(self.G[op[2]].indexmap[0]))
        if k == 'mul': return 'mul %d %d %s' % (op[1], op[2], _show_l(self.G[op[3]].indexmap[0]))
        if k == 'reorder': return 'reorder %d %s' % (op[1], _show_ll(op[2]))
        if k == 'copy': return 'copy %d %d' % (op[1], op[2])
        if k == 'poscar': return 'poscar %d %d' % (op[1], op[2])
        raise ValueError(op)


def _rand_op(rng, im, malformed):
    ns, n, nchem = len(im.slots), im.nsites, im.nchem
    r = rng.random()
    s = rng.randrange(ns)
    if r < 0.40:
        c = rng.randint(-3, nchem + 1) if malformed else rng.randint(-1, nchem - 1)
        return ('setocc', s, rng.randrange(n), c, rng.randrange(3))
    if r < 0.50:
        sup = im.slots[s]
        return ('fill', s, rng.choice(sup.atomindices), rng.random() < 0.6)
    if r < 0.62: return ('imul', s, rng.randrange(len(im.G)))
    if r < 0.70: return ('mul', s, rng.randrange(ns), rng.randrange(len(im.G)), rng.random() < 0.5)
    if r < 0.82:
        sup = im.slots[s]
        mp = []
        for cl in sup.chemorder:
            p = list(range(len(cl))); rng.shuffle(p)
            if malformed and p and rng.random() < 0.3:
                p[rng.randrange(len(p))] = rng.randrange(len(p) + 1)
            mp.append(p)
        if malformed and rng.random() < 0.35:
            # not one map per chemistry: fewer (down to none) or more maps than species lists
            if mp and rng.random() < 0.6: mp = mp[:rng.randrange(len(mp))]
            else: mp = mp + [rng.choice(([], [0]))] * rng.randint(1, 2)
        return ('reorder', s, mp)
    if r < 0.90: return ('copy', s, rng.randrange(ns))
    return ('poscar', s, rng.randrange(ns))


def _oracle(ctx, im, op, status, before, hist, cfgname):
    """Direct statement of C28 on the implementation after one op."""
    def viol(sig, what):
        ctx.violation(sig, what, dict(config=cfgname, history=[list(map(_j, h)) for h in hist], op=list(map(_j, op)),
                                      status=status, before=before, after=im.show()))
    was_sane = all(x.endswith(' 1') for x in before.split(' | '))
    for sup in im.slots:
        if was_sane and not sup.__sane__():
            viol('insane-after:%s:%s' % (op[0], _class(op, im)),
                 'occ and chemorder describe different configurations after %s' % (op[0],))
            return
    if op[0] == 'setocc':
        c = op[3]
        if -1 <= c < im.nchem and status != 'ok':
            viol('declared-rejected:%s' % _class(op, im), 'declared species %d (Nchem=%d) rejected: %s' % (c, im.nchem, status))
        if not (-1 <= c < im.nchem):
            if status == 'ok': viol('undeclared-accepted:%s' % _class(op, im), 'undeclared species %d accepted (Nchem=%d)' % (c, im.nchem))
            elif im.show() != before: viol('undeclared-mutates:%s' % _class(op, im), 'rejected species %d still changed the state' % c)
    if op[0] == 'reorder' and status == 'ok':
        # a reorder that returns normally only changes the presentation order: still one list per chemistry,
        # the same occupation, and every declared species can still be placed on every kind of site
        sup = im.slots[op[1]]
        nmaps = 'short' if len(op[2]) < im.nchem else ('long' if len(op[2]) > im.nchem else 'exact')
        if len(sup.chemorder) != im.nchem:
            viol('reorder-chemorder-length:%s' % nmaps,
                 'reorder(%s) returned normally and left %d species lists for Nchem=%d' % (op[2], len(sup.chemorder), im.nchem))
        elif _show_l(sup.occ) != before.split(' | ')[op[1]].split(' ')[0]:
            viol('reorder-changes-occ', 'reorder changed the occupation')
        else:
            sites = sorted({int(np.argmax(sup.occ == v)) for v in set(int(x) for x in sup.occ)})
            for i in sites:
                for c in range(-1, im.nchem):
                    cp = sup.copy()
                    try:
                        cp.setocc(i, c)
                        bad = None if (cp.__sane__() and int(cp.occ[i]) == c) else 'inconsistent state'
                    except Exception as e:
                        bad = _err(e)
                    if bad is not None:
                        viol('reorder-species-unplaceable:%s' % nmaps,
                             'after reorder(%s) declared species %d cannot be placed on site %d: %s' % (op[2], c, i, bad))
                        return
    if op[0] == 'poscar' and status == 'ok':
        a, b = im.slots[op[1]], im.slots[op[2]]
        if list(a.occ) != list(b.occ) or a.chemorder != b.chemorder:
            viol('poscar-roundtrip', 'POSCAR -> POSCAR_occ does not reproduce occ/chemorder')
    if op[0] == 'copy' and status == 'ok':
        a, b = im.slots[op[1]], im.slots[op[2]]
        if op[1] != op[2] and (a.occ is b.occ or a.chemorder is b.chemorder or
                               any(x is y for x, y in zip(a.chemorder, b.chemorder))):
            viol('copy-aliases', 'copy shares occ/chemorder storage with the original')


def _class(op, im):
    if op[0] != 'setocc': return ''
    c = op[3]
    if c < -1: return 'below-vacancy'
    if c >= im.nchem: return 'above-last-solute'
    if c >= im.slots[0].crys.Nchem: return 'solute'
    return 'native'


def _j(x):
    if isinstance(x, (np.integer,)): return int(x)
    if isinstance(x, tuple): return list(map(_j, x))
    if isinstance(x, list): return list(map(_j, x))
    return x


def _run_sessions(ctx, sessions):
    """sessions: list of (cfgname, crys, superlatt, interstitial, nsolute, nslots, ops or generator-fn)."""
    lines, expect, meta = [], [], []
    for (cfgname, crys, sl, inter, nsol, nslots, opsrc) in sessions:
        im = Impl(crys, sl, inter, nsol, nslots)
        lines.append('init %d %d %d' % (im.nsites, im.nchem, nslots))
        expect.append('ok | ' + im.show()); meta.append((cfgname, nsol, None, []))
        hist, changed, start = [], False, len(lines)
        ops = opsrc(im) if callable(opsrc) else opsrc
        for op in ops:
            if callable(op): op = op(im)
            before = im.show()
            line = im.line(op)
            status = im.apply(op)
            after = im.show()
            changed |= (after != before)
            _oracle(ctx, im, op, status, before, hist, '%s Nsolute=%d' % (cfgname, nsol))
            hist.append(op)
            lines.append(line); expect.append('%s | %s' % (status, after)); meta.append((cfgname, nsol, op, list(hist)))
            ctx.count('op:' + op[0]); ctx.count('status:' + status)
        ctx.case((cfgname, nsol, lines[start:]), nontrivial=changed,
                 sample=dict(config='%s Nsolute=%d' % (cfgname, nsol), ops=lines[start:start + 12]))
    got = ctx.lean(DRIVER, lines)
    nd = 0
    for g, e, l, m in zip(got, expect, lines, meta):
        if g != e:
            nd += 1
            if nd <= 20:
                ctx.disagree('model/implementation differ on `%s` (%s Nsolute=%d): model `%s` impl `%s`' % (l, m[0], m[1], g, e),
                             dict(config=m[0], nsolute=m[1], history=[list(map(_j, h)) for h in m[3]], line=l, model=g, impl=e), sig=None)
    return nd


def run(ctx):
    cfgs = _configs()
    rng = ctx.rng
    sessions = []
    # (1) bounded-exhaustive: every setocc sequence up to length L on the 2-site cell, species -2..Nchem+1
    name, crys, sl, inter, nsols = cfgs[0]
    L = 3 if ctx.quick else 4
    for nsol in nsols:
        nchem = crys.Nchem + nsol
        alphabet = [('setocc', 0, i, c, 0) for i in range(2) for c in range(-2, nchem + 2)]
        for ln in range(1, L + 1):
            if not ctx.quick or ln == L or nsol == 0:
                for seq in itertools.product(alphabet, repeat=ln):
                    sessions.append((name + '-exh', crys, sl, inter, nsol, 1, list(seq)))
    ctx.count('exhaustive-sessions', len(sessions))
    # (2) random histories
    nrand = 150 if ctx.quick else 3000
    length = 25 if ctx.quick else 60
    for t in range(nrand):
        name, crys, sl, inter, nsols = cfgs[t % len(cfgs)]
        nsol = nsols[(t // len(cfgs)) % len(nsols)]
        malformed = (t % 5 == 4)
        sessions.append((name + ('-mal' if malformed else ''), crys, sl, inter, nsol, 3,
                         [(lambda im, m=malformed: _rand_op(rng, im, m)) for _ in range(length)]))
    ctx.count('random-sessions', nrand)
    sessions += _reorder_length_sessions(cfgs)
    _run_sessions(ctx, sessions)


def _reorder_length_sessions(cfgs):
    """Directed malformed stream: reorder with fewer / more maps than chemistries, on cells where the species
    without a map hold no atoms (so that __sane__ alone cannot notice), followed by placing every species."""
    out = []
    for name, crys, sl, inter, nsols in cfgs:
        for nsol in nsols:
            nchem = crys.Nchem + nsol
            ident = lambda im, k: [list(range(len(cl))) for cl in im.slots[0].chemorder[:k]]
            place = [('setocc', 0, 0, c, 0) for c in range(nchem - 1, -2, -1)]
            for nocc in range(0, nchem):        # species 0..nocc-1 hold atoms, maps given for 0..k-1
                pre = [('setocc', 0, c, c, 0) for c in range(nocc)]
                for k in range(nocc, nchem):
                    out.append((name + '-short', crys, sl, inter, nsol, 1,
                                pre + [lambda im, k=k: ('reorder', 0, ident(im, k))] + place))
                if nocc > 0:
                    # a map is missing for a species that does hold atoms: must be rejected, state unchanged
                    out.append((name + '-short-occupied', crys, sl, inter, nsol, 1,
                                pre + [lambda im, k=nocc - 1: ('reorder', 0, ident(im, k))] + place))
                for extra in ([[]], [[0]], [[], []]):
                    out.append((name + '-long', crys, sl, inter, nsol, 1,
                                pre + [lambda im, e=extra: ('reorder', 0, ident(im, len(im.slots[0].chemorder)) + e)] + place))
    return out


def search(ctx, reasons):
    """Failing-input search when an obligation broke without the correspondence exhibiting a failure:
    longer exhaustive enumeration plus malformed random histories with the oracle only."""
    cfgs = _configs()
    rng = ctx.rng
    sessions = []
    for name, crys, sl, inter, nsols in cfgs:
        for nsol in nsols:
            for t in range(40):
                sessions.append((name + '-search', crys, sl, inter, nsol, 3,
                                 [(lambda im: _rand_op(rng, im, True)) for _ in range(40)]))
    sessions += _reorder_length_sessions(cfgs)
    _run_sessions(ctx, sessions)
