"""
C22 — k-point mesh reduction integrates symmetric functions exactly.

Everything is expressed in reciprocal-lattice coordinates (k = B q, G = B n, scalar products
through the rational reciprocal metric h = g^-1), so Brillouin-zone membership and the symmetry
reduction are exact.
(a) verified checker: every point of Crystal.fullkptmesh, converted exactly to q, is judged by the
Lean checker `inBZ` whose soundness for ALL reciprocal lattice vectors is a theorem (inBZ_sound);
(b) correspondence: the Lean model of the reduction loop (`reduceMesh`) against
Crystal.reducekptmesh, compared as orbit -> weight maps; the theorems reduce_weights /
reduced_average_eq_full hold for the model for every invariant function;
(c) direct oracles on the implementation: BZ membership by complete enumeration, congruence of the
mesh with the linspace grid modulo reciprocal lattice vectors, positive weights summing to one,
unique representative per mesh point, exact averages of invariant periodic (lattice-shell cosine
sums) and non-periodic (|k|^2, |k|^4) functions, and the membership test Crystal.inBZ itself.
"""
import itertools, math, os
from fractions import Fraction as Fr
import numpy as np
from props import _latgeom as LG

META = dict(
    id='C22',
    level_text='Partial. Kernel-checked: (1) the Brillouin-zone checker is sound for every reciprocal lattice vector (inBZ_sound: complete '
               'enumeration of the near vectors in the dual box, Cauchy-Schwarz for all others; closer_iff_nearest), for any dimension and '
               'rational metric; (2) for the reduction loop of reducekptmesh with any operation list passing the executable group check and '
               'ANY list of mesh points: weights count/N are positive and sum to one, every full-mesh point matches exactly one representative, '
               'and the weighted sum over representatives equals the full-mesh average for every invariant function (reduce_weights, '
               'reduced_average_eq_full, C22_reduce) - no periodicity or mesh-closure assumption; images have equal length so the shell '
               'restriction of the source loses nothing (isImage_norm). NOT a theorem: that fullkptmesh / genBZG always produce points inside '
               'the zone - checked on every generated mesh by the verified checker (a theorem about every output, sampled inputs).',
    level_note='Trusted: Lean kernel + standard axioms; exact conversion of mesh points to reciprocal coordinates (denominators 2N, residual '
               '< 1e-9) and of the metric; the group is read from Crystal.G (rot^-T, validated as isometries of the reciprocal metric and by '
               'the group check). Float thresholds of the shell splitting / matching in reducekptmesh are not modelled (exact equality in the model).',
    technique='Lean 4 proof (Cauchy-Schwarz BZ checker soundness; loop invariant of the reduction for an arbitrary equivalence) + verified '
              'checker on implementation output + differential reduction + direct oracles',
    lean_modules=['OnsagerModel.C21', 'OnsagerModel.C22', 'OnsagerProofs.C21Geom', 'OnsagerProofs.C21Orbit', 'OnsagerProofs.C21',
                  'OnsagerProofs.C22'],
    theorems=['Onsager.C22.closer_iff_nearest', 'Onsager.C22.inBZ_sound', 'Onsager.C22.C22_inBZ', 'Onsager.C22.reduce_weights',
              'Onsager.C22.reduced_average_eq_full', 'Onsager.C22.matGroupCheck_equiv', 'Onsager.C22.isImage_norm',
              'Onsager.C22.C22_reduce', 'Onsager.Geom.cauchy_schwarz', 'Onsager.Geom.boxB_complete', 'Onsager.Geom.psdCert_sound'],
    tie_theorems=[],
    rule='one case = (crystal, Nmesh): zoo incl. scaled lattice constants (a = 3, 4, 10), random rational-metric lattices of every '
         'Bravais family (2D/3D, obtuse/acute rhombohedral, needle/plate, skewed noreduce cells), well-known cells (FCC, BCC, SC, HCP, '
         'triclinic, 2-D) re-described by unimodular matrices with entries up to +-4 and kept as given (noreduce=True), mesh divisions 1..6 per axis '
         '(even and odd, anisotropic); invariant test functions from lattice-vector shells; non-trivial = mesh with more than one '
         'point; distinct by (metric, basis, Nmesh)',
    trusted=['conversion k -> q = (lattice^T k)/(2 pi) snapped to denominators 2N (checked residual)'],
    assumptions=['mesh divisions >= 1 on every axis'],
)

DRIVER = 'Drive/C22.lean'
MODS = ['OnsagerModel.C22', 'OnsagerModel.C21', 'OnsagerModel.Basic']


def int_inv_T(rot):
    """(rot^-1)^T for an integer unimodular matrix, exact"""
    inv = LG.fr_inv([[Fr(x) for x in row] for row in rot])
    assert all(x.denominator == 1 for row in inv for x in row)
    d = len(rot)
    return [[int(inv[j][i]) for j in range(d)] for i in range(d)]


class KX:
    def __init__(self, X):
        self.X, self.d = X, X.d
        self.g, self.h = X.g, X.h
        self.M, self.D = LG.fr_ldl(self.h)
        self.rops = [int_inv_T(rot) for rot, _, _ in X.ops]

    def line(self):
        ops = '#'.join(';'.join(','.join(str(x) for x in row) for row in R) for R in self.rops)
        return 'kcrys %d | %s | %s | %s | %s | %s' % (self.d, LG.rmat(self.g), LG.rmat(self.h), LG.rmat(self.M), LG.rlist(self.D), ops)

    def to_q(self, k, N):
        """Cartesian k -> exact reciprocal coordinates (denominators 2*lcm(N))"""
        crys = self.X.crys
        w = crys.lattice.T @ k / (2 * np.pi)
        den = 2 * math.lcm(*[int(n) for n in N])
        out = []
        for x in w:
            f = Fr(round(float(x) * den), den)
            if abs(float(f) - float(x)) > 1e-9: raise LG.SnapFail('k-point is not on the mesh lattice')
            out.append(f)
        return tuple(out)

    def act(self, R, q):
        return tuple(sum(R[i][j] * q[j] for j in range(self.d)) for i in range(self.d))

    def orbit_id(self, q):
        return min(self.act(R, q) for R in self.rops)

    def excess(self, qs):
        """max over reciprocal lattice vectors n != 0 of 2 q.n / n.n for every q (float, complete box)"""
        d = self.d
        H = np.array([[float(x) for x in row] for row in self.h])
        qa = np.array([[float(x) for x in q] for q in qs])
        qq = np.einsum('pi,ij,pj->p', qa, H, qa)
        R2 = Fr(5 * float(qq.max())) * Fr(1001, 1000)
        if R2 == 0: R2 = Fr(min(self.h[i][i] for i in range(d)))
        box = LG.dual_box(self.g, R2)        # dual box of the reciprocal lattice: inverse metric is g
        nv = np.array([n for n in itertools.product(*[range(-b, b + 1) for b in box]) if any(n)], dtype=float)
        nn = np.einsum('ni,ij,nj->n', nv, H, nv)
        qn = qa @ H @ nv.T
        ex = 2 * qn / nn[None, :]
        idx = ex.argmax(axis=1)
        return ex.max(axis=1), [tuple(int(t) for t in nv[i]) for i in idx]


def qtxt(q):
    return ','.join(LG.rs(x) for x in q)


def replay_of(X, **kw):
    crys = X.crys
    rp = dict(crystal=X.name, construct=getattr(crys, '_verif_args', None), lattice=crys.lattice.tolist(),
              basis=[[list(map(float, u)) for u in a] for a in crys.basis])
    rp.update(kw)
    return rp


def shell_vectors(K, rng, nshell):
    """orbits of a few direct lattice vectors under the point group (integer coordinates)"""
    X = K.X
    out = []
    for _ in range(nshell):
        n = tuple(rng.randint(-2, 2) for _ in range(X.d))
        if not any(n): continue
        orb = set()
        for rot, _, _ in X.ops:
            orb.add(tuple(sum(rot[i][j] * n[j] for j in range(X.d)) for i in range(X.d)))
        out.append(sorted(orb))
    return out


def oracle_mesh(ctx, K, N, kfull):
    X = K.X
    sigs = []
    def viol(sig, what, **kw):
        sigs.append(sig)
        ctx.violation(sig, what, replay_of(X, Nmesh=list(N), call='crys.fullkptmesh(Nmesh)', **kw))
    try:
        qs = [K.to_q(k, N) for k in kfull]
    except LG.SnapFail:
        viol('mesh-not-congruent', 'a mesh point is not a grid point modulo reciprocal lattice vectors')
        return sigs, None
    grid = list(itertools.product(*[[Fr(1, 2) - Fr(j, n) for j in range(n)] for n in N]))
    if len(qs) != len(grid):
        viol('mesh-size', 'fullkptmesh returns %d points for %d grid points' % (len(qs), len(grid))); return sigs, qs
    bad = [i for i, (q, gq) in enumerate(zip(qs, grid)) if any((a - b).denominator != 1 for a, b in zip(q, gq))]
    if bad:
        viol('mesh-not-congruent', 'mesh point %d = B%s is not congruent to the grid point B%s modulo reciprocal lattice vectors'
             % (bad[0], [str(x) for x in qs[bad[0]]], [str(x) for x in grid[bad[0]]]))
    ex, wn = K.excess(qs)
    out = [i for i in range(len(qs)) if ex[i] > 1 + 1e-9]
    if out:
        i = int(np.argmax(ex))
        viol('mesh-point-outside-BZ', '%d of %d mesh points lie outside the Brillouin zone, e.g. k = B%s is closer to G = B%s than to 0 '
             '(2k.G/G.G = %.6f)' % (len(out), len(qs), [str(x) for x in qs[i]], list(wn[i]), float(ex[i])),
             outside=len(out), k=[float(x) for x in kfull[i]])
    return sigs, qs


def oracle_reduce(ctx, K, N, kfull, qs, ksym, w, rng):
    X = K.X
    crys = X.crys
    sigs = []
    def viol(sig, what, **kw):
        sigs.append(sig)
        ctx.violation(sig, what, replay_of(X, Nmesh=list(N), call='crys.reducekptmesh(crys.fullkptmesh(Nmesh))', **kw))
    Nk = len(kfull)
    if len(ksym) != len(w) or np.any(np.asarray(w) <= 0) or abs(float(np.sum(w)) - 1) > 1e-12 * max(1, Nk):
        viol('reduce:weights', 'weights are not positive / do not sum to one (sum = %r)' % float(np.sum(w)))
    try:
        qsym = [K.to_q(k, N) for k in ksym]
    except LG.SnapFail:
        viol('reduce:rep-not-a-mesh-point', 'a representative is not a mesh point'); return sigs, None
    ids = [K.orbit_id(q) for q in qsym]
    if len(set(ids)) != len(ids):
        viol('reduce:equivalent-representatives', 'two representatives are related by a group operation')
    count = {}
    for q in qs:
        oid = K.orbit_id(q)
        count[oid] = count.get(oid, 0) + 1
    pyw = {oid: float(x) for oid, x in zip(ids, w)}
    if set(pyw) != set(count):
        viol('reduce:orbits', 'representatives do not cover the mesh orbits exactly (%d orbits, %d representatives)' % (len(count), len(ids)))
    elif any(abs(pyw[o] - count[o] / Nk) > 1e-12 for o in count):
        viol('reduce:weights', 'a weight is not (orbit size)/N')
    # averages of invariant functions
    funcs = [('|k|^2', lambda k: (k * k).sum(axis=1)), ('|k|^4', lambda k: (k * k).sum(axis=1) ** 2)]
    for orb in shell_vectors(K, rng, 3):
        Rc = np.array(orb, dtype=float) @ crys.lattice.T      # cartesian lattice vectors of the shell
        funcs.append(('sum_R cos(k.R), R~%s' % (orb[0],), lambda k, Rc=Rc: np.cos(k @ Rc.T).sum(axis=1)))
    kf, ks = np.asarray(kfull), np.asarray(ksym)
    for name, f in funcs:
        full = float(f(kf).mean()); red = float((np.asarray(w) * f(ks)).sum())
        scale = max(float(np.abs(f(kf)).max()), 1.0 if name.startswith('sum_R') else 0.0) + 1e-300
        if abs(full - red) > 1e-10 * scale:
            viol('reduce:average', 'reduced mesh average %.15g differs from the full mesh average %.15g for the invariant function %s'
                 % (red, full, name)); break
    return sigs, (qsym, ids)


def oracle_inBZ(ctx, K, rng, ntest):
    """Crystal.inBZ against exact membership, on points 5% inside / outside the true zone boundary"""
    X = K.X
    crys = X.crys
    d = X.d
    B = crys.reciplatt
    H = np.array([[float(x) for x in row] for row in K.h])
    sigs = []
    for _ in range(ntest):
        u = np.array([rng.gauss(0, 1) for _ in range(d)])
        u /= np.sqrt(u @ H @ u)                    # unit length in reciprocal coordinates
        # boundary along u: smallest t with 2 t u.n = n.n.  First a bound t0 from the unit box, then all
        # vectors with |n| <= 2 t0 (longer ones cannot give a smaller t since n.n/(2 u.n) >= |n|/2)
        def tmin(box):
            nv = np.array([n for n in itertools.product(*[range(-b, b + 1) for b in box]) if any(n)], dtype=float)
            nn = np.einsum('ni,ij,nj->n', nv, H, nv)
            un = nv @ H @ u
            ok = un > 1e-12 * np.sqrt(nn)
            return (nn[ok] / (2 * un[ok])).min()
        t0 = tmin([1] * d)
        t = tmin(LG.dual_box(K.g, Fr(4 * t0 * t0 * 1.001).limit_denominator(10 ** 9)))
        for s, inside in ((0.95, True), (1.05, False)):
            k = B @ (u * t * s)
            got = bool(crys.inBZ(k))
            if got != inside:
                sig = 'inBZ:inside-rejected' if inside else 'inBZ:outside-accepted'
                if sig not in sigs:
                    sigs.append(sig)
                    ctx.violation(sig, 'Crystal.inBZ(k) = %s for k = %.2f x (zone boundary point) along q = %s' % (got, s, [round(float(x), 4) for x in u]),
                                  replay_of(X, k=[float(x) for x in k], BZG_count=len(crys.BZG), call='crys.inBZ(np.array(k))'))
    return sigs


ZOO_MESHES = {'FCC-a10': [(4, 4, 4)], 'FCC': [(4, 4, 4), (3, 3, 3)], 'HCP': [(5, 5, 5), (4, 4, 2)], 'SC-a3': [(4, 4, 4)],
              'rhombohedral cos(alpha)=-0.485 a=1 (default constructed)': [(4, 4, 4)],
              'rhombohedral cos(alpha)=0.9 a=1 (default constructed)': [(4, 4, 4)],
              'square': [(4, 4), (5, 3)], 'honeycomb': [(6, 6)], 'triangular': [(3, 3)]}


def crystals(ctx, nrand):
    from onsager import crystal
    rng = ctx.rng
    out = []
    # well-known cells re-described with strongly skewed lattice vectors (noreduce=True): folding into the zone needs many sweeps
    fixed = [('HCP', [[1, 3, -2], [0, 1, 4], [0, 0, 1]]), ('triclinic', [[1, 3, -2], [0, 1, 4], [0, 0, 1]]), ('triangular', [[1, 3], [0, 1]])]
    if not ctx.quick: fixed.append(('FCC', [[1, 3, -2], [0, 1, 4], [0, 0, 1]]))   # 48 operations: slow to construct
    nskew = 4 if ctx.quick else 40
    for t in range(nskew):
        try:
            if t < len(fixed): name, crys = LG.skewed_crystal(rng, base=fixed[t][0], m=fixed[t][1], scale=Fr(1))
            else: name, crys = LG.skewed_crystal(rng)
            out.append(LG.XCrystal(crys, name)); ctx.count('crystals:strongly-skewed-noreduce')
        except LG.SnapFail: ctx.count('snap-fail')
        except Exception as e: ctx.count('crystal-construction-error:' + type(e).__name__)
    for name, th in LG.zoo():
        try: out.append(LG.XCrystal(th(), name))
        except LG.SnapFail: ctx.count('snap-fail')
    for nm, th in [('FCC-a4', lambda: crystal.Crystal.FCC(4.0)), ('HCP-a3', lambda: crystal.Crystal.HCP(3.0)),
                   ('BCC-a2.875', lambda: crystal.Crystal.BCC(2.875))]:
        try: out.append(LG.XCrystal(th(), nm))
        except LG.SnapFail: ctx.count('snap-fail')
    plan = ['rhomb-acute', 'rhomb-obtuse', 'hexagonal', 'monoclinic', 'triclinic', 'needle', 'fcc', 'bcc', 'cubic', 'tetragonal', 'orthorhombic']
    for t in range(nrand):
        if ctx.quick and ctx.elapsed() > 50: ctx.note('budget: %d of %d random crystals generated' % (t, nrand)); break
        try:
            if t % 4 == 3: name, crys = LG.random_crystal(rng, dim=2, maxchem=1, maxatoms=2)
            else: name, crys = LG.random_crystal(rng, dim=3, kinds=[plan[(t // 2) % len(plan)]] if t % 2 == 0 else None, maxchem=1, maxatoms=2)
            out.append(LG.XCrystal(crys, name))
        except LG.SnapFail: ctx.count('snap-fail')
        except Exception as e: ctx.count('crystal-construction-error:' + type(e).__name__)
    return out


def run_cases(ctx, Xs, use_lean=True):
    rng = ctx.rng
    lines, book = [], []
    for X in Xs:
        if ctx.budget_left() < 45 and ctx.evaluations > 25: ctx.note('budget: stopped generating cases early'); break
        if not X.ops_exact():
            ctx.count('crystal-skipped:group-op-not-exact-after-snapping'); continue
        crys = X.crys
        K = KX(X)
        lines.append(K.line()); book.append(('crys', X, None))
        s0 = oracle_inBZ(ctx, K, rng, 4)
        if s0: ctx.count('inBZ-oracle-violation-crystals')
        meshes = list(ZOO_MESHES.get(X.name, []))
        nmax = 6 if X.d == 3 else 8
        if not meshes or not ctx.quick:
            meshes.append(tuple(rng.randint(1, nmax) if rng.random() < 0.5 else rng.choice([3, 4]) for _ in range(X.d)))
        if X.name in ('FCC-a4', 'HCP-a3') and (5,) * X.d not in meshes: meshes.append((5,) * X.d)
        if 're-described' in X.name: meshes.append((6,) * X.d if ctx.quick else tuple(rng.choice([4, 5, 6]) for _ in range(X.d)))
        for N in meshes:
            try:
                kfull = crys.fullkptmesh(list(N))
                ksym, w = crys.reducekptmesh(kfull)
            except Exception as e:
                ctx.violation('exception:' + type(e).__name__, 'fullkptmesh/reducekptmesh raised %r' % (e,), replay_of(X, Nmesh=list(N))); continue
            s1, qs = oracle_mesh(ctx, K, N, kfull)
            ctx.case((X.line(), N), nontrivial=len(kfull) > 1,
                     sample=dict(crystal=X.name, Nmesh=list(N), points=len(kfull), reduced=len(ksym), BZG=len(crys.BZG)))
            ctx.count('dim:%d' % X.d); ctx.count('mesh:%s' % ('even' if all(n % 2 == 0 for n in N) else 'odd' if all(n % 2 for n in N) else 'mixed'))
            if qs is None: continue
            s2, red = oracle_reduce(ctx, K, N, kfull, qs, ksym, w, rng)
            if use_lean:
                pts = ';'.join(qtxt(q) for q in qs)
                lines.append('bz %s' % pts); book.append(('bz', X, dict(N=N, qs=qs, sigs=s1, K=K)))
                if red is not None:
                    lines.append('red %s' % pts); book.append(('red', X, dict(N=N, qs=qs, sigs=s2, K=K, ids=red[1], w=[float(x) for x in w])))
    if not use_lean: return
    ans = LG.lean_run(ctx, DRIVER, MODS, lines)
    for a, (kind, X, info) in zip(ans, book):
        if kind == 'crys':
            if a == 'ok valid=1 group=0':
                ctx.count('crystal:G-not-a-group (theorem hypotheses not met)')
            elif a != 'ok valid=1 group=1':
                ctx.disagree('model rejects the reciprocal crystal %s: %s' % (X.name, a), dict(crystal=X.name, answer=a))
            continue
        if not a.startswith('ok '):
            ctx.disagree('model answer %r for %s' % (a[:100], X.name), dict(crystal=X.name)); continue
        body = a[3:]
        if kind == 'bz':
            nout = body.count('0')
            ctx.count('verified-BZ-check:points', len(body)); ctx.count('verified-BZ-check:outside', nout)
            impl_out = any(s == 'mesh-point-outside-BZ' for s in info['sigs'])
            if (nout > 0) != impl_out:
                ctx.disagree('verified BZ checker finds %d points outside on %s Nmesh=%s, direct oracle says %s'
                             % (nout, X.name, info['N'], impl_out), dict(crystal=X.name, Nmesh=list(info['N'])))
            elif nout > 0:
                ctx.disagree('mesh of %s Nmesh=%s: %d points rejected by the verified BZ checker' % (X.name, info['N'], nout),
                             dict(crystal=X.name, Nmesh=list(info['N'])), sig='mesh-point-outside-BZ')
        elif kind == 'red':
            K = info['K']
            model = {}
            for part in body.split(';'):
                rep, cnt = part.split(':')
                q = tuple(Fr(x) for x in rep.split(','))
                model[K.orbit_id(q)] = int(cnt)
            Nk = len(info['qs'])
            impl = dict(zip(info['ids'], info['w']))
            if set(model) != set(impl) or any(abs(impl[o] - model[o] / Nk) > 1e-12 for o in model):
                ctx.disagree('reducekptmesh: model and implementation differ on %s Nmesh=%s (%d vs %d representatives)'
                             % (X.name, info['N'], len(model), len(impl)), dict(crystal=X.name, Nmesh=list(info['N'])),
                             sig=(info['sigs'][0] if info['sigs'] else None))


def run(ctx):
    Xs = crystals(ctx, 30 if ctx.quick else 400)
    ctx.count('crystals', len(Xs))
    run_cases(ctx, Xs)


def search(ctx, reasons):
    rng = ctx.rng
    Xs = []
    for t in range(80):
        if ctx.budget_left() < 20: break
        try:
            name, crys = LG.random_crystal(rng, dim=3 if t % 4 else 2, kinds=['rhomb-acute', 'rhomb-obtuse', 'triclinic', 'needle'] if t % 4 else None,
                                           maxchem=1, maxatoms=1)
            Xs.append(LG.XCrystal(crys, name))
        except Exception:
            pass
    run_cases(ctx, Xs, use_lean=False)
