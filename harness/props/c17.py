"""
C17 — change of variables (rotate / irotate) and inverse (inv) of Taylor expansions are exact
(onsager/PowerExpansion.py rotatedirections / rotatecoeff / inversecoeff; used by GFcalc.py).

Tie: (a) the same table obligations as C16 (Generated/C16Facts.lean; the theorems assume Tab.Sem / Tab.Sem17,
derived from them).  (b) correspondence: `rotatedirections(T)` for random invertible non-orthogonal rational
T is compared entry by entry (exact model vs numpy, 1e-11), `rotate` / `irotate` and `inv(Nmax)` results are
compared as coefficient lists.  (c) direct oracles on the implementation: rotated expansion evaluated at p vs
original at T p as homogeneous functions; inverse times original = identity through the requested order.
"""
import os
from fractions import Fraction
import numpy as np
from props import c16

extract = c16.extract          # same generated facts file (identical content)

META = dict(
    id='C17',
    level_text='Kernel-checked theorems over any commutative ring K and K-algebra M. (1) Rotation = substitution, complete: for ALL '
               'parity-consistent coefficient lists, ANY square matrix T (orthogonal or not, invertible or not) and any point p, the expansion '
               'rotated with the model\'s rotatedirections(T), evaluated at p as a homogeneous function, equals the original at T p '
               '(eval_rotate), via the row specification of npowtrans (npowRow_spec: multinomial rows from the powercoeff obligation, pair / '
               'triplet products through directmult, padding by powers of x^2+y^2+z^2); instantiated on the live 2-D / 3-D tables '
               '(rotate_exact_tab3/2) through the table obligations shared with C16.  (2) Inverse: inverse_through_order — under exactly the two ValueError guards (isotropic leading '
               'term with a two-sided inverse, every other power above it), consistent shape and the angular-order guard of the Neumann loop, '
               'inversecoeff(a,Nmax) times a equals 1 modulo radial order > Nmax + n_lead; formalised as: in EVERY commutative ring S with a '
               'nilpotent t (t^(B+1)=0, B=Nmax+n_lead) the two evaluations with radial factor t^n multiply to exactly 1 (S=K[t]/(t^(B+1)) gives '
               'the coefficientwise statement); built on neumann_identity and a product rule with local multiplicativity; instantiated on the '
               'live index tables over every ring (inverse_tab3).  Python rotate / irotate / inv / rotatedirections are tied to the model '
               'differentially (whole npowtrans array; coefficient lists) plus direct oracles.',
    level_note='Trusted: Lean kernel + standard axioms; table dump; harness. rotatedirections is modelled row-wise (each row as the '
               'expression the loops assign to it), tied to the loops by exact comparison of the whole array on every run. '
               'np.linalg.inv is modelled by exact Gauss-Jordan in the driver; in the theorem the leading inverse is any two-sided inverse.',
    technique='Lean 4 proofs over a polymorphic executable model + table obligations shared with C16 + differential runs',
    lean_modules=['OnsagerModel.C16', 'OnsagerModel.C16Ten', 'OnsagerModel.C17', 'Generated.C16Facts', 'OnsagerProofs.C16',
                  'OnsagerProofs.C16Proj', 'OnsagerProofs.C16Sound', 'OnsagerProofs.C17', 'OnsagerProofs.C17Rows',
                  'OnsagerProofs.C17Inv', 'OnsagerProofs.C17Sound', 'OnsagerProofs.C16Tie3a',
                  'OnsagerProofs.C16Tie3b', 'OnsagerProofs.C16Tie3c', 'OnsagerProofs.C16Tie3d', 'OnsagerProofs.C16Tie3e',
                  'OnsagerProofs.C16Tie2', 'OnsagerProofs.C16Tie', 'OnsagerProofs.C17Tie'],
    theorems=[],       # filled below
    tie_theorems=[],
    rule='random rational T (entries k/4, det != 0, not orthogonal), random parity-consistent expansions (n-|p| even >= 0), random '
         'expansions with an isotropic invertible leading matrix and positive relative orders, overall scale 2^k (k in -40..40, dense around the '
         'code\'s absolute tolerances 1e-10/1e-8), Nmax 0..2 shifted by the leading order, '
         '2-D and 3-D; a case is one call; non-trivial = result has a non-zero coefficient; distinct by request text; malformed: '
         'l > n, leading l > 0, equal first powers, singular leading matrix',
    trusted=['numpy semantics of tensordot / pad / linalg.inv as modelled by OnsagerModel/C16Ten.lean'],
    assumptions=['rotation: expansions are parity-consistent (as produced by GFcalc: blocks (n,n) or reduced from them)',
                 'inverse: products inside the Neumann series stay within Lmax (the code does not check: "caveat emptor")'],
)
META['theorems'] = ['Onsager.C16.eval_rotate_of_rows', 'Onsager.C16.linPowRow_dot', 'Onsager.C16.shellMul_spec',
                    'Onsager.C16.powtransRow_spec', 'Onsager.C16.npowRowK_spec', 'Onsager.C16.npowRow_spec', 'Onsager.C16.eval_rotate',
                    'Onsager.C16.sem17_of_checks', 'Onsager.C16.neumann_identity', 'Onsager.C16.eval_mul_local',
                    'Onsager.C16.eval_invLoop', 'Onsager.C16.inverse_through_order', 'Onsager.C16.semMul_mapK_of_checks']
META['tie_theorems'] = ['Onsager.C16.tab3_sem', 'Onsager.C16.tab2_sem', 'Onsager.C16.tab3_sem17', 'Onsager.C16.tab2_sem17',
                        'Onsager.C16.rotate_exact_tab3', 'Onsager.C16.rotate_exact_tab2', 'Onsager.C16.tab3_semMul',
                        'Onsager.C16.tab2_semMul', 'Onsager.C16.inverse_tab3']

DRIVER = 'Drive/C17.lean'


def ser_Q(Q):
    return ';'.join(','.join(c16.fr(x) for x in row) for row in Q)


def rnd_Q(rng, dim, nearsing=False):
    while True:
        Q = np.array([[rng.randint(-8, 8) / 4.0 for _ in range(dim)] for _ in range(dim)])
        if nearsing:
            Q[-1] = Q[0] * (rng.randint(1, 3)) + np.array([rng.randint(-1, 1) / 64.0 for _ in range(dim)])
        d = np.linalg.det(Q)
        if abs(d) > (1e-6 if nearsing else 0.2) and not np.allclose(Q @ Q.T, np.eye(dim) * (Q @ Q.T)[0, 0]):
            return Q


def rnd_parity_coeffs(rng, cls, shape, nterms=None):
    """blocks (n, l, c) with l <= n <= Lmax, l = n mod 2, non-zero rows only where |p| = n mod 2"""
    k = rng.randint(1, 3) if nterms is None else nterms
    cl, used = [], set()
    for _ in range(k):
        n = rng.randint(0, cls.Lmax)
        if n in used and rng.random() < 0.7: continue
        used.add(n)
        l = rng.choice([x for x in range(n % 2, n + 1, 2)])
        c = c16.rnd_arr(rng, (int(cls.powlrange[l]),) + tuple(shape), 0.2)
        for p in range(c.shape[0]):
            if (int(sum(cls.ind2pow[p])) - n) % 2 != 0: c[p] = 0
        cl.append((n, l, c))
    return cl


def rnd_point(rng, dim):
    while True:
        p = np.array([rng.randint(-12, 12) / 8.0 for _ in range(dim)])
        if np.dot(p, p) > 0.05: return p


def rnd_leading(rng, shape):
    """invertible leading coefficient with a small exact inverse"""
    if len(shape) == 0:
        return np.array(complex(rng.choice([-2, -1, -0.5, 0.5, 1, 2, 4]), rng.choice([0, 0, 0.5, -1])))
    d = shape[0]
    while True:
        m = np.array([[complex(rng.randint(-4, 4) / 2.0, rng.choice([0, 0, 0.5, -0.5])) for _ in range(d)] for _ in range(d)])
        if abs(np.linalg.det(m)) > 0.3: return m


def gen_cases(ctx, cls, dim, count):
    rng = ctx.rng
    cases = []
    for it in range(count):
        kind = ['rotdir', 'rotate', 'inv', 'inv', 'rotate'][it % 5]
        malformed = (it % 9 == 8)
        pref = '%d ' % dim
        rp = dict(dim=dim, op=kind)

        def oracle_fail(sig, what, extra):
            r = dict(rp); r.update(extra)
            ctx.violation(sig, what, r)
        try:
            if kind == 'rotdir':
                Q = rnd_Q(rng, dim, nearsing=(it % 20 == 15))
                if it % 25 == 10: Q = np.eye(dim)
                res = c16._try(lambda: cls.rotatedirections(Q))
                c = c16.Case(pref + 'rotdir ' + ser_Q(Q), [('rotdir', res)], 'rotdir', dict(rp, Q=Q.tolist()))
                cases.append(c)
            elif kind == 'rotate':
                shape = c16.rnd_shape(rng)
                Q = rnd_Q(rng, dim)
                a = rnd_parity_coeffs(rng, cls, shape)
                if malformed and a:
                    n, l, cc = a[0]
                    if rng.random() < 0.5 and n + 1 <= cls.Lmax:
                        a[0] = (n, n + 1, c16.rnd_arr(rng, (int(cls.powlrange[n + 1]),) + tuple(shape)))   # l > n
                    else:
                        a[0] = (cls.Lmax + 1, l, cc)                                                     # n > Lmax
                a0 = c16.copy_cl(a); A = cls(a)
                mode = rng.choice(['rotate', 'irotate'])
                def run():
                    pt = cls.rotatedirections(Q)
                    return (A.rotate(pt) if mode == 'rotate' else A.irotate(pt)).coefflist
                res = c16._try(run)
                c = c16.Case(pref + 'rotate %s %s' % (ser_Q(Q), c16.ser_coeffs(a0)), [(mode, res)], 'rotate:' + mode,
                             dict(rp, Q=Q.tolist(), a=c16.ser_coeffs(a0), mode=mode))
                if res[0] == 'ok' and not malformed:
                    p = rnd_point(rng, dim)
                    fn = c16.FN(lambda n: 1.0, callable_=False)
                    fnh = c16.FN(lambda n: None)
                    hom = _HomFN()
                    lhs = c16.ev(cls(res[1]), p, hom)
                    rhs = c16.ev(cls(a0), Q @ p, hom)
                    if not c16.close(lhs, rhs):
                        oracle_fail('rotate:%s' % mode, 'rotated expansion at p differs from the original at T p (homogeneous evaluation)',
                                    dict(c.replay, p=p.tolist(), lhs=str(np.asarray(lhs).tolist()), rhs=str(np.asarray(rhs).tolist())))
                    if mode == 'rotate' and not c16.cl_equal(A.coefflist, a0):
                        oracle_fail('rotate-mutates-operand', 'rotate modified its operand', c.replay)
                cases.append(c)
            else:
                # inverse
                r = rng.random()
                shape = () if r < 0.35 else (lambda d: (d, d))(rng.randint(1, 3))
                n0 = rng.choice([-2, 0, 0, 1, 2, 2, 2])
                lead = rnd_leading(rng, shape)
                nt = rng.randint(0, 3)
                rel = sorted(rng.sample([1, 2, 3, 4], nt))
                a = [(n0, 0, lead.reshape((1,) + tuple(shape)))]
                lt = rng.choice([0, 1, 1, 2, 2])
                for d in rel:
                    l = rng.randint(0, lt)
                    a.append((n0 + d, l, c16.rnd_arr(rng, (int(cls.powlrange[l]),) + tuple(shape), 0.2)))
                Nmax = -n0 + rng.randint(0, 2) if rng.random() < 0.7 else rng.randint(0, 2)
                bad = None
                if malformed:
                    bad = rng.choice(['leadL', 'second', 'singular'])
                    if bad == 'leadL':
                        a[0] = (n0, 1, c16.rnd_arr(rng, (int(cls.powlrange[1]),) + tuple(shape), 0.0))
                    elif bad == 'second':
                        a.append((n0, 0, c16.rnd_arr(rng, (1,) + tuple(shape), 0.0)))
                    elif len(shape) == 2 and shape[0] >= 2:
                        m = a[0][2][0].copy(); m[-1] = m[0]; a[0] = (n0, 0, m.reshape((1,) + tuple(shape)))
                    else:
                        a[0] = (n0, 0, np.zeros((1,) + tuple(shape), dtype=complex))
                rng.shuffle(a)
                # overall scale over many decades (exact powers of two, so that scaling commutes with rounding):
                # inversion is homogeneous of degree -1; absolute tolerances in the code (1e-10, 1e-8) must not matter
                rs = rng.random()
                kexp = 0 if rs < 0.3 else (rng.randint(-40, 40) if rs < 0.65 else rng.randint(-38, -24))
                sc = 2.0 ** kexp
                a_unit = c16.copy_cl(a)
                a = [(n, l, cc * sc) for n, l, cc in a]
                ctx.count('inv:scale-2^%+03d..' % (10 * (kexp // 10)))
                a0 = c16.copy_cl(a); A = cls(a)
                import warnings
                def run():
                    with warnings.catch_warnings():
                        warnings.simplefilter('error')
                        return A.inv(Nmax).coefflist
                res = c16._try(run)
                c = c16.Case(pref + 'inv %d %s' % (Nmax, c16.ser_coeffs(a0)), [('inv', res)], 'inv',
                             dict(rp, a=c16.ser_coeffs(a0), Nmax=Nmax, malformed=bad, scale='2**%d' % kexp))
                if res[0] == 'ok' and not malformed and kexp != 0:
                    # metamorphic oracle: inv(s*a) = inv(a)/s  (same terms, coefficients equal relative to their scale)
                    def run1():
                        with warnings.catch_warnings():
                            warnings.simplefilter('error')
                            return cls(c16.copy_cl(a_unit)).inv(Nmax).coefflist
                    r1 = c16._try(run1)
                    why = None
                    if r1[0] != 'ok':
                        why = 'inv(a) raises %s but inv(s*a) succeeds' % (r1[1],)
                    else:
                        why = c16.coeffs_close([(int(n), int(l), np.asarray(cc) / sc) for n, l, cc in r1[1]], res[1], rel=True)
                    if why:
                        oracle_fail('inv:scaling', 'inv(s*a) != inv(a)/s for s = 2**%d: %s' % (kexp, why),
                                    dict(c.replay, inv_scaled=c16.ser_coeffs(res[1])[:1200],
                                         inv_unscaled=(c16.ser_coeffs(r1[1])[:1200] if r1[0] == 'ok' else r1[1])))
                if res[0] == 'ok' and not malformed:
                    # through-order oracle: inv(a) * a = 1 + O(n > Nmax + n0), provided all products stay within Lmax
                    lmax_t = max([l for _, l, _ in a0])
                    nser = ((Nmax + n0) // min(rel)) if rel else 0
                    linv = max([l for _, l, _ in res[1]] + [0])
                    if nser * lmax_t <= cls.Lmax and linv + lmax_t <= cls.Lmax:
                        ctx.count('inv:oracle-applied')
                        P = cls(res[1]) * cls(a0)
                        u = [float(x) for x in c16.rnd_unit(rng, dim)]
                        vals = P(np.array(u))
                        byn = {}
                        for (n, l), v in zip([(n, l) for n, l, _ in P.coefflist], [np.tensordot(cls.powexp(np.array(u))[0][:cls.powlrange[l]], cc, axes=1) for n, l, cc in P.coefflist]):
                            byn[n] = byn.get(n, 0) + v
                        ident = 1.0 if len(shape) == 0 else np.eye(shape[0])
                        for n, v in byn.items():
                            if n <= Nmax + n0:
                                want = ident if n == 0 else 0 * ident
                                if not c16.close(v, want, scale=1.0):
                                    oracle_fail('inv:order-%s' % ('0' if n == 0 else 'n'),
                                                'inv(a)*a differs from the identity at order %d <= Nmax + n_lead = %d' % (n, Nmax + n0),
                                                dict(c.replay, u=u, order=n, value=str(np.asarray(v).tolist())))
                                    break
                        if 0 not in byn and 0 <= Nmax + n0:
                            oracle_fail('inv:order-0', 'inv(a)*a has no term of order 0', c.replay)
                    else:
                        ctx.count('inv:oracle-skipped-beyond-Lmax')
                    if not c16.cl_equal(A.coefflist, a0):
                        oracle_fail('inv-mutates-operand', 'inv modified its operand', c.replay)
                cases.append(c)
        except Exception as e:
            ctx.note('generator error in %s: %r' % (kind, e))
    return cases


class _HomFN(dict):
    """radial factor f_n(|q|) = |q|^n : evaluation as a homogeneous function"""
    def __getitem__(self, key):
        n = key[0]
        return lambda x, n=n: x ** n


def check_answers(ctx, cls, cases, answers):
    for c, ans in zip(cases, answers):
        ctx.count('op:' + c.tag.split(':')[0])
        mode, res = c.variants[0]
        if ans.startswith('ERR'):
            ctx.count('model:' + ans.replace(' ', '-'))
            if ans == 'ERR parse':
                ctx.disagree('driver parse error', dict(c.replay, line=c.line[:2000]))
            elif res[0] == 'ok':
                if ans in ('ERR shape', 'ERR rot') or (ans == 'ERR type' and c.replay.get('malformed') == 'singular'):
                    ctx.count('malformed-accepted-by-numpy')      # e.g. np.linalg.inv of a float-singular matrix returns garbage
                else:
                    ctx.disagree('model rejects (%s) what the code accepts (%s)' % (ans, c.tag), dict(c.replay, model=ans, impl='ok'))
            ctx.case(c.line, nontrivial=False)
            continue
        if res[0] == 'raise':
            ctx.disagree('code raises %s where the model computes a result (%s)' % (res[1], c.tag),
                         dict(c.replay, model=ans[:300], impl='raise ' + res[1]))
            ctx.case(c.line, nontrivial=False)
            continue
        body = ans.split(' ', 1)[1]
        why, nontriv = None, True
        if c.tag == 'rotdir':
            N = np.asarray(res[1])
            M = np.zeros(N.shape)
            if body != '-':
                for e in body.split(';'):
                    idx, v = e.split('=')
                    n, po, pn = (int(t) for t in idx.split(','))
                    M[n, po, pn] = float(Fraction(v))
            scale = max(1.0, float(np.max(np.abs(M))))
            err = float(np.max(np.abs(M - N)))
            if err > 1e-11 * scale:
                k = np.unravel_index(np.argmax(np.abs(M - N)), N.shape)
                why = 'npowtrans differs by %.3g at [n,pold,pnew]=%s: model %r code %r' % (err, tuple(int(x) for x in k), M[k], N[k])
        else:
            why = c16.coeffs_close(c16.parse_coeffs(body), res[1], rel=(c.tag == 'inv'))
            nontriv = any(np.any(np.asarray(x[2]) != 0) for x in res[1])
        if why:
            ctx.disagree('model/implementation differ on %s (%s): %s' % (c.tag, mode, why),
                         dict(c.replay, line=c.line[:3000], model=ans[:1500],
                              impl=(c16.ser_coeffs(res[1])[:1500] if c.tag != 'rotdir' else 'array')), sig=None)
        ctx.case(c.line, nontrivial=nontriv, sample=dict(op=c.tag, request=c.line[:160]))


def run(ctx, scale=1.0):
    n3, n2 = (150, 150) if ctx.quick else (3000, 3000)
    n3, n2 = int(n3 * scale), int(n2 * scale)
    classes = c16._classes()
    done = [0, 0]
    chunk = 400 if ctx.quick else 1500
    while done[0] < n3 or done[1] < n2:
        batch = []
        for i, ((cls, dim), cnt) in enumerate(zip(classes, (n3, n2))):
            k = min(chunk * cnt // (n3 + n2) + 1, cnt - done[i])
            if k > 0:
                batch += [(cls, c) for c in gen_cases(ctx, cls, dim, k)]
                done[i] += k
        answers = ctx.lean(DRIVER, [c.line for _, c in batch])
        for cls in (classes[0][0], classes[1][0]):
            idx = [j for j, (k, _) in enumerate(batch) if k is cls]
            check_answers(ctx, cls, [batch[j][1] for j in idx], [answers[j] for j in idx])
        if ctx.budget_left() < 25 and sum(done) >= 150: break
    ctx.count('cases:3D', done[0]); ctx.count('cases:2D', done[1])


def search(ctx, reasons):
    run(ctx, scale=1.5)
