"""
C11 — Interstitial derivative outputs are true derivatives.

Lean: OnsagerProofs/C11Dual.lean (dual numbers as a commutative ring, DUAL), OnsagerProofs/C11.lean (product rule on
rho_i w_a, ENVELOPE over the dual numbers, the code's Db/Dp layout = envelope value, DE = -dD/dbeta, Dp:e = dD/de with
the geometric part), OnsagerProofs/C11Proj.lean (population rule: projection on invariant symmetric tensors is symmetric,
invariant, idempotent; transport by any operation mapping the representative is well defined).
Tie: Interstitial.diffusivity(CalcDeriv=True) and Interstitial.elastodiffusion against the exact rational model
(OnsagerModel/C11.lean) with the code's own populated dipoles as data (exact rationals of the floats).
Direct oracles on the implementation: population rule of siteDipoles/jumpDipoles (symmetric, stabiliser invariant,
equivariant under every group operation, equal to the group average, reversal case), Richardson central differences
along beta on the real code, and along beta and every strain component on an independent numpy site-space evaluation.
"""
import math, itertools
from fractions import Fraction
import numpy as np
import interstitial_common as ic

META = dict(
    id='C11',
    lean_modules=['OnsagerProofs.Lemmas.Variational', 'OnsagerModel.C02', 'OnsagerModel.C11', 'OnsagerProofs.C11Dual',
                  'OnsagerProofs.C11', 'OnsagerProofs.C11Proj'],
    theorems=['Onsager.DUAL', 'Onsager.Dual.scaleExp_mul', 'Onsager.C11.r_eps', 'Onsager.C11.envelope_dual',
              'Onsager.C11.code_layout_eq', 'Onsager.C11.DE_is_minus_dDdbeta', 'Onsager.C11.elasto_is_strain_derivative',
              'Onsager.C11.Q2_stationary_eq', 'Onsager.C11.dvalue_sound', 'Onsager.C11.dvalue_is_derivative',
              'Onsager.C11.geometric_contraction',
              'Onsager.C11.proj_symm', 'Onsager.C11.proj_invariant', 'Onsager.C11.proj_idem', 'Onsager.C11.proj_fixes',
              'Onsager.C11.carry_well_defined', 'Onsager.C11.carry_equivariant', 'Onsager.C11.carry_symm'],
    tie_theorems=[],
    level_text='Kernel-checked, for every finite reversible network over any ordered field: (DUAL) the epsilon-part of the '
               'correlation correction needs no derivative of the solution; (ENVELOPE) the epsilon-part of the transport functional '
               'over the dual numbers at a stationary point is the explicit derivative only; the formula the code evaluates for Db '
               'and for the rate part of Dp (written in site space) equals that envelope value, hence DE = -dD/dbeta and '
               'Dp:e = dD/de including the geometric part D(e^T u,v)+D(u,e^T v); the exact model returns that value at certified '
               'stationary points. Population rule: projection on an orthonormal basis of invariant symmetric tensors is symmetric, '
               'stabiliser-invariant, idempotent, and its transport R P R^T does not depend on the operation chosen. '
               'Partial: the Python code (symmetrised rates, vector-basis projection, solve/pinv, tensordot layout) is tied to the '
               'model by correspondence on generated inputs, not proved; "formal dual-number derivative = analytic derivative" for '
               'rational functions of exp is standard and not formalised; that the code\'s tensor basis is an orthonormal basis of '
               'the invariant symmetric tensors is checked by the direct oracle (group average), not proved.',
    level_note='Trusted: Lean kernel + standard axioms; exp on dual numbers by definition exp(a+eps b)=exp(a)(1+eps b); '
               'rationalisation (jump vectors in lattice coordinates, energies n ln q, dipole components as exact binary rationals).',
    technique='Lean 4 dual-number/envelope theorems + certified exact rational model + differential comparison + direct oracles '
              '(group-average population rule, Richardson finite differences)',
    rule='zoo of 12 interstitial networks x random rational prefactors, integer energies (units of ln q), random non-symmetric '
         'dipoles for every Wyckoff set and jump class; every strain component; non-trivial = correlated network or several '
         'Wyckoff sets/classes with non-zero derivative; distinct by (network, data, dipoles); plus malformed argument lists',
    trusted=['exp on dual numbers is defined by exp(a+eps b)=exp(a)(1+eps b)',
             'formal derivative over dual numbers equals the analytic derivative (rational functions of exponentials)'],
    assumptions=['jump networks list every jump with its reverse in the same class (checked by the model on every input)'],
)

DRIVER = 'Drive/C11.lean'


# ---------------------------------------------------------------- helpers
def _diffuser(name, crys, chem, sl, jn):
    from onsager import OnsagerCalc
    key = ('diff', name)
    if key not in ic._CACHE:
        ic._CACHE[key] = (OnsagerCalc.Interstitial(crys, chem, sl, jn), ic.lattice_jumps(crys, jn))
    return ic._CACHE[key]


def rand_dipoles(rng, n, dim, style):
    """random NON-symmetric dipoles with entries k/8 (exact in binary)"""
    out = []
    for _ in range(n):
        if style == 'zero':
            out.append(np.zeros((dim, dim)))
        elif style == 'iso':
            out.append(rng.randint(-16, 16) / 8. * np.eye(dim))
        else:
            out.append(np.array([[rng.randint(-24, 24) / 8. for _ in range(dim)] for _ in range(dim)]))
    return out


def reverse_index(ljumps):
    """flat index of the reverse of every jump (exact, lattice coordinates); None when missing"""
    flat = [(i, j, tuple(dx)) for cls in ljumps for (i, j, dx) in cls]
    where = {}
    for m, f in enumerate(flat):
        where.setdefault(f, []).append(m)
    rev, used = [None] * len(flat), set()
    for m, (i, j, dx) in enumerate(flat):
        cands = [k for k in where.get((j, i, tuple(-x for x in dx)), []) if k not in used]
        if cands:
            rev[m] = cands[0]; used.add(cands[0])
    return rev


def frl(xs):
    return ','.join(ic.fr(Fraction(x)) for x in xs)


def site_stabiliser(crys, chem, i0):
    return [g for g in crys.G if g.indexmap[chem][i0] == i0]


def jump_image(g, chem, i, j, dx):
    return g.indexmap[chem][i], g.indexmap[chem][j], np.dot(g.cartrot, dx)


def jump_stabiliser(crys, chem, i0, j0, dx0, thr=1e-8):
    out = []
    for g in crys.G:
        i, j, dx = jump_image(g, chem, i0, j0, dx0)
        if (i == i0 and j == j0 and np.allclose(dx, dx0, atol=thr)) or (i == j0 and j == i0 and np.allclose(dx, -dx0, atol=thr)):
            out.append(g)
    return out


def group_average(ops, P):
    S = 0.5 * (P + P.T)
    return sum(np.dot(g.cartrot, np.dot(S, g.cartrot.T)) for g in ops) / len(ops)


# ---------------------------------------------------------------- independent numpy site-space evaluation
def site_space_D(N, dim, invmap, jn, pre, be, preT, beT, sdip, jdip, lam, strain):
    """D at betaene*(1+lam), energies shifted by -P:strain, jump vectors (1+strain)dx; dense pinv."""
    bes = np.array([be[w] * (1 + lam) for w in invmap]) - np.array([np.sum(sdip[i] * strain) for i in range(N)])
    pr = np.array([pre[w] for w in invmap])
    lw = np.log(pr) - bes
    w = np.exp(lw - lw.max()); rho = w / w.sum()
    W = np.zeros((N, N)); Bv = np.zeros((N, dim)); D0 = np.zeros((dim, dim))
    F = np.eye(dim) + strain
    for k, cls in enumerate(jn):
        for m, ((i, j), dx) in enumerate(cls):
            bT = beT[k] * (1 + lam) - np.sum(jdip[k][m] * strain)
            r = rho[i] * preT[k] * np.exp(bes[i] - bT) / pr[i]
            d = np.dot(F, dx)
            W[i, j] += r; W[i, i] -= r; Bv[i] += r * d; D0 += 0.5 * r * np.outer(d, d)
    xi = -np.dot(np.linalg.pinv(W), Bv)
    return D0 - np.dot(xi.T, Bv)


def richardson(f, h):
    """central difference with one Richardson step: O(h^4)"""
    d1 = (f(h) - f(-h)) / (2 * h)
    d2 = (f(h / 2) - f(-h / 2)) / h
    return (4 * d2 - d1) / 3


# ---------------------------------------------------------------- oracles
def _key(i, j, dx):
    return (i, j) + tuple(int(round(x * 1e6)) for x in dx)


def population_oracle(ctx, name, crys, chem, diffuser, dip, dipT, rep):
    """direct statement of the population rule on siteDipoles / jumpDipoles; returns (sd, jd, ok)"""
    dim = crys.dim
    tol = 1e-9 * max(1., max(np.abs(p).max() for p in list(dip) + list(dipT)))
    sd = diffuser.siteDipoles(dip)
    jd = diffuser.jumpDipoles(dipT)
    state = dict(ok=True)

    def bad(sig, what, extra):
        state['ok'] = False
        ctx.violation(sig, what, dict(rep, **extra))

    def twofold2d(stab, got, want):
        """known defect class: 2-D, a two-fold rotation in the stabiliser, and the code kept only the isotropic part"""
        if dim != 2 or not any(np.allclose(g.cartrot, -np.eye(2)) for g in stab): return ''
        return ':2d-twofold'

    # sites
    for w, sites in enumerate(diffuser.sitelist):
        i0 = sites[0]
        stab = site_stabiliser(crys, chem, i0)
        want = group_average(stab, dip[w])
        if np.abs(sd[i0] - want).max() > tol:
            bad('population:site-projection' + twofold2d(stab, sd[i0], want),
                'siteDipoles: representative dipole is not the projection of the input on the symmetric tensors invariant '
                'under the site group', dict(wyckoff=w, site=i0, got=sd[i0].tolist(), want=want.tolist()))
        for i in sites:
            if np.abs(sd[i] - sd[i].T).max() > tol:
                bad('population:site-symmetric', 'siteDipoles: populated dipole not symmetric', dict(site=i, got=sd[i].tolist()))
        done = False
        for g in crys.G:
            for i in sites:
                gi = g.indexmap[chem][i]
                want = np.dot(g.cartrot, np.dot(sd[i], g.cartrot.T))
                if np.abs(sd[gi] - want).max() > tol:
                    bad('population:site-equivariance', 'siteDipoles: dipole of site g(i) is not R P_i R^T',
                        dict(site=i, image=gi, rot=g.cartrot.tolist(), got=sd[gi].tolist(), want=want.tolist()))
                    done = True; break
            if done: break
    # jumps
    for k, cls in enumerate(diffuser.jumpnetwork):
        (i0, j0), dx0 = cls[0]
        stab = jump_stabiliser(crys, chem, i0, j0, dx0)
        if any(not np.allclose(jump_image(g, chem, i0, j0, dx0)[2], dx0, atol=1e-8) for g in stab):
            ctx.count('population:jump-stabiliser-with-reversal')
        want = group_average(stab, dipT[k])
        if len(jd[k]) != len(cls):
            bad('population:jump-count', 'jumpDipoles: number of dipoles differs from the number of jumps in the class',
                dict(cls=k, got=len(jd[k]), want=len(cls)))
            continue
        if np.abs(jd[k][0] - want).max() > tol:
            bad('population:jump-projection' + twofold2d(stab, jd[k][0], want),
                'jumpDipoles: representative dipole is not the projection of the input on the symmetric tensors invariant '
                'under the jump group (reversal included)', dict(cls=k, got=jd[k][0].tolist(), want=want.tolist()))
        where = {_key(i, j, dx): m for m, ((i, j), dx) in enumerate(cls)}
        done = False
        for m, ((i, j), dx) in enumerate(cls):
            P = jd[k][m]
            if np.abs(P - P.T).max() > tol:
                bad('population:jump-symmetric', 'jumpDipoles: populated dipole not symmetric', dict(cls=k, jump=m, got=P.tolist()))
            mr = where.get(_key(j, i, -dx))
            if mr is None or np.abs(jd[k][mr] - P).max() > tol:
                bad('population:jump-reversal', 'jumpDipoles: a jump and its reverse carry different dipoles',
                    dict(cls=k, jump=m, reverse=mr, got=P.tolist(), got_reverse=None if mr is None else jd[k][mr].tolist()))
                done = True
            for g in crys.G:
                gi, gj, gdx = jump_image(g, chem, i, j, dx)
                m2 = where.get(_key(gi, gj, gdx))
                if m2 is None: m2 = where.get(_key(gj, gi, -gdx))
                want = np.dot(g.cartrot, np.dot(P, g.cartrot.T))
                if m2 is None or np.abs(jd[k][m2] - want).max() > tol:
                    bad('population:jump-equivariance', 'jumpDipoles: dipole of the image jump (or its reverse) is not R P R^T',
                        dict(cls=k, jump=m, image=m2, rot=g.cartrot.tolist(), got=None if m2 is None else jd[k][m2].tolist(), want=want.tolist()))
                    done = True; break
            if done: break
    ctx.count('population-checked')
    return sd, jd, state['ok']


def domega_terms(diffuser, args, sd, jd):
    """The last correlated term of elastodiffusion (OnsagerCalc.py: `Dp += tensordot(tensordot(VV, gamma_v), dg)`), recomputed from
    public pieces in two ways: as the code does it (omega' gamma projected on the symmetric vector basis) and in full site space."""
    pre, be, preT, beT = args
    N, dim = diffuser.N, diffuser.dim
    rho = diffuser.siteprob(pre, be); sq = np.sqrt(rho)
    rl = diffuser.ratelist(pre, be, preT, beT); srl = diffuser.symmratelist(pre, be, preT, beT)
    om = np.zeros((N, N)); bias = np.zeros((N, dim)); dom = np.zeros((N, N, dim, dim))
    for cls, rates, srates, dips in zip(diffuser.jumpnetwork, rl, srl, jd):
        for ((i, j), dx), r, sr, P in zip(cls, rates, srates, dips):
            om[i, j] += sr; om[i, i] -= r; bias[i] += sq[i] * r * dx
            dom[i, j] -= sr * (P - 0.5 * (sd[i] + sd[j])); dom[i, i] += r * (P - sd[i])
    VB = diffuser.VectorBasis
    NV = len(VB)
    om_v = np.array([[np.tensordot(va, np.dot(om, vb), ((0, 1), (0, 1))) for vb in VB] for va in VB])
    b_v = np.array([np.tensordot(bias, va, ((0, 1), (0, 1))) for va in VB])
    g_v = diffuser.bias_solver(om_v, b_v)
    g_i = sum(g * va for g, va in zip(g_v, VB))
    full = np.tensordot(np.tensordot(g_i, dom, ((0), (0))), g_i, ((1), (0))).transpose(0, 3, 1, 2)
    dom_v = np.zeros((NV, NV, dim, dim))
    for a, va in enumerate(VB):
        for b, vb in enumerate(VB):
            dom_v[a, b] = np.tensordot(va, np.tensordot(dom, vb, ((1), (0))), ((0, 1), (0, 3)))
    dg = np.tensordot(dom_v, g_v, ((1), (0)))
    proj = np.tensordot(np.tensordot(diffuser.VV, g_v, ((3), (0))), dg, ((2), (0)))
    return proj, full


def independent_dipoles(crys, chem, diffuser, jn, dip, dipT):
    """population done independently: group average at the representative, carried by any operation mapping it"""
    dim, N = crys.dim, diffuser.N
    sdip = np.zeros((N, dim, dim))
    for w, sites in enumerate(diffuser.sitelist):
        P0 = group_average(site_stabiliser(crys, chem, sites[0]), dip[w])
        for i in sites:
            g = next(g for g in crys.G if g.indexmap[chem][sites[0]] == i)
            sdip[i] = np.dot(g.cartrot, np.dot(P0, g.cartrot.T))
    jdip = []
    for k, cls in enumerate(jn):
        (i0, j0), dx0 = cls[0]
        P0 = group_average(jump_stabiliser(crys, chem, i0, j0, dx0), dipT[k])
        where = {}
        for g in crys.G:
            gi, gj, gdx = jump_image(g, chem, i0, j0, dx0)
            where.setdefault(_key(gi, gj, gdx), g); where.setdefault(_key(gj, gi, -gdx), g)
        lst = []
        for (i, j), dx in cls:
            g = where.get(_key(i, j, dx))
            lst.append(np.full((dim, dim), np.nan) if g is None else np.dot(g.cartrot, np.dot(P0, g.cartrot.T)))
        jdip.append(lst)
    return sdip, jdip


def fd_oracle(ctx, name, crys, chem, diffuser, jn, args, dip, dipT, sdip, jdip, D, DE, Dp, rep, data, real_code=True):
    """Richardson central differences: beta on the real code; beta and all strain components in numpy site space.
    Returns the number of violations raised."""
    pre, be, preT, beT = args
    dim, N = crys.dim, diffuser.N
    nv0 = len(ctx.violations)
    zero = np.zeros((dim, dim))
    f = lambda lam, e: site_space_D(N, dim, diffuser.invmap, jn, pre, be, preT, beT, sdip, jdip, lam, e)
    D_ss = f(0., zero)
    scale = max(np.abs(D_ss).max(), 1e-300)
    emag = max(1., max(abs(x) for x in list(be) + list(beT)))
    pmag = 1. + max(np.abs(p).max() for p in list(dip) + list(dipT))
    spread = min(ic.rate_spread(data), 1e9)
    tolD = 1e-9 * scale + 1e-13 * scale * spread
    if np.abs(D - D_ss).max() > tolD:
        ctx.violation('fd:D-mismatch:%s' % name, 'elastodiffusion/diffusivity D differs from the dense site-space solution',
                      dict(rep, D_impl=np.asarray(D).tolist(), D_oracle=D_ss.tolist()))
    h = 1e-2 / emag
    dDb = -richardson(lambda x: f(x, zero), h)
    tolE = (1e-6 + 1e-11 * spread) * scale * emag
    if np.abs(DE - dDb).max() > tolE:
        ctx.violation('fd:DE-not-derivative:%s' % name, 'CalcDeriv tensor differs from -dD/dbeta (Richardson central differences, '
                      'site-space oracle) by %.3g (tol %.3g)' % (np.abs(DE - dDb).max(), tolE),
                      dict(rep, DE_impl=np.asarray(DE).tolist(), minus_dD_dbeta=dDb.tolist()))
    if real_code:
        g = lambda x: diffuser.diffusivity(pre, [b * (1 + x) for b in be], preT, [b * (1 + x) for b in beT])
        dDr = -richardson(g, h)
        if np.abs(DE - dDr).max() > tolE:
            ctx.violation('fd:DE-not-derivative-realcode:%s' % name, 'CalcDeriv tensor differs from -dD/dbeta of Interstitial.diffusivity '
                          'itself (Richardson central differences) by %.3g (tol %.3g)' % (np.abs(DE - dDr).max(), tolE),
                          dict(rep, DE_impl=np.asarray(DE).tolist(), minus_dD_dbeta=dDr.tolist()))
    hs = 1e-2 / pmag
    tolP = (1e-6 + 1e-11 * spread) * scale * pmag
    FD = np.zeros((dim,) * 4)
    for c in range(dim):
        for d in range(c, dim):
            e = np.zeros((dim, dim)); e[c, d] += 0.5; e[d, c] += 0.5
            FD[:, :, c, d] = FD[:, :, d, c] = richardson(lambda x: f(0., x * e), hs)
    Dps = 0.5 * (Dp + Dp.transpose(0, 1, 3, 2))
    if np.abs(Dps - FD).max() > tolP:
        # classify: is it exactly the projected omega'-gamma term (known defect class)?
        sig = 'fd:elasto-not-derivative:%s' % name
        if diffuser.NV > 0:
            try:
                proj, full = domega_terms(diffuser, args, sdip, jdip)
                fixed = Dp - proj + full
                if np.abs(0.5 * (fixed + fixed.transpose(0, 1, 3, 2)) - FD).max() <= tolP:
                    sig = 'elasto:domega-projected:%s' % name
            except Exception:
                pass
        c, d = np.unravel_index(np.abs(Dps - FD).reshape(dim * dim, dim, dim).max(axis=0).argmax(), (dim, dim))
        ctx.violation(sig, 'elastodiffusion tensor differs from dD/d(strain) (Richardson central differences, site-space oracle), e.g. '
                      'strain component (%d,%d): by %.3g (tol %.3g)' % (c, d, np.abs(Dps - FD)[:, :, c, d].max(), tolP),
                      dict(rep, component=[int(c), int(d)], impl=Dps[:, :, c, d].tolist(), dD_de=FD[:, :, c, d].tolist()))
    if np.abs(Dp - Dp.transpose(0, 1, 3, 2)).max() > tolP * 1e-3 or np.abs(Dp - Dp.transpose(1, 0, 2, 3)).max() > tolP * 1e-3:
        ctx.violation('elasto-symmetry:%s' % name, 'elastodiffusion tensor not symmetric in its first or second index pair',
                      dict(rep, asym_ab=float(np.abs(Dp - Dp.transpose(1, 0, 2, 3)).max()), asym_cd=float(np.abs(Dp - Dp.transpose(0, 1, 3, 2)).max())))
    ctx.count('fd-checked')
    return len(ctx.violations) - nv0


# ---------------------------------------------------------------- cases
def build_cases(ctx, ncases, emax):
    cases = []
    nets = ic.networks()
    for t in range(ncases):
        name, crys, chem, sl, jn = nets[t % len(nets)]
        diffuser, ljumps = _diffuser(name, crys, chem, sl, jn)
        data = ic.rand_data(ctx.rng, len(sl), len(jn), emax=emax)
        style = ctx.rng.choice(['full', 'full', 'full', 'full', 'iso', 'zero'])
        dip = rand_dipoles(ctx.rng, len(sl), crys.dim, style)
        dipT = rand_dipoles(ctx.rng, len(jn), crys.dim, 'full' if style == 'zero' else style if ctx.rng.random() < 0.8 else 'full')
        cases.append((name, crys, chem, sl, jn, diffuser, ljumps, data, dip, dipT))
    return cases


def _rep(name, data, dip, dipT):
    return dict(network=name, data={k: [str(x) for x in v] if isinstance(v, list) else str(v) for k, v in data.items()},
                dipole=[p.tolist() for p in dip], dipoleT=[p.tolist() for p in dipT])


def run(ctx):
    emax = 4 if ctx.quick else 10
    cases = build_cases(ctx, 36 if ctx.quick else 600, emax)
    lines, aux = [], []
    for (name, crys, chem, sl, jn, diffuser, ljumps, data, dip, dipT) in cases:
        dim = crys.dim
        rep = _rep(name, data, dip, dipT)
        try:
            sd, jd, popok = population_oracle(ctx, name, crys, chem, diffuser, dip, dipT, rep)
        except Exception as e:
            ctx.violation('population-raises:%s' % type(e).__name__, 'siteDipoles/jumpDipoles raised %r' % (e,), rep)
            aux.append(None); lines.append('skip'); continue
        base = ic.request_line(diffuser.N, dim, diffuser.invmap, ljumps, data)
        rev = reverse_index(ljumps)
        # data sets: beta first, then every strain component (c,d)
        sets = [([Fraction(data['ene'][w]) for w in diffuser.invmap],
                 [Fraction(data['eneT'][k]) for k, cls in enumerate(jn) for _ in cls])]
        flatjd = [jd[k][m] for k, cls in enumerate(jn) for m in range(len(cls))]
        for c in range(dim):
            for d in range(dim):
                sig = [Fraction(float(sd[i][c, d])) for i in range(diffuser.N)]
                ts = [Fraction(float(P[c, d])) for P in flatjd]
                # the model demands reversal-invariant jump values exactly: average each (jump, reverse) pair
                # (their agreement to 1e-9 is part of the population oracle above)
                ts2 = list(ts)
                for m, r in enumerate(rev):
                    if r is not None: ts2[m] = (ts[m] + ts[r]) / 2
                sets.append((sig, ts2))
        lines.append(base + ''.join(' # %s ; %s' % (frl(s), frl(t)) for s, t in sets))
        aux.append((sd, jd, popok))
    todo = [(i, l) for i, l in enumerate(lines) if l != 'skip']
    mal_lines, mal_plan = malformed(ctx)
    allans = ctx.lean(DRIVER, [l for _, l in todo] + mal_lines, timeout=3000)   # one driver start-up for everything
    answers = dict(zip([i for i, _ in todo], allans))
    for (name, which), ans in zip(mal_plan, allans[len(todo):]):
        if ans != 'invalid':
            ctx.disagree('model accepts a malformed data set (%s, %s): %s' % (name, which, ans[:60]), dict(network=name, which=which))
    nfd = 0
    for idx, (name, crys, chem, sl, jn, diffuser, ljumps, data, dip, dipT) in enumerate(cases):
        if aux[idx] is None: continue
        sd, jd, popok = aux[idx]
        dim = crys.dim
        rep = _rep(name, data, dip, dipT)
        args = ic.py_args(data)
        lnq = math.log(float(data['q']))
        try:
            D, DE = diffuser.diffusivity(*args, CalcDeriv=True)
            D2, Dp = diffuser.elastodiffusion(args[0], args[1], dip, args[2], args[3], dipT)
        except Exception as e:
            ctx.violation('derivative-raises:%s' % type(e).__name__, 'diffusivity(CalcDeriv)/elastodiffusion raised %r on valid input' % (e,), rep)
            continue
        ans = answers[idx]
        if not ans.startswith('ok '):
            ctx.disagree('exact model rejects (%s) input that the implementation accepts' % ans, dict(rep, request=lines[idx][:400]))
            continue
        parts = [p.strip() for p in ans[3:].split('|')]
        L = crys.lattice
        cart = lambda s: L @ np.array([float(Fraction(x)) for x in s.split(',')]).reshape(dim, dim) @ L.T
        Dm = cart(parts[0])
        DEm = lnq * cart(parts[1])
        Dpm = np.zeros((dim,) * 4)
        for n, (c, d) in enumerate(itertools.product(range(dim), repeat=2)):
            Dpm[:, :, c, d] = cart(parts[2 + n])
        for a, b, c, d in itertools.product(range(dim), repeat=4):   # geometric part (eD + De^T), symmetrised in (c,d) as the code does
            if a == c: Dpm[a, b, c, d] += 0.5 * Dm[b, d]
            if a == d: Dpm[a, b, c, d] += 0.5 * Dm[b, c]
            if b == c: Dpm[a, b, c, d] += 0.5 * Dm[a, d]
            if b == d: Dpm[a, b, c, d] += 0.5 * Dm[a, c]
        scale = max(np.abs(Dm).max(), 1e-300)
        spread = min(ic.rate_spread(data), 1e9)
        emag = max(1., max(abs(x) for x in list(args[1]) + list(args[3])))
        pmag = 1. + max(np.abs(p).max() for p in list(dip) + list(dipT))
        tol = 1e-9 * scale + 1e-13 * scale * spread
        corr = diffuser.NV > 0
        split = max([np.abs(sd[i] - sd[s[0]]).max() for s in sl for i in s] + [np.abs(P - ps[0]).max() for ps in jd for P in ps]) > 1e-9   # equivalent sites/jumps, different dipoles
        nontriv = (np.abs(DEm).max() > 1e-9 * scale) and (corr or len(sl) > 1 or len(jn) > 1)
        ctx.case((name, lines[idx]), nontrivial=bool(nontriv),
                 sample=dict(network=name, request=lines[idx][:160], DE_model=DEm.tolist(), DE_impl=np.asarray(DE).tolist()))
        ctx.count('net:' + name); ctx.count('branch:' + ('solve' if diffuser.omega_invertible else 'pinv') + (':NV>0' if corr else ':NV=0'))
        if corr and split: ctx.count('correlated+orientation-split-dipoles')
        fails = []
        if np.abs(D - Dm).max() > tol: fails.append(('D', D, Dm, tol))
        if np.abs(D2 - Dm).max() > tol: fails.append(('D-elasto', D2, Dm, tol))
        if np.abs(DE - DEm).max() > tol * emag: fails.append(('DE', DE, DEm, tol * emag))
        if np.abs(Dp - Dpm).max() > tol * pmag: fails.append(('Dp', Dp, Dpm, tol * pmag))
        # finite differences: with independently populated dipoles when the population rule held, else with the code's own
        sdi, jdi = independent_dipoles(crys, chem, diffuser, jn, dip, dipT) if popok else (sd, jd)
        if fails:
            # arbitrate with the independent finite-difference oracle (it raises the violation if the code is wrong)
            nnew = fd_oracle(ctx, name, crys, chem, diffuser, jn, args, dip, dipT, sdi, jdi, D2, DE, Dp, rep, data)
            what, got, want, tl = fails[0]
            if nnew == 0:
                ctx.disagree('%s: implementation and exact model differ by %.3g (tol %.3g) but the finite-difference oracle sides with the '
                             'implementation' % (what, np.abs(got - want).max(), tl),
                             dict(rep, impl=np.asarray(got).tolist(), model=np.asarray(want).tolist()))
            else:
                ctx.violations[-1]['replay']['model_' + what] = np.asarray(want).tolist()
        elif nfd < (8 if ctx.quick else 120) and ctx.budget_left() > 40:
            nfd += 1
            fd_oracle(ctx, name, crys, chem, diffuser, jn, args, dip, dipT, sdi, jdi, D2, DE, Dp, rep, data)


def malformed(ctx):
    """wrong-length argument lists: the implementation raises IndexError, the model must answer invalid
    (returns the model requests; the caller sends them with the main batch)"""
    nets = ic.networks()
    lines, plan = [], []
    for t in range(4 if ctx.quick else 24):
        name, crys, chem, sl, jn = nets[ctx.rng.randrange(len(nets))]
        diffuser, ljumps = _diffuser(name, crys, chem, sl, jn)
        data = ic.rand_data(ctx.rng, len(sl), len(jn), emax=2)
        dip = rand_dipoles(ctx.rng, len(sl), crys.dim, 'full'); dipT = rand_dipoles(ctx.rng, len(jn), crys.dim, 'full')
        which = ctx.rng.choice(['dipole', 'dipoleT', 'ene'])
        args = ic.py_args(data)
        try:
            if which == 'dipole': diffuser.elastodiffusion(args[0], args[1], dip + [dip[0]], args[2], args[3], dipT)
            elif which == 'dipoleT': diffuser.elastodiffusion(args[0], args[1], dip, args[2], args[3], dipT[:-1])
            else: diffuser.diffusivity(args[0], list(args[1]) + [0.], args[2], args[3], CalcDeriv=True)
            raised = None
        except IndexError as e:
            raised = 'IndexError'
        except Exception as e:
            raised = type(e).__name__
        ctx.count('malformed:' + which)
        ctx.case(('malformed', name, which, t), nontrivial=True)
        if raised != 'IndexError':
            ctx.violation('malformed-accepted:%s' % which, 'wrong-length %s list: expected IndexError, got %s' % (which, raised),
                          dict(network=name, which=which))
        # model side: one value too many in sigma / too few in t
        base = ic.request_line(diffuser.N, crys.dim, diffuser.invmap, ljumps, data)
        nj = sum(len(c) for c in jn)
        sig = [Fraction(0)] * (diffuser.N + (1 if which != 'dipoleT' else 0))
        ts = [Fraction(1)] * (nj - (1 if which == 'dipoleT' else 0))
        lines.append(base + ' # %s ; %s' % (frl(sig), frl(ts))); plan.append((name, which))
    return lines, plan


def search(ctx, reasons):
    """A proof obligation or the correspondence broke: look for a concrete failing input with the direct oracles only."""
    for (name, crys, chem, sl, jn, diffuser, ljumps, data, dip, dipT) in build_cases(ctx, 48 if ctx.quick else 400, 4):
        rep = _rep(name, data, dip, dipT)
        args = ic.py_args(data)
        sd, jd, popok = population_oracle(ctx, name, crys, chem, diffuser, dip, dipT, rep)
        D, DE = diffuser.diffusivity(*args, CalcDeriv=True)
        D2, Dp = diffuser.elastodiffusion(args[0], args[1], dip, args[2], args[3], dipT)
        sdi, jdi = independent_dipoles(crys, chem, diffuser, jn, dip, dipT) if popok else (sd, jd)
        fd_oracle(ctx, name, crys, chem, diffuser, jn, args, dip, dipT, sdi, jdi, D2, DE, Dp, rep, data)
        if ctx.budget_left() < 20: break
