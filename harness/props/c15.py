"""
C15 — Tag input maps exactly onto symmetry classes.

Tie: (a) translator: the tag format constants and the two phase tuples of tags2preene (and the position of the
makeLIMBpreene back-fill between them) are read from onsager/OnsagerCalc.py with `ast` into
Generated/C15Facts.lean; OnsagerProofs/C15Tie.lean proves they are the modelled ones.  (b) correspondence: the
real tags of interstitial and vacancy calculators on the crystal zoo go through the model's mkTagDict and the
model's `{:+06.3f}` on exact rationals; random user dictionaries (random subsets, random member, duplicates,
bogus tags, malformed values) go through the real tags2preene(VERBOSE=True) and the model; everything is
compared exactly.  (c) direct oracles state the property on the implementation's outputs.
"""
import os
for _v in ('OPENBLAS_NUM_THREADS', 'OMP_NUM_THREADS', 'MKL_NUM_THREADS'):
    os.environ.setdefault(_v, '1')      # bit-exact comparisons: no thread-scheduling effects in BLAS/LAPACK reductions
import ast, os, fractions
import numpy as np
from . import _c13_common as cm

META = dict(
    id='C15',
    level_text='Kernel-checked theorems for the tag dictionary (built iff all generated tags are distinct; then every tag '
               'maps to its class and type), for tags2preene (any single member tag of a class reproduces exactly the '
               "user's data; on several members the first in class order wins; omega1/omega2 data override the LIMB "
               'back-fill; untouched classes keep default/LIMB values), for the verbose report (missing / duplicate / bad '
               'are exactly the classes with 0 / >=2 user tags and the unknown tags) and for the numeric format (injective '
               'on sign and rounded thousandths; coordinates further apart than 1/1000 get different text). The phase '
               'structure and format strings are re-read from the source on every run and real calculators are run '
               'against the model with exact comparison. Partial: uniqueness of composite tags is checked at run time '
               '(model mkTagDict on the real tags), not proved from geometry; float formatting is modelled on the exact rational.',
    level_note='Trusted: Lean kernel + standard axioms; Python ast extraction of constants and loop structure; '
               "CPython's correctly rounded float formatting is compared with, not derived from, the rational model.",
    technique='Lean 4 proofs about the tag dictionary / two-phase fill / report + ast-translated phase structure + differential user dictionaries',
    lean_modules=['OnsagerModel.C15', 'OnsagerProofs.C15', 'Generated.C15Facts', 'OnsagerProofs.C15Tie'],
    theorems=['Onsager.C15.mkTagDict_ok_iff_nodup', 'Onsager.C15.tagdict_lookup', 'Onsager.C15.tagdict_unique',
              'Onsager.C15.first_listed_wins', 'Onsager.C15.one_member_suffices', 'Onsager.C15.no_member_default',
              'Onsager.C15.fillClass_source', 'Onsager.C15.fillType_get', 'Onsager.C15.omega12_override_after_limb',
              'Onsager.C15.omega1_entry', 'Onsager.C15.usersOf_eq_members', 'Onsager.C15.report_exact',
              'Onsager.C15.fmtMilli_injective', 'Onsager.C15.milli_nearest', 'Onsager.C15.milli_close',
              'Onsager.C15.fmt_injective_on_grid'],
    tie_theorems=['Onsager.C15.src_formats_are_model', 'Onsager.C15.src_phases_are_model'],
    rule='calculators: Interstitial and VacancyMediated on the crystal zoo (2-D, cubic, hexagonal, multi-site, low '
         'symmetry) plus crystals with coordinates on rounding boundaries; user dictionaries: random subset of classes, '
         'random member tag(s) per class, injected duplicates, bogus tags, malformed values; object reuse: several calculators '
         '(both kinds, other cutoffs, sub-networks, other species) built in sequence from ONE Crystal object, each compared with '
         'the one built from a new Crystal; a case is one '
         '(calculator, dictionary); non-trivial = at least one class supplied and at least one not; distinct by content',
    trusted=['Python ast extraction of format constants and tags2preene loop structure (harness/props/c15.py: extract)',
             'float -> exact rational via float.as_integer_ratio; user values are floats (ints would be converted by numpy)'],
    assumptions=['user values are pairs of Python floats (other arities are exercised as the malformed stream)',
                 'tags contain none of the protocol separators ~ = ; | and no blanks (asserted at run time)'],
)

DRIVER = 'Drive/C15.lean'
PHASE1 = ['vacancy', 'solute', 'solute-vacancy', 'omega0']
PHASE2 = ['omega1', 'omega2']
NAMES = {'vacancy': ('preV', 'eneV'), 'solute': ('preS', 'eneS'), 'solute-vacancy': ('preSV', 'eneSV'),
         'omega0': ('preT0', 'eneT0'), 'omega1': ('preT1', 'eneT1'), 'omega2': ('preT2', 'eneT2')}
SHORT = {'vacancy': 'v', 'solute': 's', 'solute-vacancy': 'sv', 'omega0': 't0', 'omega1': 't1', 'omega2': 't2'}


# ---------------------------------------------------------------- translator
def _lean_str(s):
    return '"' + s.replace('\\', '\\\\').replace('"', '\\"') + '"'


def extract(repo):
    src = open(os.path.join(repo, 'onsager', 'OnsagerCalc.py')).read()
    tree = ast.parse(src)
    consts = {}
    for st in tree.body:
        if isinstance(st, ast.Assign) and len(st.targets) == 1 and isinstance(st.targets[0], ast.Name) \
                and isinstance(st.value, ast.Constant) and isinstance(st.value.value, str):
            consts[st.targets[0].id] = st.value.value
    want = ['INTERSTITIAL_TAG', 'TRANSITION_TAG', 'SOLUTE_TAG', 'VACANCY_TAG', 'SINGLE_DEFECT_TAG_3D',
            'SINGLE_DEFECT_TAG_2D', 'DOUBLE_DEFECT_TAG', 'OM0_TAG', 'OM1_TAG', 'OM2_TAG']
    fn = next(n for cls in ast.walk(tree) if isinstance(cls, ast.ClassDef) and cls.name == 'VacancyMediated'
              for n in cls.body if isinstance(n, ast.FunctionDef) and n.name == 'tags2preene')
    # top-level statements: For (phase 1), Expr thermodict.update(self.makeLIMBpreene(**thermodict)), For (phase 2)
    phases, limb_pos, order = [], None, []
    for st in fn.body:
        if isinstance(st, ast.For) and isinstance(st.iter, ast.Tuple) and \
                all(isinstance(e, ast.Tuple) and len(e.elts) == 3 and all(isinstance(x, ast.Constant) for x in e.elts)
                    for e in st.iter.elts):
            # inner structure: for i, tags in enumerate(self.tags[tagstring]): for t in tags: if t in usertagdict: assign; break
            inner_ok = False
            try:
                f2 = st.body[0]; f3 = f2.body[0]; cond = f3.body[0]
                inner_ok = (isinstance(f2, ast.For) and ast.unparse(f2.iter) == 'enumerate(self.tags[%s])' % st.target.elts[0].id
                            and isinstance(f3, ast.For) and isinstance(cond, ast.If)
                            and ast.unparse(cond.test) == '%s in usertagdict' % f3.target.id
                            and isinstance(cond.body[-1], ast.Break) and len(cond.body) == 2
                            and ast.unparse(cond.body[0]) ==
                            'thermodict[{p}][i], thermodict[{e}][i] = usertagdict[{t}]'.format(
                                p=st.target.elts[1].id, e=st.target.elts[2].id, t=f3.target.id))
            except Exception:
                inner_ok = False
            phases.append(([tuple(x.value for x in e.elts) for e in st.iter.elts], inner_ok))
            order.append('phase')
        elif isinstance(st, ast.Expr) and 'makeLIMBpreene' in ast.unparse(st):
            limb_ok = ast.unparse(st) == 'thermodict.update(self.makeLIMBpreene(**thermodict))'
            order.append('limb' if limb_ok else 'limb?')
        elif isinstance(st, ast.If) and 'VERBOSE' in ast.unparse(st.test):
            order.append('return')
            break
    ok = (order == ['phase', 'limb', 'phase', 'return'] and len(phases) == 2 and all(p[1] for p in phases))
    p1 = phases[0][0] if len(phases) > 0 else []
    p2 = phases[1][0] if len(phases) > 1 else []
    triple = lambda t: '(%s, %s, %s)' % tuple(_lean_str(x) for x in t)
    txt = ['/- GENERATED by harness/props/c15.py from onsager/OnsagerCalc.py on every run. -/',
           'namespace Generated.C15']
    for w in want:
        txt.append('def %s : String := %s' % (w, _lean_str(consts.get(w, '<missing>'))))
    txt.append('/-- statement order of tags2preene up to the VERBOSE test: %s -/' % ' '.join(order))
    txt.append('def structureOk : Bool := %s' % ('true' if ok else 'false'))
    txt.append('def phase1 : List (String × String × String) := [%s]' % ', '.join(triple(t) for t in p1))
    txt.append('def phase2 : List (String × String × String) := [%s]' % ', '.join(triple(t) for t in p2))
    txt.append('end Generated.C15')
    return {'C15Facts.lean': '\n'.join(txt) + '\n'}


# ---------------------------------------------------------------- encoding
def _frac(x):
    f = fractions.Fraction(float(x))
    return ('%d/%d' % (f.numerator, f.denominator)) if f.denominator != 1 else str(f.numerator)


def _coords(u):
    return ' '.join('%d %s' % (1 if (x == 0 and np.signbit(x)) else 0, _frac(x)) for x in u)


def _check_tag(t):
    assert t and not any(c in t for c in '~=;| \t\n'), 'tag %r contains a protocol separator' % (t,)
    return t


def _tags_text(tags):
    parts = []
    for ty, classes in tags.items():
        cl = ';'.join((' '.join(_check_tag(t) for t in c) if c else '_') for c in classes) if classes else '-'
        parts.append('%s=%s' % (ty, cl))
    return '~'.join(parts)


def _hx(x):
    return float(x).hex()


def _user_text(user):
    if not user: return '-'
    return ';'.join(' '.join([_check_tag(t)] + [_hx(x) for x in v]) for t, v in user.items())


def _pairs_text(pre, ene):
    if len(pre) == 0: return '-'
    return ';'.join('%s %s' % (_hx(p), _hx(e)) for p, e in zip(pre, ene))


def _classes_text(classes):
    if not classes: return '-'
    return ';'.join((' '.join(c) if c else '_') for c in classes)


# ---------------------------------------------------------------- calculators
def _special_crystals():
    """coordinates on rounding boundaries / sign cases / near-duplicate sites (ValueError expected from generatetags)"""
    from onsager import crystal
    out = []
    out.append(('near-dup3', crystal.Crystal(np.eye(3), [[np.array([0.1, 0, 0]), np.array([0.1004, 0, 0])]]), 0, 0.0))
    out.append(('near-dup2', crystal.Crystal(np.eye(2), [[np.array([0.2, 0.1]), np.array([0.2, 0.1003])]]), 0, 0.0))
    out.append(('half-milli', crystal.Crystal(np.diag([1, 1, 1.5]), [[np.array([0.0625, 0.1875, 0.3125]),
                                                                     np.array([0.5625, 0.6875, 0.8125])]]), 0, 0.8))
    out.append(('tiny-neg', crystal.Crystal(np.eye(2), [[np.array([-0.0002, 0.5]), np.array([0.3, 0.9996])]]), 0, 0.8))
    out.append(('k2000', crystal.Crystal(np.diag([1.0, 1.1, 1.2]), [[np.array([1 / 2000, 3 / 2000, 0.25]),
                                                                    np.array([0.5, 0.5 + 1 / 2000, 0.75])]]), 0, 0.9))
    return out


def _interstitial_crystals():
    """host + interstitial sublattice on lattices whose matrix is NOT symmetric (hexagonal, monoclinic, oblique 2-D)"""
    from onsager import crystal
    out = []
    hcp = crystal.Crystal.HCP(1.0, chemistry='Ti')
    out.append(('hcp-octa', hcp.addbasis(hcp.Wyckoffpos(np.array([0., 0., 0.5])), chemistry=['O']), 1, 0.95))
    out.append(('hcp-octa-tet', hcp.addbasis(hcp.Wyckoffpos(np.array([0., 0., 0.5])) + hcp.Wyckoffpos(np.array([1 / 3, 2 / 3, 0.625])),
                                             chemistry=['O']), 1, 0.7))
    mono = crystal.Crystal(np.array([[1, 0, .3], [0, 1.1, 0], [0, 0, .9]]), [[np.zeros(3)], [np.array([.5, .25, .5]), np.array([.5, .75, .5])]],
                           chemistry=['M', 'X'])
    out.append(('mono-int', mono, 1, 0.8))
    obl = crystal.Crystal(np.array([[1, .35], [0, .8]]), [[np.zeros(2)], [np.array([.5, .5]), np.array([.25, .1]), np.array([.75, .9])]],
                          chemistry=['M', 'X'])
    out.append(('oblique2-int', obl, 1, 0.75))
    return out


def _calculators(ctx):
    """yield (label, kind, calculator or exception, tags-if-any)"""
    from onsager import OnsagerCalc
    names = cm.QUICK_NAMES if ctx.quick else cm.ALL_NAMES
    for name in names:
        yield ('I:' + name, 'interstitial', cm.make_interstitial(name))
        if ctx.quick and name in ('hcp',):
            yield ('V:' + name, 'vacancy', cm.make_vm(name, Nthermo=1))
            continue
        yield ('V:' + name, 'vacancy', cm.make_vm(name, Nthermo=1))
    if not ctx.quick:
        for name in ('sq', 'fcc', 'hon', 'b2'):
            yield ('V2:' + name, 'vacancy', cm.make_vm(name, Nthermo=2))
    for label, crys, chem, cut in _interstitial_crystals():
        yield ('I:' + label, 'interstitial', OnsagerCalc.Interstitial(crys, chem, crys.sitelist(chem), crys.jumpnetwork(chem, cut)))
    for label, crys, chem, cut in _special_crystals():
        sl = crys.sitelist(chem)
        jn = crys.jumpnetwork(chem, cut) if cut > 0 else []
        try:
            yield ('I:' + label, 'interstitial', OnsagerCalc.Interstitial(crys, chem, sl, jn))
        except ValueError as e:
            yield ('I:' + label, 'interstitial-error', (crys, chem, sl, jn, e))


def _expected_single_tags(d, kind):
    """(type letter, coordinate vector, python tag) for all single-defect tags"""
    basis = d.crys.basis[d.chem]
    out = []
    if kind == 'interstitial':
        for sites, tags in zip(d.sitelist, d.tags['states']):
            for s, t in zip(sites, tags): out.append(('i', basis[s], t))
    else:
        for letter, ty in (('v', 'vacancy'), ('s', 'solute')):
            for sites, tags in zip(d.sitelist, d.tags[ty]):
                for s, t in zip(sites, tags): out.append((letter, basis[s], t))
    return out


# ---------------------------------------------------------------- direct oracles
def _oracle_tags(ctx, label, d):
    """every generated tag is unique and names exactly one class; tagdict / tagdicttype agree"""
    seen = {}
    for ty, classes in d.tags.items():
        for i, cls in enumerate(classes):
            if len(cls) == 0:
                ctx.violation('empty-class:' + ty, 'class without any tag', dict(calculator=label, type=ty, index=i))
            for t in cls:
                if t in seen:
                    ctx.violation('tag-not-unique', 'tag %s names two classes' % t,
                                  dict(calculator=label, tag=t, first=seen[t], second=(ty, i)))
                seen[t] = (ty, i)
    for t, (ty, i) in seen.items():
        if d.tagdict.get(t) != i or d.tagdicttype.get(t) != ty:
            ctx.violation('tagdict-wrong', 'tagdict/tagdicttype do not map %s to its class' % t,
                          dict(calculator=label, tag=t, expected=(ty, i), got=(d.tagdicttype.get(t), d.tagdict.get(t))))
    if set(d.tagdict) != set(seen):
        ctx.violation('tagdict-extra', 'tagdict has keys that are no generated tag', dict(calculator=label))
    return seen


_POS = None


def _parse_tag(tag):
    """the positions a tag names, in order of appearance: [(letter, unit-cell coordinates)]"""
    global _POS
    import re
    if _POS is None:
        _POS = re.compile(r'([a-z]):([+-]\d+\.\d{3}(?:,[+-]\d+\.\d{3})*)')
    return [(m.group(1), np.array([float(x) for x in m.group(2).split(',')])) for m in _POS.finditer(tag)]


def _named_geometry(d, kind):
    """What every tag has to name, derived from the calculator's geometry (site list, jump networks, star sets) and NOT
    from generatetags: yields (type, class index, member index, [(letter, exact unit-cell position)],
    [(index of start position, index of end position, Cartesian vector between them)])."""
    crys, basis = d.crys, d.crys.basis[d.chem]
    inv = crys.invlatt
    if kind == 'interstitial':
        for k, sites in enumerate(d.sitelist):
            for m, s in enumerate(sites): yield 'states', k, m, [('i', basis[s])], []
        for k, jl in enumerate(d.jumpnetwork):
            for m, ((i, j), dx) in enumerate(jl):
                yield 'transitions', k, m, [('i', basis[i]), ('i', basis[i] + np.dot(inv, dx))], [(0, 1, dx)]
        return
    for letter, ty in (('v', 'vacancy'), ('s', 'solute')):
        for k, sites in enumerate(d.sitelist):
            for m, s in enumerate(sites): yield ty, k, m, [(letter, basis[s])], []
    for k, star in enumerate(d.thermo.stars):
        for m, si in enumerate(star):
            PS = d.thermo.states[si]
            yield 'solute-vacancy', k, m, [('s', basis[PS.i]), ('v', basis[PS.j] + PS.R)], [(0, 1, PS.dx)]
    for k, jl in enumerate(d.om0_jn):
        for m, ((i, j), dx) in enumerate(jl):
            yield 'omega0', k, m, [('v', basis[i]), ('v', basis[i] + np.dot(inv, dx))], [(0, 1, dx)]
    for k, jl in enumerate(d.om1_jn):
        for m, ((i, j), dx) in enumerate(jl):
            P1, P2 = d.kinetic.states[i], d.kinetic.states[j]
            yield 'omega1', k, m, [('s', basis[P1.i]), ('v', basis[P1.j] + P1.R), ('v', basis[P2.j] + P2.R)], \
                [(0, 1, P1.dx), (0, 2, P2.dx), (1, 2, dx)]
    for k, jl in enumerate(d.om2_jn):
        for m, ((i, j), dx) in enumerate(jl):
            P1, P2 = d.kinetic.states[i], d.kinetic.states[j]
            yield 'omega2', k, m, [('s', basis[P1.i]), ('v', basis[P1.j] + P1.R), ('s', basis[P2.i]), ('v', basis[P2.j] + P2.R)], \
                [(0, 1, P1.dx), (2, 3, P2.dx)]


def _oracle_tag_geometry(ctx, label, kind, d):
    """read the tag TEXT: every position a tag names is the site / end point of the state or transition it indexes
    (to the printed precision), is a site of the crystal, and the Cartesian vectors between named positions are the jump /
    pair vectors of that class member."""
    crys, basis = d.crys, d.crys.basis[d.chem]
    latt = crys.lattice
    tolu = 0.0005 + 1e-9
    tolx = 0.001 * float(np.max(np.sum(np.abs(latt), axis=1))) + 1e-9
    nbad = 0
    for ty, k, m, want, vecs in _named_geometry(d, kind):
        ctx.count('tag-geometry-checked')
        try:
            tag = d.tags[ty][k][m]
        except (KeyError, IndexError):
            ctx.violation('tag-missing:' + ty, 'no tag for member %d of class %d' % (m, k), dict(calculator=label, type=ty)); continue
        got = _parse_tag(tag)
        rep = dict(calculator=label, type=ty, index=k, member=m, tag=tag,
                   expected=[[l, [round(float(x), 6) for x in u]] for l, u in want],
                   lattice=latt.tolist(), basis=[u.tolist() for u in basis])
        bad = None
        if ty.startswith('omega') and not tag.startswith(ty + ':'): bad = 'prefix'
        elif len(got) != len(want) or any(g[0] != w[0] or len(g[1]) != len(w[1]) for g, w in zip(got, want)): bad = 'structure'
        elif any(np.max(np.abs(g[1] - w[1])) > tolu for g, w in zip(got, want)): bad = 'position'
        else:
            for g in got:        # a site of the crystal, up to a lattice translation
                if not any(np.max(np.abs((g[1] - u) - np.round(g[1] - u))) <= tolu for u in basis): bad = 'not-a-site'
            for a, b, dx in vecs:
                if np.max(np.abs(np.dot(latt, got[b][1] - got[a][1]) - dx)) > tolx: bad = bad or 'vector'
        if bad:
            nbad += 1
            if nbad <= 3:
                ctx.violation('tag-names-wrong-%s:%s' % (bad, ty),
                              'tag %s does not name the %s member it indexes (%s)' % (tag, ty, bad), rep)
    # as many tag classes and members as the calculator's geometry has, type by type
    shape = {}
    for ty, k, m, want, vecs in _named_geometry(d, kind):
        shape.setdefault(ty, {}); shape[ty][k] = shape[ty].get(k, 0) + 1
    for ty, classes in d.tags.items():
        geo = [shape.get(ty, {}).get(k, 0) for k in range(max(shape.get(ty, {}).keys(), default=-1) + 1)]
        if [len(c) for c in classes] != geo:
            ctx.violation('tag-classes-do-not-match-geometry:' + ty,
                          'tags[%s] has classes of sizes %s, the calculator has %s' % (ty, [len(c) for c in classes], geo),
                          dict(calculator=label, type=ty, tags=[list(c) for c in classes][:6]))
    # tags of one class are pairwise distinct, and the classes of one type are as many as the geometry has
    for ty, classes in d.tags.items():
        for k, cls in enumerate(classes):
            if len(set(cls)) != len(cls):
                ctx.violation('tag-repeated-in-class:' + ty, 'a class lists the same tag twice', dict(calculator=label, type=ty, index=k))


def _oracle_t2p(ctx, label, d, user, result, seen, limb_out):
    """the property clauses on the implementation's own output"""
    thermo, missing, dup, bad = result
    rep = dict(calculator=label, user={t: [_hx(x) for x in v] for t, v in user.items()})
    by_class = {}
    for t in user:
        if t in seen: by_class.setdefault(seen[t], []).append(t)
    for ty, classes in d.tags.items():
        pn, en = NAMES[ty]
        for i, cls in enumerate(classes):
            got = (thermo[pn][i], thermo[en][i])
            given = by_class.get((ty, i), [])
            if len(given) == 1 and len(user[given[0]]) != 2:
                pass        # malformed value that the call survived: left to the model/implementation comparison
            elif len(given) == 1:
                want = user[given[0]]
                if not (cm.same_bits(np.float64(got[0]), np.float64(want[0])) and cm.same_bits(np.float64(got[1]), np.float64(want[1]))):
                    ctx.violation('single-member-not-reproduced:' + ty, 'data given under one member tag is not what comes out',
                                  dict(rep, tag=given[0], type=ty, index=i, got=[_hx(got[0]), _hx(got[1])]))
            elif len(given) == 0:
                want = (1.0, 0.0) if ty in PHASE1 else (limb_out[pn][i], limb_out[en][i])
                if not (cm.same_bits(np.float64(got[0]), np.float64(want[0])) and cm.same_bits(np.float64(got[1]), np.float64(want[1]))):
                    ctx.violation('unsupplied-class-changed:' + ty, 'class without user data does not hold the default / LIMB value',
                                  dict(rep, type=ty, index=i, got=[_hx(got[0]), _hx(got[1])]))
            else:
                if not any(len(user[g]) == 2 and cm.same_bits(np.float64(got[0]), np.float64(user[g][0])) and
                           cm.same_bits(np.float64(got[1]), np.float64(user[g][1])) for g in given):
                    ctx.violation('duplicate-class-foreign-data:' + ty, 'class given twice holds data of neither tag',
                                  dict(rep, type=ty, index=i))
    want_missing = {}
    for ty, classes in d.tags.items():
        for i, cls in enumerate(classes):
            if (ty, i) not in by_class: want_missing.setdefault(ty, []).append(list(cls))
    got_missing = {k: [list(c) for c in v] for k, v in missing.items()}
    if {k: sorted(v) for k, v in got_missing.items()} != {k: sorted(v) for k, v in want_missing.items()}:
        ctx.violation('report-missing-wrong', 'missingdict is not exactly the classes without user data',
                      dict(rep, got=got_missing, want=want_missing))
    want_dup = sorted(sorted(v) for v in by_class.values() if len(v) > 1)
    if sorted(sorted(v) for v in dup) != want_dup:
        ctx.violation('report-duplicate-wrong', 'duplicatelist is not exactly the classes given more than once',
                      dict(rep, got=[list(v) for v in dup], want=want_dup))
    if sorted(bad) != sorted(t for t in user if t not in seen):
        ctx.violation('report-bad-wrong', 'badtaglist is not exactly the unrecognised tags',
                      dict(rep, got=list(bad), want=sorted(t for t in user if t not in seen)))


# ---------------------------------------------------------------- user dictionaries
def _rand_user(rng, d, malformed, other_tags):
    classes = [(ty, i, cls) for ty, cl in d.tags.items() for i, cls in enumerate(cl)]
    style = rng.random()
    p_take = 0.0 if style < 0.05 else (1.0 if style < 0.15 else rng.random())
    items = []
    for ty, i, cls in classes:
        if rng.random() < p_take:
            k = 1
            if len(cls) > 1 and rng.random() < 0.25: k = rng.randint(2, min(3, len(cls)))   # injected duplicates
            same = (k > 1 and rng.random() < 0.5)     # a class given twice with IDENTICAL data is still a duplicate
            shared = (float(np.float64(rng.lognormvariate(0, 0.5))), float(np.float64(rng.gauss(0, 1))))
            for t in rng.sample(list(cls), k):
                items.append((t, shared if same else (float(np.float64(rng.lognormvariate(0, 0.5))), float(np.float64(rng.gauss(0, 1))))))
    nbogus = rng.choice([0, 0, 1, 2, 3])
    for _ in range(nbogus):
        r = rng.random()
        if r < 0.4 and items: t = items[rng.randrange(len(items))][0] + 'x'          # near miss
        elif r < 0.7 and other_tags: t = rng.choice(other_tags)                      # tag of another calculator
        else: t = 'bogus:%d' % rng.randrange(1000)
        items.append((t, (rng.random(), rng.random())))
    rng.shuffle(items)
    user = {}
    for t, v in items: user.setdefault(t, v)
    if malformed and user:
        for t in rng.sample(list(user), min(len(user), rng.randint(1, 2))):
            user[t] = rng.choice([(1.5,), (1.5, 0.5, 2.5), ()])
    return user


def _run_t2p(ctx, label, d, seen, users):
    lines, expects, metas = [], [], []
    ttext = _tags_text(d.tags)
    orig = d.makeLIMBpreene
    for user, malformed in users:
        spy = {}

        def limb(**kw):
            spy['in'] = {k: np.array(v, copy=True) for k, v in kw.items()}
            out = orig(**kw)
            spy['out'] = {k: np.array(v, copy=True) for k, v in out.items()}
            return out
        d.makeLIMBpreene = limb
        try:
            res = d.tags2preene(dict(user), VERBOSE=True)
            res2 = d.tags2preene(dict(user))
            err = None
        except (ValueError, TypeError) as e:
            res, err = None, e
        finally:
            del d.makeLIMBpreene
        utext = _user_text(user)
        nsup = len({seen[t] for t in user if t in seen})
        ntot = sum(len(c) for c in d.tags.values())
        ctx.case((label, utext), nontrivial=(0 < nsup < ntot),
                 sample=dict(calculator=label, user_tags=list(user)[:6]) if 0 < nsup < 4 else None)
        ctx.count('dict:malformed' if malformed else 'dict:wellformed')
        ctx.count('outcome:' + ('raises' if err else 'ok'))
        if err is not None:
            if not malformed:
                ctx.violation('tags2preene-raises', 'tags2preene raises on a well-formed dictionary: %r' % (err,),
                              dict(calculator=label, user={t: [_hx(x) for x in v] for t, v in user.items()}))
            # model: phase 1 may already fail, else the whole call fails
            l1 = l2 = '-'
            if 'out' in spy:
                l1 = _pairs_text(spy['out']['preT1'], spy['out']['eneT1']); l2 = _pairs_text(spy['out']['preT2'], spy['out']['eneT2'])
            lines.append('t2p | %s | %s | %s | %s' % (ttext, utext, l1, l2)); expects.append('err'); metas.append((label, user))
            continue
        thermo, missing, dup, bad = res
        if any(not cm.same_bits(thermo[k], res2[k]) for k in thermo) or set(thermo) != set(res2):
            ctx.violation('verbose-changes-result', 'VERBOSE=True and False give different parameter sets',
                          dict(calculator=label, user=list(user)))
        _oracle_t2p(ctx, label, d, user, res, seen, spy['out'])
        # phase-1 dictionary handed to LIMB
        lines.append('p1 | %s | %s' % (ttext, utext))
        expects.append('ok ' + '~'.join('%s=%s' % (SHORT[ty], _pairs_text(spy['in'][NAMES[ty][0]], spy['in'][NAMES[ty][1]]))
                                        for ty in PHASE1))
        metas.append((label, user))
        l1 = _pairs_text(spy['out']['preT1'], spy['out']['eneT1']); l2 = _pairs_text(spy['out']['preT2'], spy['out']['eneT2'])
        lines.append('t2p | %s | %s | %s | %s' % (ttext, utext, l1, l2))
        th = '~'.join('%s=%s' % (SHORT[ty], _pairs_text(thermo[NAMES[ty][0]], thermo[NAMES[ty][1]])) for ty in PHASE1 + PHASE2)
        ms = '~'.join('%s=%s' % (ty, _classes_text(cl)) for ty, cl in missing.items()) if missing else '-'
        expects.append('ok %s | missing %s | dup %s | bad %s' % (th, ms, _classes_text(dup), ' '.join(bad) if bad else '_'))
        metas.append((label, user))
    return lines, expects, metas


def _compare(ctx, lines, expects, metas, what):
    got = ctx.lean(DRIVER, lines)
    nd = 0
    for g, e, l, m in zip(got, expects, lines, metas):
        if g != e:
            nd += 1
            if nd <= 10:
                ctx.disagree('%s: model and implementation differ (%s): model `%s` impl `%s`' % (what, m[0], g[:300], e[:300]),
                             dict(what=what, calculator=m[0], detail=str(m[1])[:2000], line=l[:4000], model=g, impl=e))
    return nd


def _fresh_crystal(crys):
    """the same crystal from its constructor: a new object that no calculator has touched"""
    from onsager import crystal
    return crystal.Crystal(crys.lattice.copy(), [[u.copy() for u in b] for b in crys.basis], chemistry=list(crys.chemistry),
                           spins=crys.spins, threshold=crys.threshold, noreduce=True)


def _build(kind, crys, chem, cut, classes, nthermo=1):
    """calculator of `kind` on `crys` for species `chem` from the jump network of cutoff `cut` restricted to `classes`"""
    from onsager import OnsagerCalc
    jn = crys.jumpnetwork(chem, cut)
    if classes is not None: jn = [jn[c] for c in classes if c < len(jn)]
    sl = crys.sitelist(chem)
    if kind == 'vacancy':
        return OnsagerCalc.VacancyMediated(crys, chem, sl, jn, nthermo, NGFmax=2)
    return OnsagerCalc.Interstitial(crys, chem, sl, jn)


def _reuse_plans(ctx):
    """(label, crystal, [ (kind, chem, cutoff, classes) ... ]) : calculators to be built IN SEQUENCE from one Crystal object"""
    plans = []
    for name in (['hcp', 'rect2', 'b2', 'tet1'] if ctx.quick else ['hcp', 'rect2', 'b2', 'tet1', 'tri', 'tric', 'pol2', 'fcc', 'hon']):
        crys, chem, cut = cm.get(name)
        ncls = len(crys.jumpnetwork(chem, cut))
        steps = [('vacancy', chem, cut, None), ('interstitial', chem, cut, None)]
        for c in range(min(ncls, 3)):
            if ncls > 1: steps.append(('vacancy', chem, cut, [c])); steps.append(('interstitial', chem, cut, [c]))
        if ncls > 2: steps.append(('vacancy', chem, cut, list(range(1, ncls))))
        steps.append(('vacancy', chem, cut * 1.45, None)); steps.append(('interstitial', chem, cut * 1.45, None))
        for other in range(crys.Nchem):
            if other != chem: steps.append(('vacancy', other, cut, None)); steps.append(('interstitial', other, cut, None))
        plans.append((name, crys, steps))
    for label, crys, chem, cut in _interstitial_crystals()[:2 if ctx.quick else 4]:
        steps = [('interstitial', chem, cut, None), ('interstitial', chem, cut * 1.3, None), ('interstitial', chem, cut, [0]),
                 ('vacancy', 0, 1.01, None), ('interstitial', 0, 1.01, None)]
        plans.append((label, crys, steps))
    return plans


def _calc_outcome(fn):
    try: return ('ok', fn())
    except Exception as e: return ('raises', type(e).__name__, str(e)[:200])


def _reuse(ctx):
    """Several calculators (VacancyMediated and Interstitial; other cutoffs, sub-networks, other species) built one after the
    other from ONE Crystal object, in a random order, each compared with the same calculator built from a freshly
    constructed Crystal: tags, tag dictionaries, tags2preene; plus the tag-text oracle on the calculator itself."""
    rng = ctx.rng
    for label, crys0, steps in _reuse_plans(ctx):
        shared = _fresh_crystal(crys0)            # one object for the whole sequence
        order = list(steps)
        first = order[0]
        rest = order[1:]; rng.shuffle(rest)
        order = [first] + rest + [first]          # the first request again at the end: results must not depend on what came between
        hist = []
        for kind, chem, cut, classes in order:
            hist.append([kind, int(chem), float(cut), classes])
            rep = dict(crystal=label, lattice=crys0.lattice.tolist(), basis=[[u.tolist() for u in b] for b in crys0.basis],
                       built_in_sequence_from_one_Crystal=[list(h) for h in hist])
            a = _calc_outcome(lambda: _build(kind, shared, chem, cut, classes))
            b = _calc_outcome(lambda: _build(kind, _fresh_crystal(crys0), chem, cut, classes))
            ctx.case(('reuse', label, len(hist), kind, chem, cut, str(classes)), nontrivial=len(hist) > 1)
            ctx.count('crystal-reuse:' + kind)
            if a[0] != b[0] or (a[0] == 'raises' and a[1] != b[1]):
                ctx.violation('crystal-reuse:construction-differs:' + kind,
                              'building the calculator from the reused Crystal %s, from a new Crystal %s' % (a[:2] if a[0] != 'ok' else 'works', b[:2] if b[0] != 'ok' else 'works'), rep)
                continue
            if a[0] != 'ok': continue
            da, db = a[1], b[1]
            tag = 'calculator #%d built from ONE Crystal object (%s) in the sequence %s' % (len(hist), label, [list(h) for h in hist])
            _oracle_tags(ctx, tag, da)
            _oracle_tag_geometry(ctx, tag, kind, da)
            if da.tags != db.tags or da.tagdict != db.tagdict or da.tagdicttype != db.tagdicttype:
                ty = next((t for t in db.tags if da.tags.get(t) != db.tags[t]), '?')
                ctx.violation('crystal-reuse:tags-differ:' + ty,
                              'tags[%s] of a calculator built from a Crystal that other calculators used before differ from those on a new Crystal' % ty,
                              dict(rep, reused=[list(c) for c in da.tags.get(ty, [])][:8], fresh=[list(c) for c in db.tags.get(ty, [])][:8]))
                continue
            if kind == 'vacancy':
                for _ in range(2):
                    u = {}
                    for ty, cl in db.tags.items():
                        for cls in cl:
                            if rng.random() < 0.6: u[rng.choice(cls)] = (float(np.float64(rng.lognormvariate(0, .4))), float(np.float64(rng.gauss(0, 1))))
                    ra = _calc_outcome(lambda: da.tags2preene(dict(u), VERBOSE=True))
                    rb = _calc_outcome(lambda: db.tags2preene(dict(u), VERBOSE=True))
                    same = ra[0] == rb[0] and (ra[0] != 'ok' or (all(cm.same_bits(ra[1][0][k], rb[1][0][k]) for k in rb[1][0])
                                                                 and ra[1][1:] == rb[1][1:]))
                    if not same:
                        ctx.violation('crystal-reuse:tags2preene-differs', 'tags2preene on the reused-Crystal calculator %s, on the new-Crystal one %s'
                                      % (ra[:2] if ra[0] != 'ok' else 'returns', rb[:2] if rb[0] != 'ok' else 'returns'), dict(rep, user=list(u)))
                        break


def _run(ctx, nuser):
    rng = ctx.rng
    calcs = list(_calculators(ctx))
    all_tags = []
    lines, expects, metas = [], [], []
    seen_of = {}
    for label, kind, d in calcs:
        if kind == 'interstitial-error':
            crys, chem, sl, jn, e = d
            # the model must predict the refusal: rebuild the tags the code would have made (single-state tags only)
            basis = crys.basis[chem]
            fmt = '{type}:' + ','.join('{u[%d]:+06.3f}' % k for k in range(crys.dim))
            tg = {'states': [[fmt.format(type='i', u=basis[s]) for s in sites] for sites in sl], 'transitions': []}
            lines.append('dict | ' + _tags_text(tg)); expects.append('dup ' + str(e).split('? ')[1].split(' found')[0])
            metas.append((label, 'generatetags raised: %s' % e))
            ctx.case((label, 'refused'), nontrivial=True); ctx.count('calculator:refused-duplicate-tags')
            continue
        ctx.count('calculator:' + kind)
        seen = _oracle_tags(ctx, label, d)
        _oracle_tag_geometry(ctx, label, kind, d)
        seen_of[label] = seen
        all_tags += list(seen)[:50]
        ntags = len(seen)
        lines.append('dict | ' + _tags_text(d.tags)); expects.append('ok %d' % ntags); metas.append((label, 'mkTagDict'))
        ctx.case((label, 'tags'), nontrivial=True)
        for letter, u, t in _expected_single_tags(d, kind):
            lines.append('single | %s | %s' % (letter, _coords(u))); expects.append(t); metas.append((label, 'format %r' % (list(u),)))
            ctx.count('formatted-tags')
    # number format on boundary values (direct: python format vs model)
    vals = [0.0, -0.0, 0.0005, -0.0005, 0.0015, 0.0625, 0.1875, -0.0625, 1 / 3, 2 / 3, 0.9995, 0.99949999, 1.0005, 9.9995, 12.3455,
            -1e-4, 1e-4, -4.9e-4, 123.4565, 0.5, 1e-9, -1e-9, 999.9995, 0.0045, 0.0035]
    nb = 40 if ctx.quick else 2000
    vals += [rng.randrange(-4000, 4000) / 2000 for _ in range(nb)]
    vals += [rng.randrange(-4000, 4000) / 2000 + rng.choice([-1, 1]) * 2.0 ** -rng.randint(20, 52) for _ in range(nb)]
    vals += [rng.uniform(-3, 3) for _ in range(nb)]
    for i in range(0, len(vals), 8):
        chunk = vals[i:i + 8]
        lines.append('fmt | ' + _coords(chunk)); expects.append(' '.join('{:+06.3f}'.format(x) for x in chunk))
        metas.append(('format', chunk)); ctx.count('formatted-numbers', len(chunk))
    _compare(ctx, lines, expects, metas, 'tags/format')
    # user dictionaries through tags2preene
    lines, expects, metas = [], [], []
    vac = [(label, d) for label, kind, d in calcs if kind == 'vacancy']
    for label, d in vac:
        users = [({}, False)]
        # one-member-at-a-time sweep over a class with several members: every choice gives the same outcome
        multi = [(ty, i, cls) for ty, cl in d.tags.items() for i, cls in enumerate(cl) if len(cls) > 1]
        for ty, i, cls in (rng.sample(multi, min(len(multi), 3)) if multi else []):
            for t in cls[:6]: users.append(({t: (1.75, -0.375)}, False))
        for n in range(nuser):
            malformed = (n % 6 == 5)
            users.append((_rand_user(rng, d, malformed, all_tags), malformed))
        l, e, m = _run_t2p(ctx, label, d, seen_of[label], users)
        lines += l; expects += e; metas += m
    _compare(ctx, lines, expects, metas, 'tags2preene')


def run(ctx):
    _run(ctx, 30 if ctx.quick else 400)
    _reuse(ctx)


def search(ctx, reasons):
    _run(ctx, 120)
    _reuse(ctx)
