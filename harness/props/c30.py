"""
C30 — Automation tarballs are complete and self-consistent.

Direct oracles on the real `automator.supercelltar` output for supercell dictionaries produced by real
Interstitial / VacancyMediated calculators (archives are built in memory):
  * the module imports at all (finding F4, fixed in f6ceda1: `import pkg_resources` failed on this Python); should
    the plain import fail again it is reported as a violation and, only then, the module is loaded through a
    pkg_resources stand-in so that everything else is still checked;
  * tags.json is a bijection between the state/transition directories of the archive and the tags;
  * every POSCAR / POS.* / POSCAR.* member reads back (`Supercell.POSCAR_occ`) to exactly the given supercell
    (occ and chemorder), the top-level POSCAR to the reference cell;
  * every Makefile prerequisite is a member of the archive or the CONTCAR of an existing state directory, every
    transition endpoint is either shipped (POSCAR.init/final) or has a rule, NEBlist files agree;
  * the archive is extracted to a scratch directory under /tmp, each state's POSCAR is copied to CONTCAR and the
    bundled `perl trans.pl` (also through `make neb.NN/POSCAR.init` when make exists) is run on every trans.*
    file: the result read back must be exactly the transition endpoint; the scratch directory is removed at once.
Correspondence with the Lean model (OnsagerModel/C30.lean): directory names, the flattened mapping of
`map2string` and the affine map + wrap + permutation of trans.pl in exact rationals vs Perl's output.
"""
import os, sys, io, json, re, shutil, subprocess, tarfile, tempfile, time, types, warnings, importlib
from fractions import Fraction
import numpy as np
from props import c27zoo

META = dict(
    id='C30',
    level_text='partial: kernel-checked theorems for the archive layout model: {:02d} formatting is injective on the naturals and '
               'directories with the default prefixes (relax./neb.) never collide, so the tag map is a bijection onto the '
               'directories; the flattened mapping of map2string addresses, for species c and place i, entry '
               'offset_c + mapping[c][i] of the concatenated POSCAR list; trans.pl applied to a state POSCAR list yields '
               'the POSCAR list of (g*state).reorder(mapping) whenever g acts on positions as its index map says - with C27 '
               'soundness: for a mapping returned by equivalencemap the output is the POSCAR list of the transition endpoint; Perl\'s '
               'one-pass wrap differs from the argument by an integer in {-1,0,1}. tarfile, Perl float arithmetic, make, '
               'POSCAR parsing and the shipped nebmake.pl/Vasp.pm are NOT modelled: the real archive is built, extracted and '
               'the bundled script executed for every generated dictionary.',
    level_note='Trusted: Lean kernel + standard axioms; harness; perl and (optionally) make binaries of the sandbox.',
    technique='Lean 4 proofs about naming/indexing/affine map + real archive round trip with the bundled Perl script',
    lean_modules=['OnsagerModel.C30', 'OnsagerProofs.C30'],
    theorems=['Onsager.C30.fromDigits_fmt02', 'Onsager.C30.fmt02_injective', 'Onsager.C30.dirName_injective',
              'Onsager.C30.allDirs_nodup', 'Onsager.C30.default_dirs_nodup', 'Onsager.C30.tagmap_bijective',
              'Onsager.C30.flatMapping_index', 'Onsager.C30.transpl_applies_map', 'Onsager.C30.reorder_imul_chemorder',
              'Onsager.C30.transpl_reproduces_endpoint', 'Onsager.C30.wrap1_spec'],
    tie_theorems=[],
    rule='(calculator from the interstitial / vacancy zoo, supercell matrix, archive options basedir/KPOINTS); a case is one '
         'archive member group: tag map, one POSCAR read-back, one Makefile line, one trans.* file run through perl; '
         'non-trivial = op is not the identity or the mapping is not the identity; distinct by (crystal, matrix, member)',
    trusted=['perl 5 and make of the sandbox', 'Supercell.POSCAR_occ is used to read positions back (its own round trip is C28)'],
    assumptions=['default statename/transitionname/IDformat (the shipped Makefile hard-codes the neb. prefix)'],
)

DRIVER = 'Drive/C30.lean'


def _j(x):
    if isinstance(x, np.ndarray): return x.tolist()
    if isinstance(x, (np.integer,)): return int(x)
    if isinstance(x, (np.floating,)): return float(x)
    if isinstance(x, (list, tuple)): return [_j(y) for y in x]
    return x


def _l(l):
    return '-' if len(l) == 0 else ','.join(str(int(x)) for x in l)


def _ll(ll):
    return '-' if len(ll) == 0 else ';'.join((','.join(str(int(x)) for x in l) if len(l) else '_') for l in ll)


# ---------------------------------------------------------------- import (finding F4)
def load_automator(ctx):
    """the real module; when it cannot be imported the failure is reported and the module is loaded with a
    stand-in for pkg_resources that reads the same package files"""
    import onsager
    try:
        return importlib.import_module('onsager.automator'), True
    except Exception as e:
        err = '%s: %s' % (type(e).__name__, e)
    ctx.violation('automator-import', 'import onsager.automator fails: ' + err,
                  dict(command='%s -c "import onsager.automator"' % sys.executable, python=sys.version.split()[0], error=err))
    pk = os.path.dirname(onsager.__file__)
    shim = types.ModuleType('pkg_resources')
    shim.resource_string = lambda name, fname: open(os.path.join(pk, fname), 'rb').read()
    had = sys.modules.get('pkg_resources')
    sys.modules['pkg_resources'] = shim
    try:
        sys.modules.pop('onsager.automator', None)
        mod = importlib.import_module('onsager.automator')
    finally:
        if had is None: sys.modules.pop('pkg_resources', None)
        else: sys.modules['pkg_resources'] = had
    ctx.note('onsager.automator loaded through a pkg_resources stand-in (the real import fails)')
    return mod, False


# ---------------------------------------------------------------- one archive
def _readback(template, text):
    s = template.copy()
    s.POSCAR_occ(text)
    return s


def _same(a, b):
    return np.array_equal(a.occ, b.occ) and a.chemorder == b.chemorder


def check_archive(ctx, automator, kind, name, S, sd, opts, lines, checks, scratch_parent, budget_perl):
    rep0 = dict(calculator=kind, crystal=name, superlatt=_j(S), options=opts)

    def viol(sig, what, **kw):
        ctx.violation(sig, what, dict(rep0, **kw))

    buf = io.BytesIO()
    try:
        with warnings.catch_warnings():
            warnings.simplefilter('ignore')
            with tarfile.open(fileobj=buf, mode='w') as tar:
                automator.supercelltar(tar, sd, timestamp=1.0e9, **opts)
    except Exception as e:
        viol('supercelltar-raises:' + type(e).__name__, 'supercelltar raised %s: %s' % (type(e).__name__, e))
        return
    buf.seek(0)
    base = opts.get('basedir', '')
    if base and not base.endswith('/'): base += '/'
    tar = tarfile.open(fileobj=buf, mode='r')
    members = tar.getmembers()
    names = [m.name for m in members]
    if len(set(names)) != len(names):
        viol('duplicate-members', 'archive contains a member twice', members=sorted(n for n in set(names) if names.count(n) > 1))
    if not all(n.startswith(base) for n in names):
        viol('basedir', 'a member is outside basedir')
    rel = {m.name[len(base):]: m for m in members}

    def text(n):
        return tar.extractfile(rel[n]).read().decode('ascii')

    states, trans, tmap = sd['states'], sd['transitions'], sd['transmapping']
    template = next(iter(states.values()))
    # ---- tag map
    dirs = sorted(n for n, m in rel.items() if m.isdir())
    try:
        tagmap = json.loads(text('tags.json'))
    except Exception as e:
        viol('tags-json', 'tags.json missing or unreadable: %r' % (e,)); return
    alltags = list(states.keys()) + list(trans.keys())
    ctx.case((name, S.tobytes(), 'tagmap', json.dumps(opts, sort_keys=True)), nontrivial=len(alltags) > 1,
             sample=dict(kind='tagmap', crystal=name, superlatt=_j(S), dirs=len(dirs)))
    if sorted(tagmap.keys()) != dirs or sorted(tagmap.values()) != sorted(alltags) or len(set(tagmap.values())) != len(tagmap):
        viol('tagmap-not-bijection', 'tags.json is not a bijection between the directories of the archive and the tags',
             directories=dirs, tagmap=tagmap, tags=alltags)
        return
    dirof = {v: k for k, v in tagmap.items()}
    sdirs = sorted(dirof[t] for t in states)
    tdirs = sorted(dirof[t] for t in trans)
    lines.append('dirs relax. neb. %d %d' % (len(states), len(trans)))
    checks.append((rep0, ','.join(sdirs + tdirs), 'directory names'))
    # naming is by sorted tag: reverse for states
    if [dirof[t] for t in sorted(states, reverse=True)] != sdirs or [dirof[t] for t in sorted(trans)] != tdirs:
        viol('dir-order', 'directories are not numbered in (reverse-)sorted tag order')
    # ---- fixed members
    need = ['INCAR.relax', 'INCAR.NEB', 'trans.pl', 'nebmake.pl', 'Vasp.pm', 'Makefile', 'tags.json']
    if opts.get('KPOINTS', 'x') not in (None, ''): need.append('KPOINTS')
    for n in need:
        if n not in rel or not rel[n].isfile():
            viol('member-missing', 'archive lacks %s' % n)
    import onsager
    pk = os.path.dirname(onsager.__file__)
    for n in ('trans.pl', 'nebmake.pl', 'Vasp.pm'):
        if n in rel and text(n) != open(os.path.join(pk, n)).read():
            viol('script-differs', '%s in the archive differs from the bundled file' % n)
    for n in ('trans.pl', 'nebmake.pl'):
        if n in rel and not (rel[n].mode & 0o100):
            viol('script-not-executable', '%s is not executable in the archive (the Makefile runs ./%s)' % (n, n))
    # ---- POSCAR read back
    if 'reference' in sd:
        ok = 'POSCAR' in rel and _same(_readback(template, text('POSCAR')), sd['reference'])
        if not ok: viol('poscar-readback:reference', 'top-level POSCAR does not read back to the reference cell')
    for t, sup in states.items():
        d = dirof[t]
        ctx.case((name, S.tobytes(), 'poscar', t), nontrivial=True)
        ok = (d + '/POSCAR') in rel and _same(_readback(template, text(d + '/POSCAR')), sup)
        if not ok: viol('poscar-readback:state', 'state POSCAR does not read back to the given supercell', tag=t, directory=d)
        for n in ('INCAR', 'incar.sed', 'POTCAR'):
            if (d + '/' + n) not in rel: viol('member-missing', 'state directory lacks ' + n, directory=d)
        if text(d + '/POSCAR').split('\n')[0].split(' ')[0] != t.split(' ')[0]:
            viol('poscar-title', 'first line of the POSCAR does not start with the tag', tag=t)
    made = {}     # targets that the Makefile must produce: dir/POSCAR.init|final -> (state dir, trans file, endpoint)
    for t, (s0, s1) in trans.items():
        d = dirof[t]
        tm = tmap[t]
        for e, which, end in ((0, 'init', s0), (1, 'final', s1)):
            ctx.case((name, S.tobytes(), 'pos', t, which), nontrivial=True)
            m = tm[e] if e < len(tm) else None
            fn = d + ('/POSCAR.' if m is None else '/POS.') + which
            ok = fn in rel and _same(_readback(template, text(fn)), end)
            if not ok:
                viol('poscar-readback:transition', 'transition %s does not read back to the given endpoint' % fn, tag=t)
            if m is not None:
                made[d + '/POSCAR.' + which] = (dirof[m[0]], d + '/trans.' + which, end, m, t)
                if (d + '/trans.' + which) not in rel:
                    viol('member-missing', 'no %s/trans.%s although a mapping is recorded' % (d, which), tag=t)
    # ---- Makefile
    mk = text('Makefile')
    marker = '# structure of NEB runs:'
    rules = {}
    for ln in mk[mk.index(marker) + len(marker):].split('\n') if marker in mk else []:
        if not ln.strip(): continue
        mobj = re.match(r'^(\S+):\s*(.*)$', ln)
        if not mobj:
            viol('makefile-line', 'unparsable dependency line %r' % ln); continue
        tgt, deps = mobj.group(1), mobj.group(2).split()
        ctx.case((name, S.tobytes(), 'make', tgt), nontrivial=True)
        rules[tgt] = deps
        for dep in deps:
            if dep in rel and rel[dep].isfile(): continue
            dd, _, fn = dep.rpartition('/')
            if fn == 'CONTCAR' and dd in sdirs: continue
            viol('makefile-dependency', 'Makefile prerequisite %s is neither in the archive nor the CONTCAR of a state directory' % dep,
                 target=tgt, dependencies=deps)
    if set(rules) != set(made):
        viol('makefile-targets', 'Makefile rules do not match the endpoints that have a recorded mapping',
             rules=sorted(rules), expected=sorted(made))
    for tgt, (sdir, tfile, end, m, t) in made.items():
        if tgt in rules and rules[tgt] != [tfile, sdir + '/CONTCAR']:
            viol('makefile-rule', 'rule for %s does not name its trans file and the CONTCAR of the mapped state' % tgt,
                 rule=rules[tgt], expected=[tfile, sdir + '/CONTCAR'])
    for d in tdirs:          # every endpoint is shipped or made; the pattern rules need the neb. prefix
        for which in ('init', 'final'):
            if (d + '/POSCAR.' + which) not in rel and (d + '/POSCAR.' + which) not in rules:
                viol('endpoint-unavailable', '%s/POSCAR.%s is neither shipped nor produced by a rule' % (d, which))
    neb = {}
    for tgt, (sdir, tfile, end, m, t) in made.items():
        neb.setdefault(sdir, set()).add(tgt.split('/')[0])
    for sdir in sdirs:
        fn = sdir + '/NEBlist'
        got = set(text(fn).split()) if fn in rel else set()
        if got != neb.get(sdir, set()):
            viol('neblist', 'NEBlist of %s does not list the transitions built from it' % sdir, got=sorted(got), expected=sorted(neb.get(sdir, set())))
    # ---- trans files: model of map2string, then the real perl script on an extracted copy
    for tgt, (sdir, tfile, end, m, t) in made.items():
        if tfile not in rel: continue
        tl = text(tfile).split('\n')
        st = states[m[0]]
        g, mp = m[1], m[2]
        flat = [int(x) for x in tl[5].split()] if len(tl) > 5 and tl[5].strip() else []
        lines.append('flat ' + _ll(mp))
        checks.append((dict(rep0, file=tfile), _l(flat), 'map2string flat mapping'))
        hdr_ok = tl[0] == sdir and [[int(x) for x in tl[1 + i].split()] for i in range(3)] == _j(g.rot) and \
            np.allclose([float(x) for x in tl[4].split()], g.trans, atol=1e-15)
        if not hdr_ok:
            viol('trans-file-header', 'trans file does not carry the state directory, rotation and translation of the mapping', file=tfile)
    if not made or budget_perl[0] <= 0:
        tar.close(); return
    scratch = tempfile.mkdtemp(prefix='verif-c30-', dir=scratch_parent)
    try:
        tar.extractall(scratch, filter='fully_trusted') if sys.version_info >= (3, 12) else tar.extractall(scratch)
        root = os.path.join(scratch, base) if base else scratch
        for sdir in sdirs:
            shutil.copy(os.path.join(root, sdir, 'POSCAR'), os.path.join(root, sdir, 'CONTCAR'))
        have_make = shutil.which('make') is not None
        for k, (tgt, (sdir, tfile, end, m, t)) in enumerate(sorted(made.items())):
            if budget_perl[0] <= 0: break
            budget_perl[0] -= 1
            g, mp = m[1], m[2]
            nontriv = not (np.array_equal(g.rot, np.eye(3, dtype=int)) and all(list(r) == list(range(len(r))) for r in mp))
            ctx.case((name, S.tobytes(), 'perl', tgt), nontrivial=nontriv,
                     sample=dict(kind='perl trans.pl', crystal=name, superlatt=_j(S), target=tgt, rot=_j(g.rot)))
            p = subprocess.run(['perl', 'trans.pl', tfile, sdir + '/CONTCAR'], cwd=root, capture_output=True, text=True, timeout=60)
            if p.returncode != 0:
                viol('transpl-fails', 'perl trans.pl failed: ' + p.stderr[-300:], target=tgt); continue
            out = p.stdout
            if p.stderr.strip():
                viol('transpl-warns', 'perl trans.pl printed warnings: ' + p.stderr[-300:], target=tgt)
            try:
                back = _readback(template, out)
                ok = _same(back, end)
            except Exception as e:
                ok, back = False, None
            if not ok:
                viol('transpl-endpoint', 'trans.pl applied to the state POSCAR does not reproduce the transition endpoint',
                     target=tgt, tag=t, state_dir=sdir, rot=_j(g.rot), trans=_j(g.trans), mapping=_j(mp),
                     got=None if back is None else dict(occ=_j(back.occ), chemorder=_j(back.chemorder)),
                     expected=dict(occ=_j(end.occ), chemorder=_j(end.chemorder)))
                continue
            ctx.count('perl-runs')
            # the same through make (rule + pattern recipe), for the first targets
            if have_make and k < 2:
                pm = subprocess.run(['make', tgt], cwd=root, capture_output=True, text=True, timeout=60)
                fn = os.path.join(root, tgt)
                if pm.returncode != 0 or not os.path.exists(fn) or open(fn).read() != out:
                    viol('make-target', '`make %s` does not produce the transformed POSCAR: %s' % (tgt, (pm.stderr or pm.stdout)[-300:]), target=tgt)
                else:
                    ctx.count('make-runs')
            # model: exact affine map + wrap + permutation on the POSCAR position list
            src = open(os.path.join(root, sdir, 'CONTCAR')).read().split('\n')
            npos = sum(len(l) for l in states[m[0]].chemorder)
            i0 = next(i for i, l in enumerate(src) if l.strip().lower().startswith('d')) + 1
            pos = [src[i0 + i].split()[:3] for i in range(npos)]
            tl = open(os.path.join(root, tfile)).read().split('\n')
            lines.append('trans %s %s %s %s' % (','.join(x for r in tl[1:4] for x in r.split()),
                                               ','.join(_dec(x) for x in tl[4].split()), _l([int(x) for x in tl[5].split()]),
                                               (';'.join(','.join(_dec(x) for x in p3) for p3 in pos) if pos else '-')))
            o0 = next(i for i, l in enumerate(out.split('\n')) if l.strip().lower().startswith('d')) + 1
            outpos = [[float(x) for x in l.split()[:3]] for l in out.split('\n')[o0:] if l.strip()]
            checks.append((dict(rep0, target=tgt), outpos, 'trans.pl positions'))
    finally:
        shutil.rmtree(scratch, ignore_errors=True)
        tar.close()


def _dec(s):
    f = Fraction(s)
    return str(f.numerator) if f.denominator == 1 else '%d/%d' % (f.numerator, f.denominator)


# ---------------------------------------------------------------- generation
_MATS = [np.diag([2, 2, 2]), np.diag([3, 3, 3]), np.diag([3, 2, 2]), np.diag([4, 3, 3]), np.diag([2, 2, 1]),
         np.array([[-1, 1, 1], [1, -1, 1], [1, 1, -1]]), 2 * np.array([[-1, 1, 1], [1, -1, 1], [1, 1, -1]]),
         np.array([[0, 1, 1], [1, 0, 1], [1, 1, 0]]) * 2, np.array([[2, 1, 0], [0, 2, 0], [0, 0, 2]]),
         np.array([[1, 1, 0], [-1, 1, 0], [0, 0, 2]]), np.array([[3, 1, 0], [0, 3, 1], [1, 0, 3]]), np.diag([1, 1, 1])]


def _well_formed(sd):
    """dictionaries on which C29 already reports a defect (transmapping without one entry per endpoint) are skipped:
    supercelltar cannot be expected to handle them"""
    return all(len(v) == 2 for v in sd['transmapping'].values())


def _run(ctx, nmat, maxsites, nperl):
    rng = ctx.rng
    t_start = time.time()
    automator, real = load_automator(ctx)
    lines, checks = [], []
    for n in list(range(0, 12)) + [99, 100, 101, 1234]:
        lines.append('fmt %d' % n); checks.append(({}, '{:02d}'.format(n), '{:02d} formatting'))
    todo = [('I',) + z for z in c27zoo.interstitial_zoo(rng)] + [('V',) + z for z in c27zoo.vacancy_zoo(rng)]
    rng.shuffle(todo)
    budget_perl = [nperl]
    scratch_parent = '/tmp'
    narch = 0
    for kind, name, crys, chem in todo:
        el = time.time() - t_start
        if (ctx.quick and ((el > 40 and narch >= 14) or el > 85)) or (not ctx.quick and el > 1000): break
        with warnings.catch_warnings():
            warnings.simplefilter('ignore')
            calc = c27zoo.interstitial_calc(name, crys, chem) if kind == 'I' else c27zoo.vacancy_calc(name, crys, chem, 1)
        mats = [M for M in rng.sample(_MATS, len(_MATS)) if abs(int(round(np.linalg.det(M)))) * crys.N <= maxsites][:nmat]
        for S in mats:
            sd, warns = c27zoo.makesupercells(calc, S)
            if not _well_formed(sd):
                ctx.count('skipped:transmapping-misaligned(C29 finding)')
                continue
            opts = {}
            r = rng.random()
            if r < 0.25: opts['basedir'] = 'run'
            elif r < 0.4: opts['basedir'] = 'a/b/'
            if rng.random() < 0.2: opts['KPOINTS'] = None
            if rng.random() < 0.2: opts['YAMLdef'] = None
            ctx.count('calc:' + kind); ctx.count('crystal:' + name); narch += 1
            check_archive(ctx, automator, kind, name, S, sd, opts, lines, checks, scratch_parent, budget_perl)
    if narch == 0:
        raise RuntimeError('C30: no archive was generated')
    ctx.count('archives', narch)
    got = ctx.lean(DRIVER, lines, timeout=1200)
    for line, ans, (rep, exp, what) in zip(lines, got, checks):
        if what == 'trans.pl positions':
            try:
                mod = [[float(Fraction(x)) for x in p.split(',')] for p in ans.split(';')] if ans not in ('', '-') else []
                if len(mod) == 0 and len(exp) == 0:
                    bad = False
                else:
                    d = np.array(mod) - np.array(exp)
                    d -= np.round(d)
                    bad = d.shape != (len(exp), 3) or np.abs(d).max() > 1e-12
            except Exception as e:
                bad = True
            if bad:
                ctx.disagree('trans.pl: model positions differ from perl output', dict(rep, line=line[:300], model=ans[:300], impl=str(exp)[:300]))
        elif ans != exp:
            ctx.disagree('%s: model `%s` impl `%s`' % (what, ans[:200], exp[:200]), dict(rep, line=line[:300], model=ans, impl=exp))


def run(ctx):
    if ctx.quick:
        _run(ctx, nmat=2, maxsites=130, nperl=60)
    else:
        _run(ctx, nmat=6, maxsites=260, nperl=1500)


def search(ctx, reasons):
    _run(ctx, nmat=2, maxsites=100, nperl=60)
