"""
C03 — Transport tensors are symmetric, non-negative and crystal-invariant.

Lean (OnsagerProofs/C03.lean, exact interstitial model): form_symm, form_nonneg, form_invariant / invcheck_form_eq
(whenever the decidable `invcheck` accepts a site bijection carrying the projected networks onto each other, the two
transport forms are equal).  Tie: for every crystal group operation the driver evaluates `invcheck` on the real network
(closure under the group is checked, not assumed) and the implementation's tensors are tested directly:
symmetry, R D R^T = D, PSD — for Interstitial.diffusivity, elastodiffusion and the four VacancyMediated tensors.
"""
import math
from fractions import Fraction
import numpy as np
import interstitial_common as ic

META = dict(
    id='C03',
    lean_modules=['OnsagerProofs.Lemmas.Variational', 'OnsagerModel.C02', 'OnsagerModel.C03', 'OnsagerModel.InterstitialDriver',
                  'OnsagerProofs.C02', 'OnsagerProofs.C03', 'OnsagerModel.Chain', 'OnsagerProofs.Chain', 'OnsagerProofs.Lemmas.Quadratic',
                  'OnsagerProofs.ChainPSD'],
    theorems=['Onsager.Var.D_symm', 'Onsager.Var.Q_nonneg', 'Onsager.Var.Qmin_relabel', 'Onsager.C03.form_symm',
              'Onsager.C03.form_nonneg', 'Onsager.C03.form_invariant', 'Onsager.C03.invcheck_sound', 'Onsager.C03.invcheck_form_eq',
              'Onsager.Var.M_eq_gram', 'Onsager.Var.gram_quad_nonneg', 'Onsager.Chain.chain_psd', 'Onsager.Chain.formOf_symm'],
    tie_theorems=[],
    level_text='Kernel-checked for the exact interstitial model (any network, any rational data): the tensor is symmetric, positive '
               'semidefinite, and equal in any two directions related by a site bijection that carries the projected networks onto each '
               'other (the decidable hypothesis is evaluated by the driver for every actual group operation). The same lemmas '
               '(D_symm, Q_nonneg, Qmin_relabel) are the reason for L0vv, Lss and L1vv; for every finite solute-vacancy chain the FULL tensors Lss and Lvv '
               'returned by the exact chain model are positive semidefinite in every direction (chain_psd) and reciprocal (formOf_symm). For the vacancy-mediated tensors and the '
               'elastodiffusion tensor the code is tied by direct oracles only (partial). The Lsv symmetry clause is false of the exact '
               'physics for point groups with an invariant axial vector (open finding F11).',
    level_note='Trusted: Lean kernel + standard axioms; correspondence of the implementation with the exact model (C02). '
               'Vacancy-mediated tensors: Green-function numerics outside the model.',
    technique='Lean 4 theorems (symmetry, PSD, relabelling invariance) on the exact model + decidable group-closure check + direct tensor oracles',
    rule='networks x random data x all point-group operations x random rational directions; vacancy calculators x random data; '
         'non-trivial = anisotropic tensor or non-zero correlation; distinct by (network, data)',
    trusted=['identification of the exact diffusivity with the minimum of the variational functional'],
    assumptions=[],
)

DRIVER = 'Drive/Interstitial.lean'


def _fracvec(v):
    return ','.join(ic.fr(x) for x in v)


def _tensor_oracles(ctx, label, sig_extra, T, crys, tol, rep, psd=True, symm=True):
    T = np.asarray(T)
    if symm and np.abs(T - T.T).max() > tol:
        ctx.violation('asymmetric:%s%s' % (label, sig_extra), '%s is not symmetric: |T-T^T| = %.3g (tol %.3g)' % (label, np.abs(T - T.T).max(), tol),
                      dict(rep, tensor=T.tolist()))
    for g in crys.G:
        R = g.cartrot
        d = np.abs(R @ T @ R.T - T).max()
        if d > tol:
            ctx.violation('not-invariant:%s%s' % (label, sig_extra), '%s changes under a point-group operation by %.3g (tol %.3g)' % (label, d, tol),
                          dict(rep, tensor=T.tolist(), cartrot=R.tolist()))
            break
    if psd:
        w = np.linalg.eigvalsh(0.5 * (T + T.T)).min()
        if w < -tol:
            ctx.violation('not-psd:%s%s' % (label, sig_extra), '%s has a negative eigenvalue %.3g (tol %.3g)' % (label, w, tol), dict(rep, tensor=T.tolist()))


def run(ctx):
    from onsager import OnsagerCalc
    nets = ic.networks()
    ncase = 12 if ctx.quick else 300
    lines, plan = [], []
    for t in range(ncase):
        name, crys, chem, sl, jn = nets[t % len(nets)]
        key = ('diff', name)
        if key not in ic._CACHE:
            ic._CACHE[key] = (OnsagerCalc.Interstitial(crys, chem, sl, jn), ic.lattice_jumps(crys, jn))
        diffuser, ljumps = ic._CACHE[key]
        emax = 4 if (ctx.quick or t % 3) else 14      # extreme rate ratios in the thorough tier
        data = ic.rand_data(ctx.rng, len(sl), len(jn), emax=emax)
        base = ic.request_line(diffuser.N, crys.dim, diffuser.invmap, ljumps, data)
        dim = crys.dim
        # implementation tensors
        args = ic.py_args(data)
        D = diffuser.diffusivity(*args)
        scale = max(np.abs(D).max(), 1e-300)
        tol = 1e-9 * scale + 1e-13 * scale * min(ic.rate_spread(data), 1e9)
        rep = dict(network=name, data={k: str(v) for k, v in data.items()})
        _tensor_oracles(ctx, 'interstitial-D', '', D, crys, tol, rep)
        # elastodiffusion: symmetric in (ab) and (cd), invariant
        rngn = np.random.default_rng(ctx.rng.getrandbits(32))
        dip = [rngn.normal(size=(dim, dim)) for _ in sl]; dipT = [rngn.normal(size=(dim, dim)) for _ in jn]
        D2, dD = diffuser.elastodiffusion(args[0], args[1], dip, args[2], args[3], dipT)
        sc4 = max(np.abs(dD).max(), 1e-300); tol4 = 1e-8 * sc4 + 1e-12 * sc4 * min(ic.rate_spread(data), 1e9)
        if np.abs(dD - dD.transpose(1, 0, 2, 3)).max() > tol4 or np.abs(dD - dD.transpose(0, 1, 3, 2)).max() > tol4:
            ctx.violation('asymmetric:elastodiffusion', 'elastodiffusion tensor not symmetric in its index pairs', dict(rep))
        for g in crys.G:
            R = g.cartrot
            rot = np.einsum('ai,bj,ck,dl,ijkl->abcd', R, R, R, R, dD)
            if np.abs(rot - dD).max() > tol4:
                ctx.violation('not-invariant:elastodiffusion', 'elastodiffusion tensor changes under a point-group operation by %.3g' % np.abs(rot - dD).max(), dict(rep))
                break
        ctx.case((name, base), nontrivial=bool(np.abs(D - np.trace(D) / dim * np.eye(dim)).max() > 1e-9 * scale or diffuser.NV > 0),
                 sample=dict(rep, D=D.tolist()))
        ctx.count('net:' + name)
        # model: symmetric tensor + invariance in a random direction under every group operation (exact)
        u = [Fraction(ctx.rng.randint(-3, 3)) for _ in range(dim)]
        if all(x == 0 for x in u): u[0] = Fraction(1)
        lines.append('D # ' + base); plan.append(('D', name, crys, D, tol, rep))
        ops = list(crys.G)
        if ctx.quick and len(ops) > 6: ops = ctx.rng.sample(ops, 6)
        for g in ops:
            rot = np.array(g.rot, dtype=int)
            rinvT = np.linalg.inv(rot).T
            u2 = [sum(Fraction(int(round(rinvT[a, b]))) * u[b] for b in range(dim)) for a in range(dim)]
            perm = list(g.indexmap[chem])
            lines.append('inv %s ; %s ; %s # %s' % (_fracvec(u), _fracvec(u2), ','.join(map(str, perm)), base))
            plan.append(('inv', name, crys, None, None, dict(rep, u=list(map(str, u)), rot=rot.tolist(), perm=perm)))
    answers = ctx.lean(DRIVER, lines, timeout=3000)
    for (kind, name, crys, D, tol, rep), ans, line in zip(plan, answers, lines):
        if kind == 'D':
            parsed = ic.parse_answer(ans, crys.dim)
            if parsed is None:
                ctx.disagree('model rejects input: ' + ans, rep); continue
            Dl = parsed[0]
            if np.abs(Dl - Dl.T).max() > 0:
                ctx.disagree('exact model tensor not exactly symmetric (contradicts form_symm)', dict(rep, Dl=Dl.tolist()))
            Dm = crys.lattice @ Dl @ crys.lattice.T
            if np.abs(Dm - D).max() > tol:
                ctx.disagree('implementation differs from exact model (see C02)', dict(rep, D_impl=D.tolist(), D_model=Dm.tolist()))
        else:
            parts = ans.split()
            ctx.count('invcheck:' + (parts[0] if parts else '?'))
            if len(parts) != 3 or parts[0] != '1':
                ctx.disagree('network projected on u is not carried onto the network projected on R u by the group operation '
                             '(jump network not closed under the crystal group, or model/adapter error): ' + ans, rep)
            elif parts[1] != parts[2]:
                ctx.disagree('exact model: u.D.u != (Ru).D.(Ru) although invcheck accepted (contradicts invcheck_form_eq)', dict(rep, ans=ans))
    vacancy_part(ctx)
    chain_psd_part(ctx)


def chain_psd_part(ctx):
    """Exact finite solute-vacancy chains built from the implementation tables: the model returns every tensor component (hypothesis
    of Chain.chain_psd) and the exact rational tensors Lss, Lvv are positive semidefinite, Lss/Lvv symmetric, Lsv reciprocal."""
    import vacancy_common as vc, oracle_chain as oc
    from fractions import Fraction
    from props.c01 import exact_rand_data
    cases = [('sq2d', 5), ('rect2d-2site', 5)] if ctx.quick else [('sq2d', 5), ('tri2d', 5), ('honey2d', 5), ('rect2d-2site', 5), ('oblique2d', 5), ('fcc', 5)]
    lines, meta = [], []
    for name, n in cases:
        calc = vc.calculator(name, 1)
        q, d = exact_rand_data(ctx.rng, calc)
        try:
            ch = oc.chain_transitions(calc, oc.activities_exact(q, d), n)
        except ValueError as e:
            ctx.note('chain %s n=%d skipped: %s' % (name, n, e)); continue
        lines.append(oc.lean_request(ch, calc.crys)); meta.append((name, n, calc, d))
    if not lines: return
    answers = ctx.lean('Drive/Chain.lean', lines, timeout=3000)
    for (name, n, calc, d), ans in zip(meta, answers):
        dim = calc.crys.dim
        rep = dict(calculator=name, n=n, data={k: [str(x) for x in v] for k, v in d.items()})
        ctx.case(('chain-psd', name, n, str(d)), nontrivial=True, sample=rep); ctx.count('chain-psd:' + name)
        if not ans.startswith('ok '):
            ctx.disagree('exact chain model returns no tensors (%s): hypothesis of chain_psd not met by the chain built from the implementation tables' % ans[:40], rep); continue
        T = [np.array([[float(Fraction(x)) for x in p_.strip().split(',')][al * dim:(al + 1) * dim] for al in range(dim)]) for p_ in ans[3:].split('|')]
        for blk, lab in ((0, 'Lss'), (2, 'Lvv')):
            sc = max(np.abs(T[blk]).max(), 1e-300)
            if np.abs(T[blk] - T[blk].T).max() > 1e-12 * sc or np.linalg.eigvalsh(0.5 * (T[blk] + T[blk].T)).min() < -1e-12 * sc:
                ctx.disagree('exact chain tensor %s is not symmetric positive semidefinite (contradicts chain_psd / formOf_symm)' % lab, dict(rep, tensor=T[blk].tolist()))


def vacancy_part(ctx):
    import vacancy_common as vc
    calcs = list(vc.small_calculators(ctx))
    if ctx.quick: calcs.append(('omegaR', vc.calculator('omegaR', 1)))
    for name, calc in calcs:
        # several Wyckoff sets: solute / vacancy site data differ between the sets - more data sets, wide spreads
        multi = len(calc.sitelist) > 1
        for t in range((2 if ctx.quick else 8) * (3 if multi else 1)):
            d = vc.rand_data(ctx.rng, calc, spread=(1.0 if t % 2 == 0 else 4.0))
            # large-exchange-rate regime; crystals with inequivalent-site exchange lose precision in proportion to the ratio of
            # exchange to vacancy rates (finding F31, property C08), so they are driven less far here and given that allowance
            if t % 4 == 3: d['preT2'] = d['preT2'] * (1e6 if multi else 1e10)
            L0vv, Lss, Lsv, L1vv = vc.lij(calc, d)
            rep = dict(calculator=name, data=vc.jsonable(d))
            sc = max(np.abs(L0vv).max(), np.abs(Lss).max(), np.abs(L1vv).max(), 1e-300)
            ratio2 = float(np.max(d['preT2'] * np.exp(-d['eneT2'])) / np.min(d['preT0'] * np.exp(-d['eneT0'])))
            tol = (1e-7 + (1e-14 * min(ratio2, 1e13) if (multi and ratio2 > 1e6) else 0.0)) * sc
            ctx.case(('vac', name, t, str(d['eneT0'])), nontrivial=True)
            ctx.count('vacancy:' + name)
            _tensor_oracles(ctx, 'L0vv', ':' + name, L0vv, calc.crys, tol, rep)
            # crystals with origin states: Lss is not exact along the site-vector-basis direction (finding F13), tagged so
            _tensor_oracles(ctx, 'Lss', (':originstates:' if len(calc.OSindices) > 0 else ':') + name, Lss, calc.crys, tol, rep)
            _tensor_oracles(ctx, 'L1vv', ':' + name, L1vv, calc.crys, tol, rep, psd=False)
            axial = vc.has_invariant_axial(calc.crys)
            _tensor_oracles(ctx, 'Lsv', (':axial-group:' if axial else ':') + name, Lsv, calc.crys, tol, rep, psd=False)


def search(ctx, reasons):
    pass
