"""
C01 — Vacancy-mediated transport coefficients are exact in the dilute limit.

Lean (OnsagerModel/Chain.lean, OnsagerProofs/Chain.lean): every finite periodic one-solute/one-vacancy chain, shipped
transition by transition with exact rational weights, is evaluated exactly; the theorems say the returned coefficients
are the Green-Kubo/variational values of that chain (coeff_diag_eq_Qmin), reciprocal (formOf_symm), independent of the
solution of the singular rate equation (formOf_indep), and `dyson_identity` is the algebraic step of the Dyson update.
Tie / oracle: (A) the float chain solver of harness/oracle_chain.py is validated against the exact Lean evaluation at
small n; (B) VacancyMediated.Lij is compared with the n -> infinity extrapolation of that chain (four sizes) at
tolerance 3*extrapolation error + the calculator's own Brillouin-zone accuracy 5*|L(NGFmax=4) - L(NGFmax=6)|.
The Dyson/vector-star algorithm itself is not modelled (partial).
"""
import math
from fractions import Fraction
import numpy as np
import vacancy_common as vc
import oracle_chain as oc

META = dict(
    id='C01',
    lean_modules=['OnsagerProofs.Lemmas.Variational', 'OnsagerModel.C02', 'OnsagerModel.Chain', 'OnsagerProofs.C02',
                  'OnsagerProofs.C03', 'OnsagerProofs.Chain'],
    theorems=['Onsager.Chain.formOf_diag_eq_Qmin', 'Onsager.Chain.coeff_diag_eq_Qmin', 'Onsager.Chain.coeff_diag_nonneg',
              'Onsager.Chain.formOf_symm', 'Onsager.Chain.formOf_indep', 'Onsager.Chain.dyson_identity'],
    tie_theorems=[],
    level_text='Partial. Kernel-checked: for every finite reversible chain with two displacement fields (in particular the periodic '
               'one-solute/one-vacancy chain of any size and any data) the exact model returns the Green-Kubo/variational coefficients, '
               'they are reciprocal, gauge-independent and the diagonal ones non-negative; plus the matrix identity behind the Dyson '
               'update. NOT proved: the infinite-dilution limit (extrapolated numerically from four supercell sizes with a consistency error estimate) and the '
               'vector-star/Green-function algorithm of Lij, which is compared with that oracle on generated crystals and data.',
    level_note='Trusted: Lean kernel + standard axioms; harness/oracle_chain.py (chain construction from the calculator\'s own '
               'classification of transitions, validated against the exact model at small n; extrapolation in 1/n^d, 1/n^(d+2)); '
               'definition of the exact coefficients as the variational/Green-Kubo values. Modelled not verified: GFcalc, vector stars, numpy.',
    technique='Lean 4 theorems on the exact finite chain + exact/float chain cross-validation + comparison of Lij with the extrapolated chain',
    rule='vacancy calculators (FCC, BCC, HCP, SC, 2-D square/triangular/honeycomb, low-symmetry, origin-state crystals; Nthermo 1, 2 '
         'thorough) x random prefactors/energies for vacancy, solute, binding and omega0/1/2 transition states; non-trivial = solute '
         'differs from host; distinct by (calculator, data)',
    trusted=['supercell extrapolation error estimate'], assumptions=['odd supercell sizes large enough to contain the kinetic shell'],
)

DRIVER = 'Drive/Chain.lean'
LABELS = ('L0vv', 'Lss', 'Lsv', 'L1vv')


def sizes_for(calc, quick):
    if calc.crys.dim == 2: return (9, 13, 17, 21) if quick else (13, 17, 21, 25)
    if getattr(calc, 'Nthermo', 1) >= 2: return (7, 9, 11, 13)      # the kinetic shell (range Nthermo + 1) must not wrap
    return (5, 7, 9, 11) if (quick or calc.N > 1) else (7, 9, 11, 13)


def exact_rand_data(rng, calc, q=Fraction(3, 2)):
    """Rational prefactors / integer energies (units of ln q) incl. LIMB-like T1/T2 with perturbations."""
    NW, Nth, N0 = len(calc.sitelist), calc.thermo.Nstars, len(calc.om0_jn)
    P = lambda n: [Fraction(rng.randint(3, 16), 8) for _ in range(n)]
    E = lambda n, a, b: [rng.randint(a, b) for _ in range(n)]
    d = dict(preV=P(NW), eneV=E(NW, -1, 1), preS=P(NW), eneS=E(NW, -1, 1), preSV=P(Nth), eneSV=E(Nth, -1, 1),
             preT0=P(N0), eneT0=E(N0, 2, 4), preT1=P(len(calc.om1_jn)), eneT1=E(len(calc.om1_jn), 1, 5),
             preT2=P(len(calc.om2_jn)), eneT2=E(len(calc.om2_jn), 1, 5))
    return q, d


def float_data(q, d):
    lnq = math.log(float(q))
    return {k: (np.array([float(x) for x in v]) if k.startswith('pre') else np.array([e * lnq for e in v])) for k, v in d.items()}


def exact_tie(ctx):
    """(A) float chain solver vs exact Lean evaluation at small n."""
    cases = [('sq2d', 5), ('fcc', 5), ('rect2d-2site', 5)] if ctx.quick else \
            [('sq2d', 5), ('sq2d', 7), ('fcc', 5), ('bcc', 5), ('sc', 5), ('rect2d-2site', 5), ('tri2d', 5), ('honey2d', 5), ('oblique2d', 5)]
    lines, meta = [], []
    for name, n in cases:
        calc = vc.calculator(name, 1)
        q, d = exact_rand_data(ctx.rng, calc)
        ch = oc.chain_transitions(calc, oc.activities_exact(q, d), n)
        lines.append(oc.lean_request(ch, calc.crys)); lines.append(oc.lean_lone_request(ch, calc.crys))
        meta.append((name, n, calc, q, d, ch))
    answers = ctx.lean(DRIVER, lines, timeout=3000)
    for k, (name, n, calc, q, d, ch) in enumerate(meta):
        dim, N = calc.crys.dim, calc.N
        pair = oc.parse_lean(answers[2 * k], calc.crys, dim); lone = oc.parse_lean(answers[2 * k + 1], calc.crys, dim)
        rep = dict(calculator=name, n=n, q=str(q), data={kk: [str(x) for x in v] for kk, v in d.items()})
        ctx.case(('exact', name, n, str(d)), nontrivial=True, sample=dict(rep, states=int(ch['alive'].sum()), transitions=len(ch['trans'])))
        ctx.count('exact-chain:%s:n=%d' % (name, n))
        if pair is None or lone is None:
            ctx.disagree('exact chain model rejects the chain (%s / %s): not reversible or inconsistent' % (answers[2 * k][:40], answers[2 * k + 1][:40]), rep)
            continue
        L0 = lone[2] / N
        exact = (L0, pair[0] / N, pair[1] / N, pair[2] / N - (ch['ncell'] * N - 1) * L0)
        bf = calc.preene2betafree(1.0, **float_data(q, d))
        fl = oc.chain_L(calc, bf, n)
        for lab, a, b in zip(LABELS, exact, fl):
            sc = max(np.abs(a).max(), 1e-300) * (ch['ncell'] * N if lab == 'L1vv' else 1)
            if np.abs(a - b).max() > 1e-9 * sc:
                ctx.disagree('float chain oracle differs from the exact chain model for %s (%s n=%d): %.3g' % (lab, name, n, np.abs(a - b).max()),
                             dict(rep, exact=a.tolist(), float=np.asarray(b).tolist()))


def compare_code(ctx, name, calc, calc6, d, tag=''):
    """(B) Lij vs extrapolated chain.  Returns the list of (label, deviation, tolerance)."""
    bf = calc.preene2betafree(1.0, **d)
    L = calc.Lij(*bf)
    L6 = calc6.Lij(*bf)
    # the same object switched to the denser Green-function calculator must give what a calculator built with it gives
    try:
        calc.GFcalc = calc.GFcalculator(6)
        L46 = calc.Lij(*bf)
    finally:
        calc.GFcalc = calc.GFcalculator(4)
    for k, lab in enumerate(LABELS):
        dv = np.abs(np.asarray(L46[k]) - np.asarray(L6[k])).max()
        if not (dv <= 1e-10 * max(np.abs(np.asarray(L6[0])).max(), np.abs(np.asarray(L6[k])).max())):
            ctx.violation('gf-range-switch:%s:%s%s' % (lab, name, tag), '%s after switching the Green-function calculator of one VacancyMediated object from NGFmax 4 to 6 '
                          'differs by %.3g from a calculator constructed with NGFmax 6 (stale cached values?)' % (lab, dv),
                          dict(calculator=name, nthermo=calc.Nthermo, data=vc.jsonable(d), switched=np.asarray(L46[k]).tolist(), fresh=np.asarray(L6[k]).tolist()))
    ext, err, _ = oc.extrapolate(calc, bf, sizes_for(calc, ctx.quick))
    os_tag = 'originstates' if len(calc.OSindices) > 0 else 'no-originstates'
    if len(calc.sitelist) > 1 and 'preS' in d and (np.ptp(d['eneS']) > 1e-12 or np.ptp(d['preS']) > 1e-12):
        os_tag += ':nonuniform-solute-sites'
    rep = dict(calculator=name, nthermo=calc.Nthermo, data=vc.jsonable(d))
    out = []
    for k, lab in enumerate(LABELS):
        ref = ext[k].T if k == 2 else ext[k]      # the calculator returns Lsv with the vacancy index first
        sc = max(np.abs(ref).max(), np.abs(L[0]).max() * 1e-3, 1e-300)
        tolgf = max(5 * np.abs(np.asarray(L[k]) - np.asarray(L6[k])).max(), 1e-7 * sc)
        tol = 3 * err[k] + tolgf + 1e-9 * sc
        dev = np.abs(np.asarray(L[k]) - ref).max()
        out.append((lab, dev, tol))
        if not np.all(np.isfinite(L[k])) or dev > tol:
            ctx.violation('inexact:%s:%s:%s%s' % (lab, os_tag, name, tag),
                          '%s of %s differs from the exact dilute-limit chain value by %.3g (tolerance %.3g = 3*extrapolation error %.2g + BZ accuracy %.2g; scale %.3g)'
                          % (lab, name, dev, tol, err[k], tolgf, sc),
                          dict(rep, code=np.asarray(L[k]).tolist(), chain=ref.tolist(), sizes=list(sizes_for(calc, ctx.quick))))
    return out


def run(ctx):
    exact_tie(ctx)
    names = ['sq2d', 'fcc', 'oblique2d', 'rect2d-2site', 'twoW', 'ortho'] if ctx.quick else \
            ['sq2d', 'fcc', 'bcc', 'sc', 'hcp', 'tri2d', 'honey2d', 'oblique2d', 'triclinic', 'rumpled', 'rect2d-2site', 'twoW', 'ortho', 'mono']
    for name in names:
        calc, calc6 = vc.calculator(name, 1, 4), vc.calculator(name, 1, 6)
        for t in range(2 if ctx.quick else 5):
            d = vc.rand_data(ctx.rng, calc, spread=(1.0 if t % 2 == 0 else 2.5))
            if len(calc.sitelist) > 1 and t % 2 == 1:
                # several Wyckoff sets: also the case of a solute with the same data on every set
                for k in ('preS', 'eneS'): d[k] = np.full_like(d[k], d[k][0])
                d.update(calc.makeLIMBpreene(**d))
            res = compare_code(ctx, name, calc, calc6, d)
            ctx.case(('code', name, t, str(d['eneT1'])), nontrivial=True,
                     sample=dict(calculator=name, deviations={lab: [float(dev), float(tol)] for lab, dev, tol in res}))
            ctx.count('code-vs-chain:' + name)
    # thermodynamic range 2: crystals where a kinetic-only star lies closer than the outermost thermodynamic star (sc, bcc) included
    if True:
        for name in (('sc',) if ctx.quick else ('sq2d', 'fcc', 'tri2d', 'sc', 'bcc')):
            calc, calc6 = vc.calculator(name, 2, 4), vc.calculator(name, 2, 6)
            for t in range(1 if ctx.quick else 2):
                d = vc.rand_data(ctx.rng, calc)
                compare_code(ctx, name, calc, calc6, d, tag=':Nthermo2')
                ctx.case(('code', name, 'N2', t, str(d['eneT1'])), nontrivial=True); ctx.count('code-vs-chain:Nthermo2:' + name)


def search(ctx, reasons):
    pass
