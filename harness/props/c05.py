"""
C05 — Rayleigh monotonicity: lowering one transition-state free energy never decreases the interstitial
diffusivity, the bare vacancy coefficient or the solute-solute coefficient, in any direction.

Lean: OnsagerProofs/C05.lean `lowering_monotone` (for every network, data, class, amount, direction — exact model of
OnsagerModel/C02.lean), resting on Var.Q_mono.  Tie: pairs (data, data with one barrier lowered) through the model
(`lower k d` request) and through Interstitial.diffusivity; vacancy-mediated coefficients through the direct oracle
(`vacancy_part`).
"""
import math
from fractions import Fraction
import numpy as np
import interstitial_common as ic

META = dict(
    id='C05',
    lean_modules=['OnsagerProofs.Lemmas.Variational', 'OnsagerModel.C02', 'OnsagerModel.C05', 'OnsagerModel.InterstitialDriver',
                  'OnsagerProofs.C02', 'OnsagerProofs.C05', 'OnsagerModel.Chain', 'OnsagerModel.ChainMono', 'OnsagerProofs.Chain', 'OnsagerProofs.ChainMono'],
    theorems=['Onsager.Var.Q_le_of_rateLE', 'Onsager.Var.Q_mono', 'Onsager.C05.rate_lower', 'Onsager.C05.lowering_monotone',
              'Onsager.Chain.chain_monotone'],
    tie_theorems=[],
    level_text='Kernel-checked for the exact interstitial model: for every network, rational data with q>=1, jump class, amount and '
               'direction, lowering a transition-state energy never lowers u.D.u (site probabilities untouched, class rates multiplied by '
               'q^delta>=1, minimum of the variational functional monotone in the rates). For the vacancy-mediated coefficients: kernel-checked '
               'for EVERY finite reversible solute-vacancy chain (chain_monotone: same transitions, weights nowhere smaller => every diagonal '
               'Lss and Lvv component not smaller); the hypothesis is decided by the driver on the periodic chains built from the '
               'implementation tables before/after lowering an omega0/omega1/omega2 barrier. The infinite-dilution limit computed by Lij '
               '(Green function) is tied by the direct oracle only (partial).',
    level_note='Trusted: Lean kernel + standard axioms; the correspondence of Interstitial.diffusivity with the exact model (C02); '
               'for the vacancy-mediated coefficients the Green-function numerics are outside the model.',
    technique='Lean 4 monotonicity theorem on the exact model + differential pairs on Interstitial.diffusivity + PSD oracle on VacancyMediated.Lij',
    rule='networks x random data x every jump class lowered by a random amount (1..3 ln q quick, up to 40 thorough); non-trivial = the '
         'diffusivity strictly increases; distinct by (network, data, class, amount); vacancy part: each omega0/omega1/omega2 class of '
         'small calculators lowered individually, default and forced large-omega2 algorithm',
    trusted=['identification of the exact diffusivity with the minimum of the variational functional'],
    assumptions=['q >= 1 so that a lower energy is a higher Boltzmann factor'],
)

DRIVER = 'Drive/Interstitial.lean'


def run(ctx):
    from onsager import OnsagerCalc
    nets = ic.networks()
    ncase = 24 if ctx.quick else 400
    dmax = 3 if ctx.quick else 40
    plan, lines = [], []
    for t in range(ncase):
        name, crys, chem, sl, jn = nets[t % len(nets)]
        key = ('diff', name)
        if key not in ic._CACHE:
            ic._CACHE[key] = (OnsagerCalc.Interstitial(crys, chem, sl, jn), ic.lattice_jumps(crys, jn))
        diffuser, ljumps = ic._CACHE[key]
        data = ic.rand_data(ctx.rng, len(sl), len(jn), emax=4)
        base = ic.request_line(diffuser.N, crys.dim, diffuser.invmap, ljumps, data)
        ibase = len(lines)
        lines.append('D # ' + base)
        ks = list(range(len(jn)))
        if ctx.quick and len(ks) > 3: ks = ctx.rng.sample(ks, 3)
        for k in ks:
            delta = ctx.rng.randint(1, dmax)
            plan.append((name, crys, diffuser, data, k, delta, ibase, len(lines)))
            lines.append('lower %d %d # %s' % (k, delta, base))
    answers = ctx.lean(DRIVER, lines, timeout=3000)
    for name, crys, diffuser, data, k, delta, ibase, idx in plan:
        dim = crys.dim
        a0, a1 = answers[ibase], answers[idx]
        rep = dict(network=name, data={kk: str(v) for kk, v in data.items()}, cls=k, delta=delta)
        if not (a0.startswith('ok') and a1.startswith('ok')):
            ctx.disagree('model rejects input: %s / %s' % (a0, a1), rep); continue
        L = crys.lattice
        Dm0 = L @ ic.parse_answer(a0, dim)[0] @ L.T
        Dm1 = L @ np.array([float(Fraction(x)) for x in a1[3:].split(',')]).reshape(dim, dim) @ L.T
        args0 = ic.py_args(data)
        data1 = dict(data); data1['eneT'] = list(data['eneT']); data1['eneT'][k] -= delta
        args1 = ic.py_args(data1)
        D0 = diffuser.diffusivity(*args0); D1 = diffuser.diffusivity(*args1)
        scale = max(np.abs(D1).max(), 1e-300)
        # float conditioning of the singular solve: ~1e3 eps x (ratio of the largest to the smallest rate); beyond 1e12 nothing is resolved
        tol = 1e-9 * scale + 1e-13 * scale * min(ic.rate_spread(data1), 1e12)
        wmin_model = np.linalg.eigvalsh(Dm1 - Dm0).min()
        wmin = np.linalg.eigvalsh(D1 - D0).min()
        ctx.case((name, str(data), k, delta), nontrivial=bool(np.linalg.eigvalsh(D1 - D0).max() > 1e-9 * scale),
                 sample=dict(rep, increase_eigs=np.linalg.eigvalsh(D1 - D0).tolist()))
        ctx.count('net:' + name)
        if wmin_model < -1e-12 * scale:
            ctx.disagree('exact model contradicts lowering_monotone?! min eig %g' % wmin_model, rep)
        # cross-check only (exactness is C02's property, with its own direction-resolved error bound): ten times the conditioning allowance
        if np.abs(D1 - Dm1).max() > 10 * tol or np.abs(D0 - Dm0).max() > 10 * tol:
            ctx.disagree('implementation differs from exact model (see C02)', dict(rep, D_impl=D1.tolist(), D_model=Dm1.tolist()))
        if wmin < -tol:
            ctx.violation('interstitial-decreases:%s' % name,
                          'lowering transition-state energy of class %d by %d ln q decreased the diffusivity (min eigenvalue of the change %.3g)' % (k, delta, wmin),
                          dict(rep, D_before=D0.tolist(), D_after=D1.tolist()))
    chain_part(ctx)
    vacancy_part(ctx)


def chain_part(ctx):
    """Exact finite solute-vacancy chains before/after lowering one transition-state energy: the hypothesis of
    Chain.chain_monotone (same transitions and displacements, weights nowhere smaller) is decided by the driver on the two
    chains built from the implementation's own tables, and the exact coefficients are compared."""
    import vacancy_common as vc, oracle_chain as oc
    from props.c01 import exact_rand_data
    rng = ctx.rng
    cases = [('sq2d', 5), ('rect2d-2site', 5), ('honey2d', 5)] if ctx.quick else \
            [('sq2d', 5), ('sq2d', 7), ('tri2d', 5), ('honey2d', 5), ('rect2d-2site', 5), ('oblique2d', 5), ('fcc', 5), ('bcc', 5)]
    mono, exact, meta = [], [], []
    for name, n in cases:
        calc = vc.calculator(name, 1)
        for rep_ in range(1 if ctx.quick else 3):
            q, d = exact_rand_data(rng, calc)
            which = rng.choice(['eneT0', 'eneT1', 'eneT2'])
            j = rng.randrange(len(d[which])); amt = rng.randint(1, 3)
            d1 = {k: list(v) for k, v in d.items()}; d1[which][j] -= amt
            try:
                ch0 = oc.chain_transitions(calc, oc.activities_exact(q, d), n)
                ch1 = oc.chain_transitions(calc, oc.activities_exact(q, d1), n)
            except ValueError as e:
                ctx.note('chain %s n=%d skipped: %s' % (name, n, e)); continue
            l0 = oc.lean_request(ch0, calc.crys); l1 = oc.lean_request(ch1, calc.crys)
            mono.append(l0.rsplit(' | ', 1)[0] + ' # ' + l1.rsplit(' | ', 1)[0])
            exact += [l0, l1]
            meta.append((name, n, calc, which, j, amt, d))
    if not meta: return
    ans_m = ctx.lean('Drive/ChainMono.lean', mono, timeout=3000)
    ans_e = ctx.lean('Drive/Chain.lean', exact, timeout=3000)
    for k, (name, n, calc, which, j, amt, d) in enumerate(meta):
        dim = calc.crys.dim
        rep = dict(calculator=name, n=n, lowered=[which, j, amt], data={kk: [str(x) for x in v] for kk, v in d.items()})
        ctx.case(('chain-mono', name, n, which, j, amt, str(d)), nontrivial=True, sample=rep)
        ctx.count('chain:%s:%s' % (name, which)); ctx.count('chain:' + ans_m[k])
        a, b = ans_e[2 * k], ans_e[2 * k + 1]
        if ans_m[k] != 'raised=1':
            ctx.disagree('the chains before/after lowering %s[%d] do not satisfy the hypothesis of chain_monotone (%s): the chain construction from the '
                         'implementation tables changed states, transitions or lowered a weight' % (which, j, ans_m[k]), rep); continue
        if not (a.startswith('ok ') and b.startswith('ok ')):
            ctx.disagree('exact chain model rejects a chain: %s / %s' % (a[:30], b[:30]), rep); continue
        ta = [[Fraction(x) for x in p_.strip().split(',')] for p_ in a[3:].split('|')]
        tb = [[Fraction(x) for x in p_.strip().split(',')] for p_ in b[3:].split('|')]
        for blk, lab in ((0, 'Lss'), (2, 'Lvv')):
            for al in range(dim):
                if tb[blk][al * dim + al] < ta[blk][al * dim + al]:
                    ctx.disagree('exact model contradicts chain_monotone: %s_%d%d decreases' % (lab, al, al), rep)
        if any(tb[0][al * dim + al] > ta[0][al * dim + al] for al in range(dim)): ctx.count('chain:strict-increase')


def vacancy_part(ctx):
    """Direct oracle on VacancyMediated.Lij: L0vv and Lss never decrease when one omega0/1/2 barrier is lowered."""
    import vacancy_common as vc
    for calc in vc.small_calculators(ctx):
        vc.monotonicity_oracle(ctx, calc)


def search(ctx, reasons):
    pass
