"""
C25 — Vector-star bases are orthonormal, equivariant and complete; the expansion arrays are the projections of the
directly assembled pair-state-space quantities onto that basis.

Layers (all run by `./check C25 quick|thorough`):
 (1) Lean: finite-group averaging facts (idempotent, range = fixed space, dim = character average), robust
     independence and the counting argument; soundness of the executable checker `Inst.check`
     (OnsagerProofs/C25Sound.lean); `expansions_are_projections` (OnsagerProofs/C25Exp.lean).
 (2) Tie: the real VectorStarSet output (vecpos/vecvec, float entries rationalised exactly) together with the crystal's
     group — exact rational rotations L rot L^-1 built from the integer lattice rotations, the state permutations and
     the multiplication table — goes through the verified checker (Drive/C25.lean `check`); the model's expansion
     formulas are evaluated exactly on the same basis and jump networks and compared with the code's arrays
     (`expand`, `gf`, `fold`).
 (3) Direct oracles on the implementation (harness/props/_c25_impl.py): orthonormality, equivariance under every
     crys.G operation, completeness count (character average and rank), `outer`; and the projection of independently
     assembled state-space matrices (Green function, omega1/omega2 rate matrices incl. escapes, bias vectors, bare
     diffusivity, origin-state fold-down) with the code's own basis against `np.dot(expansion, rates)`.
"""
import os, sys, time, math, random
for _k in ('OMP_NUM_THREADS', 'OPENBLAS_NUM_THREADS', 'MKL_NUM_THREADS'):
    os.environ.setdefault(_k, '1')      # worker processes: no nested BLAS threading
from fractions import Fraction
import multiprocessing as mp
import numpy as np

META = dict(
    id='C25',
    level_text='Kernel-checked, for every finite matrix group given by tables (any size, any dimension): the group '
               'average is idempotent, its range is exactly the fixed space and dim(fixed space) = |G|^-1 sum tr (proved '
               'directly from idempotent => trace = rank); a family whose Gram matrix is within eps of the identity '
               '(m eps < 1) is independent; soundness of the executable checker isVectorStarBasis: accepted => the group '
               'averages w_i = P v_i of the vector stars are a basis of the space of equivariant vector fields on the star '
               'set (members, independent, spanning, count = character dimension), orthonormal within tol, and every v_i '
               'is within tol of w_i; for tol = 0 the v_i themselves are an orthonormal basis. expansions_are_projections: '
               'for ANY basis, jump lists and rates the rate / escape / bias / Green-function / origin-state reference '
               'expansion formulas contracted with the rates equal the projection (U^T W U, U^T b) of the directly '
               'assembled state-space quantity; the representative-state shortcut of biasexpansions equals the full '
               'projection for equivariant data. Partial: the construction of the perpendicular vectors (float branching '
               'on g00, g11, g01) is not modelled - its output is checked on every run by the verified checker, by the '
               'exact evaluation of the model formulas against the code arrays, and by direct oracles on all crystals.',
    level_note='Trusted: Lean kernel + standard axioms; the harness extraction of the group action (PairState.g, GroupOp.rot) '
               'and the exact rational rotations L rot L^-1 (checked against g.cartrot to 1e-12 in Python; the group '
               'axioms themselves are re-checked exactly by the Lean checker); float -> Fraction conversion. The per-star '
               'form of the count (sum over stars of the stabiliser character average, and the exact rank) is computed by '
               'the model and compared at run time, the theorem uses the equivalent field-level character formula. '
               'Modelled, not verified: numpy einsum/dot, np.isclose thresholds inside VectorStarSet.generate.',
    technique='Lean 4 linear-algebra proofs (group averaging, trace of idempotents, diagonal dominance) + verified '
              'checker on exact rationalised implementation output + exact model evaluation of the expansion formulas + '
              'direct oracles with independently assembled state-space matrices',
    lean_modules=['OnsagerModel.C25', 'OnsagerProofs.C25', 'OnsagerProofs.C25Sound', 'OnsagerProofs.C25Exp'],
    theorems=['Onsager.C25.' + t for t in (
        'avgMap_idem', 'range_avgMap', 'finrank_fixedSpace_eq_trace', 'char_formula',
        'linearIndependent_of_near_orthonormal', 'span_eq_of_card_eq_finrank',
        'repOK_sound', 'equivariant_iff', 'finrank_equivariantSpace', 'avg_mem', 'avg_of_equivariant',
        'isVectorStarBasis_sound', 'isVectorStarBasis_sound_exact',
        'rate_expansion_is_projection', 'escape_expansion_is_projection', 'bias_expansion_is_projection',
        'bare_expansion_linear', 'proj_apply', 'expansions_are_projections', 'projection_linear',
        'biasExpCode_eq_rep', 'biasExpCode_eq_biasExp', 'gf_expansion_is_projection',
        'rate0Exp2_eq_proj', 'esc0Exp2_eq_proj')],
    tie_theorems=[],
    rule='case = (crystal, Nthermo): crystals are the named zoo (FCC, BCC, HCP, SC, diamond, B2, 2-D square / triangular / '
         'honeycomb, rumpled and rect2d two-site cells with a site vector basis, triclinic, oblique, monoclinic, '
         'rhombohedral, orthorhombic), rigidly rotated copies of them (lattice -> Q.lattice, tilts 1e-4 (1e-5 thorough) .. 1 deg and generic '
         'angles about several axes: float oracles + rotation covariance of the span of the vector stars), plus random '
         'members of lattice families with random parameters, plus object-reuse histories (one VectorStarSet / calculator '
         'used for star set A with all expansions computed, then for B with other Nshells or crystal parameter; compared '
         'with a fresh object); Nthermo 1..2 quick, '
         '1..3 thorough; random class rates per case. Every case runs the direct oracles and the projection comparison; '
         'the small ones also go through the Lean checker and the exact model expansions. Non-trivial = at least two '
         'vector stars and a non-trivial group or a multi-site basis; distinct by (lattice, basis, cutoff, Nthermo).',
    trusted=['harness/props/_c25_impl.py: independent assembly of the state-space matrices and the projection',
             'harness/props/c25.py: exact rational group representation L rot L^-1 (the Lean checker re-verifies the '
             'group axioms, the harness checks closeness to g.cartrot)'],
    assumptions=['Green-function class values used for the comparison are symmetric under exchange of the end points '
                 '(G(s,t) = G(t,s)), as for the symmetrised generator; the code copies the upper triangle',
                 'tolerances: 1e-8 for the direct oracles on float output, 1e-10*scale for the projection comparison, '
                 '1e-9 in the exact checker; array entries may be off by the 1e-8 of zeroclean'],
)

DRIVER = 'Drive/C25.lean'
TOL_Q = Fraction(1, 10 ** 9)


# ---------------------------------------------------------------- exact data for the Lean checker
def _fr(x):
    f = Fraction(float(x))
    return str(f.numerator) if f.denominator == 1 else '%d/%d' % (f.numerator, f.denominator)


def _frq(f):
    return str(f.numerator) if f.denominator == 1 else '%d/%d' % (f.numerator, f.denominator)


def _matinv(M):
    n = len(M)
    A = [list(r) + [Fraction(int(i == j)) for j in range(n)] for i, r in enumerate(M)]
    for c in range(n):
        p = next(r for r in range(c, n) if A[r][c] != 0)
        A[c], A[p] = A[p], A[c]
        pv = A[c][c]
        A[c] = [x / pv for x in A[c]]
        for r in range(n):
            if r != c and A[r][c] != 0:
                f = A[r][c]
                A[r] = [x - f * y for x, y in zip(A[r], A[c])]
    return [r[n:] for r in A]


def _matmul(A, B):
    return [[sum(A[i][k] * B[k][j] for k in range(len(B))) for j in range(len(B[0]))] for i in range(len(A))]


def group_tables(ss):
    """(perm, rho, rhoInv, mul) for crys.G acting on the states of `ss`; rho exact rationals = Lq rot Lq^-1."""
    from ._c25_impl import state_action
    crys, chem, dim = ss.crys, ss.chem, ss.crys.dim
    G, perm = state_action(ss, crys, chem)
    if any(x is None for p in perm for x in p):
        return None
    Lq = [[Fraction(float(crys.lattice[i, j])) for j in range(dim)] for i in range(dim)]
    Li = _matinv(Lq)
    rots = [[[Fraction(int(g.rot[i, j])) for j in range(dim)] for i in range(dim)] for g in G]
    rho = [_matmul(_matmul(Lq, r), Li) for r in rots]
    rhoInv = [_matmul(_matmul(Lq, _matinv(r)), Li) for r in rots]
    dev = max(abs(float(rho[k][i][j]) - G[k].cartrot[i, j]) for k in range(len(G)) for i in range(dim) for j in range(dim))
    if dev > 1e-12:
        raise RuntimeError('exact rotation L rot L^-1 deviates from cartrot by %g' % dev)
    key = {}
    for k, g in enumerate(G):
        key[(tuple(int(x) for x in np.asarray(g.rot).flatten()), tuple(perm[k]))] = k
    mul = []
    for h in range(len(G)):
        row = []
        for g in range(len(G)):
            r = np.dot(G[h].rot, G[g].rot)
            p = tuple(perm[h][perm[g][s]] for s in range(ss.Nstates))
            row.append(key.get((tuple(int(x) for x in r.flatten()), p), len(G)))   # len(G) = "not found" -> ERR shape
        mul.append(row)
    return perm, rho, rhoInv, mul


def v_rows(vk, ns, dim):
    rows = []
    for pos, vec in zip(vk.vecpos, vk.vecvec):
        cells = ['0'] * (ns * dim)
        for p, v in zip(pos, vec):
            for a in range(dim):
                cells[p * dim + a] = _fr(v[a])
        rows.append(','.join(cells))
    return ';'.join(rows) if rows else '-'


def lean_lines(c, gfcap=2000000):
    """Request lines (and what to compare the answers with) for one calculator."""
    ss, vk, dim = c.kinetic, c.vkinetic, c.crys.dim
    ns, nv = ss.Nstates, vk.Nvstars
    tabs = group_tables(ss)
    if tabs is None: return None
    perm, rho, rhoInv, mul = tabs
    N = len(perm)
    flat = lambda M: ','.join(_frq(x) for r in M for x in r)
    vtxt = v_rows(vk, ns, dim)
    reps = [int(s[0]) for s in ss.stars]
    lines = []
    lines.append('check %d %d %d %d %s | %s | %s | %s | %s | %s | %s' % (
        ns, dim, N, nv, _frq(TOL_Q),
        ';'.join(','.join(str(x) for x in p) for p in perm),
        ';'.join(flat(r) for r in rho), ';'.join(flat(r) for r in rhoInv),
        ';'.join(','.join(str(x) for x in r) for r in mul), vtxt, ','.join(map(str, reps))))
    os_ = []
    origin = {PS.i: s for s, PS in enumerate(ss.states) if PS.iszero()}
    for PS in ss.states:
        os_.append(-1 if PS.iszero() else origin.get(PS.i, -1))
    rep = [int(p[0]) for p in vk.vecpos]
    ln = [len(p) for p in vk.vecpos]

    def classes(jn):
        return ';'.join((':'.join('%d,%d,%s' % (IS, FS, ','.join(_fr(x) for x in dx)) for (IS, FS), dx in jl) or '_')
                        for jl in jn) or '-'
    for jn in (c.om1_jn, c.om2_jn):
        lines.append('expand %d %d %d | %s | %s | %s | %s | %s' % (
            ns, dim, nv, vtxt, classes(jn), ','.join(map(str, os_)), ','.join(map(str, rep)), ','.join(map(str, ln))))
    gss = c.GFstarset
    idx = []
    for s in range(ns):
        for t in range(ns):
            k = gss.starindex(ss.states[t] ^ ss.states[s]) if ss.states[s].i == ss.states[t].i else None
            idx.append(-1 if k is None else int(k))
    # the model's Green-function expansion is the plain double sum over states: m^2 K n^2 exact operations
    if nv * nv * gss.Nstars * ns * ns <= gfcap:
        lines.append('gf %d %d %d %d | %s | %s' % (ns, dim, nv, gss.Nstars, vtxt, ','.join(map(str, idx))))
    else:
        lines.append(None)
    osl = ','.join(str(int(x)) for x in c.OSindices) or '-'
    lines.append('fold %d %d %d | %s | %s | %s' % (ns, dim, nv, vtxt, ','.join(str(int(PS.i)) for PS in ss.states), osl))
    lines.append('fold %d %d %d | %s | %s | %s' % (ns, dim, nv, vtxt, ','.join(str(int(PS.j)) for PS in ss.states), osl))
    return lines


def _ratlist(txt):
    if txt in ('-', ''): return np.zeros(0)
    return np.array([float(Fraction(x)) for x in txt.split(',')])


def _kv(ans):
    return dict(tok.split('=', 1) for tok in ans.split()[1:] if '=' in tok)


def compare_lean(c, answers, expect_oracle_sigs):
    """-> list of (sig or None, what, detail): differences between the Lean model / checker and the implementation."""
    out = []
    ss, vk, dim = c.kinetic, c.vkinetic, c.crys.dim
    nv, n0 = vk.Nvstars, len(c.om0_jn)
    a_check, a_om1, a_om2, a_gf, a_fs, a_fv = answers
    if not a_check.startswith('ok '):
        out.append((None, 'Lean checker could not read the instance: ' + a_check[:80], {}))
    else:
        kv = _kv(a_check)
        stabchar = [Fraction(x) for x in kv['stabChar'].split(',')] if kv['stabChar'] != '-' else []
        stabrank = [int(x) for x in kv['stabRank'].split(',')] if kv['stabRank'] != '-' else []
        starsum = sum(stabchar)
        if kv['rep'] != '1':
            out.append((None, 'Lean: the extracted tables are not a group representation (harness/extraction problem)', kv))
        else:
            if any(x.denominator != 1 for x in stabchar) or [int(x) for x in stabchar] != stabrank:
                out.append((None, 'Lean: character average and exact rank of a stabiliser disagree', kv))
            if Fraction(kv['charSum']) != starsum * len(list(ss.crys.G)):
                out.append((None, 'Lean: field-level character sum differs from the sum over stars of the stabiliser dimensions', kv))
            if kv['check'] != '1':
                bad = [k for k in ('small', 'orthoV', 'equiv', 'close', 'orthoW', 'count') if kv[k] != '1']
                sig = None
                if expect_oracle_sigs and set(bad) <= {'equiv', 'close', 'count', 'orthoW'}:
                    sig = sorted(expect_oracle_sigs)[0]      # explained by the direct oracle's violation on the same case
                out.append((sig, 'verified checker isVectorStarBasis rejects the implementation output (%s); vector stars %d, '
                                 'sum of stabiliser dimensions %s' % (','.join(bad), nv, starsum), kv))

    osrows = {int(x) for x in c.OSindices}

    def cmp(label, model, code, sig=None):
        code = np.asarray(code, dtype=float)
        if model.size != code.size:
            out.append((None, 'Lean %s: %d values, implementation %d' % (label, model.size, code.size), {})); return
        if code.size == 0: return
        dev = np.abs(model.reshape(code.shape) - code)
        if dev.max() > 1e-10 * max(1., np.abs(code).max()):
            idx = np.unravel_index(np.argmax(dev), dev.shape)
            if sig is not None:
                bad = np.argwhere(dev > 1e-10 * max(1., np.abs(code).max()))
                sig = sig if all(int(b[0]) in osrows for b in bad) else None
            out.append((sig, 'model %s = %.12g, implementation %.12g at %s' % (label, model.reshape(code.shape)[idx], code[idx], list(map(int, idx))),
                        dict(index=list(map(int, idx)), model=float(model.reshape(code.shape)[idx]), code=float(code[idx]))))

    def bytype(arr, jt, shape_lead):
        """sum the per-class model values (class index last) into per-jump-type values"""
        arr = arr.reshape(shape_lead + (len(jt),)) if len(jt) else np.zeros(shape_lead + (0,))
        res = np.zeros(shape_lead + (n0,))
        for k, t in enumerate(jt): res[..., t] += arr[..., k]
        return res
    tag = 'originstates' if len(c.OSindices) > 0 else 'plain'
    for label, ans, jn, jt, exp1, esc1, b1, D1, exp0, esc0, b0, D0, is2 in (
            ('om1', a_om1, c.om1_jn, c.om1_jt, c.om1expansion, c.om1escape, c.om1bias, c.Dom1, c.om1_om0, c.om1_om0escape, c.om1_b0, c.Dom1_om0, False),
            ('om2', a_om2, c.om2_jn, c.om2_jt, c.om2expansion, c.om2escape, c.om2bias, c.Dom2, c.om2_om0, c.om2_om0escape, c.om2_b0, c.Dom2_om0, True)):
        if not ans.startswith('ok '):
            out.append((None, 'Lean expand (%s) failed: %s' % (label, ans[:80]), {})); continue
        kv = {k: _ratlist(x) for k, x in _kv(ans).items()}
        nk = len(jn)
        cmp(label + ' rate1expansion', kv['rate'], exp1)
        cmp(label + ' rate1escape', kv['esc'], esc1)
        cmp(label + ' D1expansion', kv['bare'], D1)
        cmp(label + ' D0expansion', bytype(kv['bare'], jt, (dim, dim)), D0)
        if not is2:
            cmp(label + ' bias1expansion (representative shortcut)', kv['biascode'], b1)
            cmp(label + ' bias1expansion (full projection)', kv['bias'], b1)
            cmp(label + ' rate0expansion', bytype(kv['rate'], jt, (nv, nv)), exp0)
            cmp(label + ' rate0escape', bytype(kv['esc'], jt, (nv,)), esc0)
            cmp(label + ' bias0expansion', bytype(kv['bias'], jt, (nv,)), b0)
            cmp('outer', kv['outer'], vk.outer)
        else:
            cmp(label + ' bias1expansion (with origin states)', kv['bias0'], b1)
            cmp(label + ' rate0expansion (through origin states)', bytype(kv['rate0'], jt, (nv, nv)), exp0)
            pred = getattr(c, 'om2_esc_overcount', None)
            known = pred is not None and np.shape(pred) == np.shape(esc0) and np.allclose(pred, esc0, rtol=0., atol=1e-9)
            cmp(label + ' rate0escape (through origin states)', bytype(kv['esc0'], jt, (nv,)), esc0,
                sig='om2:rate0escape:' + tag + ':OSvstar:' + ('overcount' if known else 'mismatch'))
            cmp(label + ' bias0expansion (with origin states)', bytype(kv['bias0'], jt, (nv,)), b0)
    if a_gf is None:
        pass
    elif not a_gf.startswith('ok '):
        out.append((None, 'Lean gf failed: ' + a_gf[:80], {}))
    else:
        cmp('GFexpansion', _ratlist(a_gf[3:].strip()), c.GFexpansion)
    for label, ans, code in (('OSfolddown', a_fs, c.OSfolddown), ('OSVfolddown', a_fv, c.OSVfolddown)):
        if not ans.startswith('ok '):
            out.append((None, 'Lean fold failed: ' + ans[:80], {}))
        else:
            cmp(label, _ratlist(ans[3:].strip()), code)
    return out


# ---------------------------------------------------------------- one case (worker process)
def _build(task):
    from . import _c25_impl as I
    if task['kind'] in ('zoo', 'rot', 'reuse'):
        crys, chem, cut = I.zoo()[task['name']]
    else:
        fam, crys, chem, cut = I.random_crystal(random.Random(task['cseed']))
        task['name'] = 'random:' + fam
    return crys, chem, cut


def _job(task):
    import warnings
    warnings.simplefilter('ignore')
    from . import _c25_impl as I
    t0 = time.time()
    res = dict(task=task, records=[], lean=None, err=None)
    try:
        crys, chem, cut = _build(task)
        if task['kind'] == 'reuse':
            # object-reuse histories: no new crystal/case of the main stream, only the comparison reused vs fresh
            crysB = crys if task['eps'] == 0. else I.parameter_variant(crys, chem, task['eps'])
            res['info'] = dict(name='%s reuse %s %d->%d%s' % (task['name'], task['level'], task['nA'], task['nB'],
                                                              '' if task['eps'] == 0. else ' param%+g' % task['eps']),
                               N=task['nB'], dim=crys.dim, G=len(list(crys.G)), states=0, stars=0, vstars=2, om1=0, om2=0, OS=0,
                               nsites=len(crys.basis[chem]), lattice=np.asarray(crys.lattice).tolist(),
                               basis=[np.asarray(u).tolist() for u in crys.basis[chem]], cutoff=cut,
                               history=dict(level=task['level'], nA=task['nA'], nB=task['nB'], eps=task['eps']))
            if task['level'] == 'calculator':
                res['records'] += I.calculator_reuse_oracles(crys, chem, cut, task['nA'], task['nB'], np.random.default_rng(task['seed']))
            else:
                res['records'] += I.reuse_oracles(crys, crysB, chem, cut, task['nA'], task['nB'])
            res['secs'] = time.time() - t0
            return res
        base = None
        if task['kind'] == 'rot':
            # rigidly rotated copy (lattice -> Q.lattice): everything must be the rotated image of the unrotated result
            Q = I.rotation(crys.dim, task['axis'], task['deg'])
            c0 = I.light_calculator(crys, chem, cut, task['N'])
            base = (c0.kinetic, c0.vkinetic)
            crys = I.rotated_crystal(crys, Q)
        c = I.light_calculator(crys, chem, cut, task['N'])
        ss, vk = c.kinetic, c.vkinetic
        res['info'] = dict(name=task['name'], N=task['N'], dim=crys.dim, G=len(list(crys.G)), states=ss.Nstates, stars=ss.Nstars,
                           vstars=vk.Nvstars, om1=len(c.om1_jn), om2=len(c.om2_jn), OS=len(c.OSindices),
                           nsites=len(crys.basis[chem]),
                           lattice=np.asarray(crys.lattice).tolist(), basis=[np.asarray(u).tolist() for u in crys.basis[chem]],
                           cutoff=cut)
        res['records'] += I.vector_star_oracles(ss, vk)
        if base is not None:
            res['records'] += I.covariance_oracle(base, (ss, vk), Q)
            res['info']['name'] = '%s rotated %g deg about %s' % (task['name'], task['deg'], list(task['axis']))
        res['records'] += I.projection_oracles(c, np.random.default_rng(task['seed']))
        nG, n_, m_, d_ = len(list(crys.G)), ss.Nstates, vk.Nvstars, crys.dim
        # exact-arithmetic operations of the Lean checker: Gram matrices, equivariance/average, group axioms
        cost = 2 * m_ * m_ * n_ * d_ + 2 * nG * m_ * n_ * d_ * d_ + nG * nG * (n_ + d_ ** 3) + nG ** 3
        res['info']['leancost'] = cost
        if task.get('lean') and cost <= task['leancap']:
            lines = lean_lines(c, task.get('gfcap', 2000000))
            if lines is not None:
                res['lean'] = lines
                # keep only what compare_lean needs (the calculator itself is not picklable cheaply)
                res['calc'] = _slim(c)
    except Exception as e:
        import traceback
        res['err'] = '%r\n%s' % (e, traceback.format_exc()[-1500:])
    res['secs'] = time.time() - t0
    return res


class _Slim(object):
    pass


def _slim(c):
    """picklable copy of the arrays compare_lean reads"""
    s = _Slim()
    for k in ('om1_jt', 'om2_jt', 'om1expansion', 'om1escape', 'om1bias', 'Dom1', 'om1_om0', 'om1_om0escape', 'om1_b0',
              'Dom1_om0', 'om2expansion', 'om2escape', 'om2bias', 'Dom2', 'om2_om0', 'om2_om0escape', 'om2_b0', 'Dom2_om0',
              'GFexpansion', 'OSfolddown', 'OSVfolddown', 'OSindices'):
        setattr(s, k, getattr(c, k))
    from ._c25_impl import om2_escape_overcount_prediction
    s.om2_esc_overcount = om2_escape_overcount_prediction(c)
    s.om1_jn = [None] * len(c.om1_jn); s.om2_jn = [None] * len(c.om2_jn); s.om0_jn = [None] * len(c.om0_jn)
    s.kinetic = _Slim(); s.kinetic.crys = _Slim(); s.kinetic.crys.G = [None] * len(list(c.crys.G))
    s.crys = _Slim(); s.crys.dim = c.crys.dim
    s.vkinetic = _Slim(); s.vkinetic.Nvstars = c.vkinetic.Nvstars; s.vkinetic.outer = c.vkinetic.outer
    return s


# ---------------------------------------------------------------- plan and run
def _plan(ctx, for_search=False):
    from . import _c25_impl as I
    rng = ctx.rng
    tasks = []
    quick = ctx.quick and not for_search
    # which cases also go through the Lean checker / exact model expansions (size = states * vstars * |G|)
    lean_quick = {('sq2d', 1), ('tri2d', 1), ('honey2d', 1), ('rect2d-2site', 1), ('oblique2d', 1), ('sc', 1),
                  ('mono', 1), ('ortho', 1)}
    leancap = 450000
    for name in I.QUICK:
        for N in ((1, 2) if quick else (1, 2, 3)):
            if N == 3 and name in ('hcp', 'rumpled', 'triclinic', 'mono-2site'):
                continue    # > 600 states / > 130 vector stars: hcp and rumpled N = 3 are added below (no Lean side)
            if quick and N == 2 and name in ('mono-2site', 'rumpled', 'triclinic'):
                continue    # 66..157 vector stars, 8..35 s each on an idle machine: thorough only
            lean = ((name, N) in lean_quick) if quick else (N <= 2)
            tasks.append(dict(kind='zoo', name=name, N=N, seed=rng.getrandbits(32), lean=lean, leancap=leancap,
                              gfcap=(2000000 if quick else 30000000)))
    if not quick:
        for name in ('hcp', 'rumpled'):
            tasks.append(dict(kind='zoo', name=name, N=3, seed=rng.getrandbits(32), lean=False, leancap=0))
    # rigidly rotated copies: tiny tilts (the construction of the perpendicular vectors compares against fixed Cartesian
    # reference directions with float thresholds) and generic angles, about several axes; float oracles only
    rot_bases = ['ortho', 'fcc', 'hcp', 'rumpled', 'sc', 'rect2d-2site', 'tri2d', 'mono'] if quick else list(I.QUICK)
    angles = [1e-4, 1e-3, 1e-2, 0.1, 1.0] if quick else [1e-5, 1e-4, 3e-4, 1e-3, 3e-3, 1e-2, 3e-2, 0.1, 0.3, 1.0]
    axes = [(1, 0, 0), (0, 0, 1), (1, 2, 3), (0, 1, 0), (1, 1, 0)]
    for b, name in enumerate(rot_bases):
        for a, deg in enumerate(angles + [rng.uniform(2., 88.)] + ([] if quick else [rng.uniform(2., 88.), rng.uniform(1e-3, 0.2)])):
            ax = axes[(a + b) % len(axes)] if a < len(angles) else tuple(rng.uniform(-1, 1) for _ in range(3))
            tasks.append(dict(kind='rot', name=name, N=1 if (quick or name in ('hcp', 'rumpled', 'mono-2site', 'triclinic')) else 2,
                              axis=ax, deg=deg, seed=rng.getrandbits(32), lean=False, leancap=0))
    # object-reuse histories: one VectorStarSet (or calculator) used for star set A, expansions computed, then for B
    reuse_small = ['sq2d', 'rect2d-2site', 'fcc', 'ortho', 'honey2d'] if quick else \
        ['sq2d', 'tri2d', 'honey2d', 'rect2d-2site', 'oblique2d', 'fcc', 'bcc', 'sc', 'diamond', 'ortho', 'mono', 'rhomb', 'b2']
    reuse_big = ['rumpled', 'hcp'] if quick else ['rumpled', 'hcp', 'triclinic', 'mono-2site']
    for name in reuse_small + reuse_big:
        hist = [(2, 3, 0.), (3, 2, 0.), (2, 2, 0.03), (2, 2, -0.02)] if name in reuse_small else [(1, 2, 0.), (2, 1, 0.), (2, 2, 0.03)]
        for nA, nB, eps in hist:
            tasks.append(dict(kind='reuse', level='vectorstarset', name=name, nA=nA, nB=nB, eps=eps, N=nB, seed=0, lean=False, leancap=0))
        for nA, nB in ([(1, 2), (2, 1)] if name in reuse_small else [(1, 2)] if not quick else []):
            tasks.append(dict(kind='reuse', level='calculator', name=name, nA=nA, nB=nB, eps=0., N=nB, seed=rng.getrandbits(32),
                              lean=False, leancap=0))
    nrand = 8 if quick else 60
    for t in range(nrand):
        tasks.append(dict(kind='random', name='random', cseed=rng.getrandbits(32), N=1 + (t % 2), seed=rng.getrandbits(32),
                          lean=(t % 4 == 0 if quick else t % 2 == 0), leancap=(60000 if quick else 300000)))
    # big ones first so that the pool finishes evenly
    order = {'hcp': 0, 'rumpled': 0, 'mono-2site': 0, 'triclinic': 1, 'fcc': 1}
    tasks.sort(key=lambda t: (-t['N'] * (3 - order.get(t['name'], 2))))
    return tasks


def _stab_note(sig):
    return sig


def _run_tasks(ctx, tasks):
    os.environ.setdefault('OMP_NUM_THREADS', '1')
    nproc = min(12, max(1, (os.cpu_count() or 2) - 2))
    t0 = time.time()
    from onsager import OnsagerCalc, crystalStars, crystal    # import once, before the fork
    import scipy.sparse
    with mp.get_context('fork').Pool(nproc) as pool:
        results = pool.map(_job, tasks, chunksize=1)
    ctx.note('oracle phase: %d cases in %.1fs (slowest %s)' % (
        len(tasks), time.time() - t0, max(((r['secs'], r['task']['name'], r['task']['N']) for r in results), default=None)))
    t0 = time.time()
    lean_jobs = []
    for r in results:
        task = r['task']
        if r['err']:
            ctx.disagree('case could not be evaluated (%s N=%d): %s' % (task['name'], task['N'], r['err'][:300]), dict(task=task))
            continue
        info = r['info']
        key = (tuple(map(tuple, info['lattice'])), tuple(map(tuple, info['basis'])), info['cutoff'], info['N'])
        nontrivial = info['vstars'] >= 2 and (info['G'] > 1 or info['nsites'] > 1)
        if task['kind'] == 'reuse':
            key = key + (info['name'],)
            ctx.count('reuse-history:' + task['level'])
        ctx.case(key, nontrivial=nontrivial,
                 sample={k: info[k] for k in ('name', 'N', 'dim', 'G', 'states', 'stars', 'vstars', 'om1', 'om2', 'OS')})
        ctx.count('crystal:' + info['name'].split(':')[0].split(' ')[0] + (':rand' if task['kind'] == 'random' else '') + (':rotated' if task['kind'] == 'rot' else ''))
        ctx.count('N=%d' % info['N'])
        ctx.count('originstates' if info['OS'] else 'no-originstates')
        ctx.count('dim=%d' % info['dim'])
        sigs = set()
        for sig, what, detail in r['records']:
            sigs.add(sig)
            replay = dict(crystal=info['name'], lattice=info['lattice'], basis=info['basis'], chem=0, cutoff=info['cutoff'],
                          Nthermo=info['N'], rate_seed=task['seed'], detail=detail, history=info.get('history'),
                          how='crys=Crystal(lattice,[basis]); jn=crys.jumpnetwork(0,cutoff); VacancyMediated(crys,0,crys.sitelist(0),jn,Nthermo); '
                              'see harness/props/_c25_impl.py vector_star_oracles / projection_oracles')
            ctx.violation(sig, '%s N=%d: %s' % (info['name'], info['N'], what), replay)
        if r['lean']:
            lean_jobs.append((r, sigs))
    # Lean side: one driver process per case, a few in parallel
    if lean_jobs:
        from concurrent.futures import ThreadPoolExecutor
        def run_one(job):
            r, sigs = job
            try:
                t1 = time.time()
                sent = [l for l in r['lean'] if l is not None]
                got = iter(ctx.lean(DRIVER, sent, timeout=1500))
                r['lean_secs'] = time.time() - t1
                return [None if l is None else next(got) for l in r['lean']], None
            except Exception as e:
                return None, repr(e)[:400]
        with ThreadPoolExecutor(max_workers=8) as ex:
            outs = list(ex.map(run_one, lean_jobs))
        ctx.note('Lean phase: %d cases in %.1fs: %s' % (len(lean_jobs), time.time() - t0, ', '.join(
            '%s/%d %.0fs' % (r['info']['name'], r['info']['N'], r.get('lean_secs', -1)) for r, _ in lean_jobs)))
        for (r, sigs), (ans, err) in zip(lean_jobs, outs):
            info = r['info']
            ctx.count('lean-cases')
            if err:
                ctx.disagree('Lean driver failed on %s N=%d: %s' % (info['name'], info['N'], err), dict(case=info['name']))
                continue
            vs_sigs = {s for s in sigs if s.startswith(('equivariance', 'count', 'orthonormal'))}
            for sig, what, detail in compare_lean(r['calc'], ans, vs_sigs):
                ctx.disagree('%s N=%d: %s' % (info['name'], info['N'], what),
                             dict(crystal=info['name'], lattice=info['lattice'], basis=info['basis'], cutoff=info['cutoff'],
                                  Nthermo=info['N'], detail=detail), sig=sig)


def run(ctx):
    tasks = _plan(ctx)
    _run_tasks(ctx, tasks)


def search(ctx, reasons):
    """A proof obligation or the correspondence broke without a direct failing input in the main run: widen the search
    (more random crystals, all Nthermo) with the direct oracles only."""
    rng = ctx.rng
    tasks = []
    for t in range(40):
        tasks.append(dict(kind='random', name='random', cseed=rng.getrandbits(32), N=1 + (t % 2), seed=rng.getrandbits(32),
                          lean=False, leancap=0))
    _run_tasks(ctx, tasks)
