"""
C31 — Cluster enumeration is complete and cluster identity is geometric.

Tie: (a) translator: the search-box statement of cluster.makeclusters is classified with `ast`
(Generated/C31Facts.lean; obligations in OnsagerProofs/C31Tie.lean reuse the C21 box theorems) and
evaluated live to obtain the box the implementation uses.  (b) correspondence: the exact Lean
model of Cluster / makeclusters / makeTSclusters / makeVacancyClusters (lattice coordinates,
rational metric) against the implementation, compared as sets of classes of *geometric* canonical
forms (site multiset up to translation and permutation of non-special sites), computed on the
Python side without using Cluster.__eq__/__hash__.  (c) direct oracles on the implementation for
every clause: equality/hash invariance and geometric equality, validity of every cluster,
completeness against an exact clique enumeration in the complete box, disjoint classes closed
under the group, TS / vacancy completeness and closure (reversal).
"""
import os, itertools, math
from fractions import Fraction as Fr
import numpy as np
from props import _latgeom as LG
from props import c21 as C21

META = dict(
    id='C31',
    level_text='Partial. Kernel-checked theorems about the exact model: the constructor builds the same cluster from a translated '
               'site list (mk\'_translate); stored clusters that agree up to a lattice translation and a permutation of the non-special '
               'sites have equality-map entries that are permutations of each other, hence pass the map/Norder tests of __eq__ and have the '
               'same XOR hash for every entry hash (keyed_translate_perm, eqv_map_of_translate_perm, hash_of_translate_perm); __eq__ implies '
               'equal hash for duplicate-free clusters (hash_respects_eq); a kernel-checked witness that __eq__ is not geometric when the '
               'transition pair is unmarked and that the marked version separates it (ts_eq_not_geometric_witness, ts_mark_verdict on the '
               'live source); completeness of the neighbour table in a box passing boxOK (mem_neighbours_complete, Cauchy-Schwarz shared '
               'with C21) and the clique growth lemma; for plain clusters also the converse (eqv_plain_imp_translate_perm: equal => translate of '
               'each other up to site order), i.e. the full equivalence. NOT proved: the converse for vacancy / transition clusters '
               '(full statement kept as cluster_eq_iff_translate_perm_full) and the composition through the set-based loops of makeclusters / makeTSclusters / '
               'makeVacancyClusters; both are tied by the differential run of the exact model (compared through geometric canonical forms) '
               'and by direct oracles on the implementation (geometric equality both ways, validity, completeness against an exact clique '
               'enumeration, closure under the group and reversal, disjointness).',
    level_note='Trusted: Lean kernel + standard axioms; ast classification of the box formula; rationalisation of crystal data '
               '(validated exactly by the model); the Python canonical form used for comparison. The implementation iterates over '
               'Python sets: only order-independent output (sets of classes) is compared.',
    technique='Lean 4 proof (multiset/translation characterisation of cluster equality, XOR-hash permutation invariance, clique growth, '
              'box completeness) + ast-translated box formula + differential exact model + direct oracles',
    lean_modules=['OnsagerModel.C21', 'OnsagerModel.C31', 'OnsagerProofs.C21Geom', 'OnsagerProofs.C21Orbit', 'OnsagerProofs.C21',
                  'OnsagerProofs.C31', 'Generated.C21Facts', 'OnsagerProofs.C21Tie', 'Generated.C31Facts', 'OnsagerProofs.C31Tie'],
    theorems=['Onsager.C31.mk\'_translate', 'Onsager.C31.keyed_translate_perm', 'Onsager.C31.hashWith_perm',
              'Onsager.C31.hash_of_translate_perm', 'Onsager.C31.eqv_map_of_translate_perm', 'Onsager.C31.eqv_of_translate_perm',
              'Onsager.C31.cluster_eq_of_translate_perm_partial', 'Onsager.C31.eqv_plain_imp_translate_perm', 'Onsager.C31.hash_respects_eq',
              'Onsager.C31.ts_eq_not_geometric_witness', 'Onsager.C31.mem_neighbours_complete', 'Onsager.C31.clique_growth',
              'Onsager.Geom.boxOK_complete', 'Onsager.Geom.boxB_ok', 'Onsager.C21.expand_closed', 'Onsager.C21.classes_disjoint'],
    tie_theorems=['Onsager.C31.src_form_known', 'Onsager.C31.src_box_verdict', 'Onsager.C31.dual_forms_complete',
                  'Onsager.C31.form1_incomplete', 'Onsager.C31.ts_mark_verdict'],
    rule='cluster-set cases = (crystal, cutoff, maxorder<=3(4), excluded species) on the zoo and random rational-metric cells incl. '
         'skewed noreduce cells; TS/vacancy cases add a mobile species and a jump cutoff; equality cases = random clusters of all four '
         'kinds with translated/permuted copies and near-miss variants (one site moved, special site exchanged, reversed TS, spectator '
         'mirrored through the TS bond); non-trivial = at least one cluster of order >= 2 / at least one TS or vacancy class / a pair '
         'of clusters; distinct by canonical input text',
    trusted=['ast classification of the nmax formula (harness/props/c21.py: classify_nmax)',
             'space-group operations are read from Crystal.G and validated exactly by the model'],
    assumptions=['clusters are built from distinct sites (the constructor does not reject repeated sites; repeated sites appear only as '
                 'the documented endpoint copy in vacancy TS clusters)',
                 'cutoffs are not within 1e-6 (relative) of an interatomic distance'],
)

DRIVER = 'Drive/C31.lean'
MODS = ['OnsagerModel.C31', 'OnsagerModel.C21', 'OnsagerModel.Basic']


def ts_pair_marked_src(repo):
    """does Cluster.__init__ put a marker on the transition pair of non-vacancy TS clusters in the equality map?
    (ast: inside the loop over the sites there is, besides the `if i<Nvac` branch, an elif/if whose test mentions
    `transition` and whose body extends the key `r`)"""
    import ast
    tree = C21.parse_source(os.path.join(repo, 'onsager', 'cluster.py'))
    init = C21.find_function(tree, 'Cluster.__init__')
    for loop in ast.walk(init):
        if isinstance(loop, ast.For) and 'enumerate(self.sites)' in ast.unparse(loop.iter):
            for node in ast.walk(loop):
                if isinstance(node, ast.If) and 'transition' in ast.unparse(node.test) and 'Nvac' not in ast.unparse(node.test):
                    if any(isinstance(b, ast.AugAssign) and ast.unparse(b.target) == 'r' for b in node.body):
                        return True
    return False


def ts_pair_marked_live():
    """the same fact read from the live class"""
    from onsager import cluster
    cl = cluster.Cluster([cluster.ClusterSite((0, 0), np.array([x, 0, 0])) for x in (0, 1, 2)], transition=True)
    return any(len(k) == 3 for k in cl.__equalitymap__)


def extract(repo):
    fn = C21.find_function(C21.parse_source(os.path.join(repo, 'onsager', 'cluster.py')), 'makeclusters')
    form, text, _ = C21.classify_nmax(fn)
    txt = C21.facts_text('C31', 'onsager/cluster.py', 'makeclusters', form, text)
    txt = txt.replace('end Generated.C31', '/-- Cluster.__init__ marks the transition pair of a non-vacancy TS cluster in the equality map -/\n'
                      'def tsPairMarked : Bool := %s\nend Generated.C31' % ('true' if ts_pair_marked_src(repo) else 'false'))
    out = dict(C21.extract(repo))   # OnsagerProofs.C31Tie imports C21Tie: keep its facts current too
    out['C31Facts.lean'] = txt
    return out


# ---------------------------------------------------------------- geometric canonical form (Python side)
def site_t(cs):
    return (int(cs.ci[0]), int(cs.ci[1]), tuple(int(x) for x in cs.R))


def canon_dir(sites, T, V):
    n = len(sites)
    d = len(sites[0][2])
    cen = [sum(s[2][k] for s in sites) for k in range(d)]
    def st(s): return '%d.%d.%s' % (s[0], s[1], '.'.join(str(s[2][k] * n - cen[k]) for k in range(d)))
    k = 2 if T else (1 if V else 0)
    return ('T' if T else '') + ('V' if V else '') + '[' + ','.join(st(s) for s in sites[:k]) + '|' + \
        ','.join(sorted(st(s) for s in sites[k:])) + ']'


def canon(sites, T, V):
    sites = list(sites)
    if T and not V:
        a = canon_dir(sites, T, V)
        b = canon_dir([sites[1], sites[0]] + sites[2:], T, V)
        return min(a, b)
    return canon_dir(sites, T, V)


def canon_cl(cl):
    return canon([site_t(cs) for cs in cl.sites], cl.__transition__, cl.__vacancy__)


def exp_str(classes):
    """list of iterables of canonical strings -> canonical text of the expansion"""
    return ';'.join(sorted('+'.join(sorted(c)) for c in classes)) if classes else '-'


def sites_txt(sites):
    return ','.join('%d.%d.%s' % (s[0], s[1], '.'.join(str(x) for x in s[2])) for s in sites)


# ---------------------------------------------------------------- exact enumeration
def neighbours_exact(X, r2, sl):
    """nn[(c0,i0)] = list of (c1,i1,R) with 0<|dx|^2<r2 (complete dual box), exact"""
    box = LG.dual_box(X.h, r2)
    nn = {}
    vecs = list(itertools.product(*[range(-b, b + 1) for b in box]))
    for (c0, i0) in sl:
        lst = []
        u0 = X.basis[c0][i0]
        for (c1, i1) in sl:
            u1 = X.basis[c1][i1]
            for n in vecs:
                v = [Fr(n[k]) + u1[k] - u0[k] for k in range(X.d)]
                l2 = LG.qform(X.g, v, v)
                if 0 < l2 < r2: lst.append((c1, i1, tuple(n)))
        nn[(c0, i0)] = lst
    return nn


def dist2(X, a, b):
    v = [Fr(b[2][k] - a[2][k]) + X.basis[b[0]][b[1]][k] - X.basis[a[0]][a[1]][k] for k in range(X.d)]
    return LG.qform(X.g, v, v)


def all_cliques(X, r2, sl, maxorder):
    """canonical forms of all site sets (size<=maxorder) pairwise within the cutoff, modulo translation"""
    nn = neighbours_exact(X, r2, sl)
    out = set()
    zero = (0,) * X.d
    def near(a, b):
        # b - a as neighbour of a's basis atom
        rel = (b[0], b[1], tuple(b[2][k] - a[2][k] for k in range(X.d)))
        return rel in nnset[(a[0], a[1])]
    nnset = {k: set(v) for k, v in nn.items()}
    for (c0, i0) in sl:
        s0 = (c0, i0, zero)
        out.add(canon([s0], False, False))
        def grow(cur, cands):
            if len(cur) >= maxorder: return
            for idx, s in enumerate(cands):
                if all(near(t, s) for t in cur[1:]):
                    new = cur + [s]
                    out.add(canon(new, False, False))
                    grow(new, cands[idx + 1:])
        grow([s0], sorted(nn[(c0, i0)]))
    return out


# ---------------------------------------------------------------- oracles
def replay_of(X, **kw):
    crys = X.crys
    rp = dict(crystal=X.name, construct=getattr(crys, '_verif_args', None), lattice=crys.lattice.tolist(),
              basis=[[list(map(float, u)) for u in a] for a in crys.basis])
    rp.update(kw)
    return rp


def g_sites(X, gi, sites):
    return [X.g_site(gi, s[0], s[1], s[2]) for s in sites]


def oracle_clusters(ctx, X, cutoff, maxorder, exclude, clusterexp, box):
    from onsager import cluster
    sigs = []
    r2 = Fr(cutoff * cutoff)
    def viol(sig, what, **kw):
        sigs.append(sig)
        ctx.violation(sig, what, replay_of(X, cutoff=cutoff, maxorder=maxorder, exclude=list(exclude), source_box=box,
                                           call='cluster.makeclusters(crys, cutoff, maxorder, exclude)', **kw))
    sl = [(c, i) for c, atoms in enumerate(X.basis) for i in range(len(atoms)) if c not in exclude]
    classes = [set(canon_cl(cl) for cl in clset) for clset in clusterexp]
    # validity
    for clset in clusterexp:
        for cl in clset:
            S = [site_t(cs) for cs in cl.sites]
            if len(S) > maxorder or len(set(S)) != len(S) or any(s[0] in exclude for s in S) or \
                    any(not (0 < dist2(X, a, b) < r2) for a, b in itertools.combinations(S, 2)):
                viol('invalid-cluster', 'cluster %s is not a set of <= maxorder distinct allowed sites pairwise within the cutoff' % canon_cl(cl))
                break
        else: continue
        break
    # disjoint
    seen = {}
    for k, cs in enumerate(classes):
        for c in cs:
            if c in seen and seen[c] != k:
                viol('classes-overlap', 'cluster %s appears in two classes' % c); break
            seen[c] = k
        else: continue
        break
    # closed under the group
    done = False
    for clset, cs in zip(clusterexp, classes):
        for cl in clset:
            S = [site_t(x) for x in cl.sites]
            for gi in range(len(X.ops)):
                c2 = canon(g_sites(X, gi, S), False, False)
                if c2 not in cs:
                    viol('class-not-closed:group', 'class of %s lacks the image %s under op %d' % (canon_cl(cl), c2, gi)); done = True; break
            if done: break
        if done: break
    # complete
    exact = all_cliques(X, r2, sl, maxorder)
    have = set(seen)
    missing = sorted(exact - have)
    if missing:
        # is some missing cluster explained by a site outside the source's box?
        viol('missing-cluster:' + ('search-box' if box is not None and _needs_outside(X, r2, sl, box) else 'other'),
             '%d of %d clusters (mod translation) are absent, e.g. %s' % (len(missing), len(exact), missing[0]), missing=missing[:8])
    extra = sorted(have - exact)
    if extra and not any(s.startswith('invalid') for s in sigs):
        viol('extra-cluster', 'cluster %s is not a valid cluster' % extra[0])
    return sigs, len(exact)


def _needs_outside(X, r2, sl, box):
    nn = neighbours_exact(X, r2, sl)
    return any(any(abs(s[2][k]) > box[k] for k in range(X.d)) for lst in nn.values() for s in lst)


def oracle_ts(ctx, X, chem, cutoff, maxorder, cutoffj, clusterexp, jn, TS, kind):
    """TS clusters from a plain cluster expansion: completeness + closure under G (reversal is part of the identity)"""
    sigs = []
    def viol(sig, what, **kw):
        sigs.append(sig)
        ctx.violation(sig, what, replay_of(X, chem=chem, cutoff=cutoff, maxorder=maxorder, jump_cutoff=cutoffj,
                                           call='makeTSclusters(crys, chem, crys.jumpnetwork(chem, jump_cutoff), makeclusters(crys, cutoff, maxorder))', **kw))
    jumps = set()
    for cl in jn:
        for (i, j), dx in cl:
            n = X.jump_to_lattice(chem, i, j, dx)
            jumps.add((int(i), int(j), n))
    classes = [set(canon_cl(c) for c in s) for s in TS]
    have = set().union(*classes) if classes else set()
    # expected: for every cluster, every ordered pair of its mobile sites forming a jump
    exp = set(); expsites = {}
    for clset in clusterexp:
        for cl in clset:
            S = [site_t(x) for x in cl.sites]
            for a in S:
                for b in S:
                    if a is b or a[0] != chem or b[0] != chem: continue
                    J = (a[1], b[1], tuple(b[2][k] - a[2][k] for k in range(X.d)))
                    if J in jumps:
                        ss = [a, b] + [s for s in S if s is not a and s is not b]
                        exp.add(canon(ss, True, False)); expsites[canon(ss, True, False)] = ss
    missing = sorted(exp - have)
    if missing:
        # is the absent cluster one that Cluster.__eq__ identifies with a (geometrically different) present one?
        merged = False
        allTS = set().union(*TS) if TS else set()
        for m in missing[:4]:
            sites = expsites[m]
            try:
                if mk_cluster(sites, True, False) in allTS: merged = True
            except Exception:
                pass
        viol('ts-missing:' + ('identified-with-a-different-cluster' if merged else 'other'),
             '%d of %d transition-state clusters are absent, e.g. %s' % (len(missing), len(exp), missing[0]), missing=missing[:8])
    extra = sorted(have - exp)
    if extra:
        viol('ts-extra', 'transition-state cluster %s does not come from a cluster and a jump' % extra[0])
    seen = {}
    for k, cs in enumerate(classes):
        for c in cs:
            if c in seen and seen[c] != k:
                viol('ts-classes-overlap', 'TS cluster %s appears in two classes' % c); break
            seen[c] = k
        else: continue
        break
    done = False
    for clset, cs in zip(TS, classes):
        for cl in clset:
            S = [site_t(x) for x in cl.sites]
            for gi in range(len(X.ops)):
                c2 = canon(g_sites(X, gi, S), True, False)
                if c2 not in cs:
                    viol('ts-class-not-closed:group', 'TS class of %s lacks the image %s' % (canon_cl(cl), c2)); done = True; break
            if done: break
        if done: break
    return sigs, len(exp)


def oracle_vac(ctx, X, chem, cutoff, maxorder, clusterexp, VAC):
    sigs = []
    def viol(sig, what, **kw):
        sigs.append(sig)
        ctx.violation(sig, what, replay_of(X, chem=chem, cutoff=cutoff, maxorder=maxorder,
                                           call='makeVacancyClusters(crys, chem, makeclusters(crys, cutoff, maxorder))', **kw))
    classes = [set(canon_cl(c) for c in s) for s in VAC]
    have = set().union(*classes) if classes else set()
    exp = set()
    for clset in clusterexp:
        for cl in clset:
            S = [site_t(x) for x in cl.sites]
            for a in S:
                if a[0] == chem:
                    exp.add(canon([a] + [s for s in S if s is not a], False, True))
    missing = sorted(exp - have)
    if missing: viol('vac-missing', '%d of %d vacancy clusters are absent, e.g. %s' % (len(missing), len(exp), missing[0]))
    extra = sorted(have - exp)
    if extra: viol('vac-extra', 'vacancy cluster %s does not come from a cluster' % extra[0])
    done = False
    for clset, cs in zip(VAC, classes):
        for cl in clset:
            S = [site_t(x) for x in cl.sites]
            for gi in range(len(X.ops)):
                c2 = canon(g_sites(X, gi, S), False, True)
                if c2 not in cs:
                    viol('vac-class-not-closed:group', 'vacancy class of %s lacks the image %s' % (canon_cl(cl), c2)); done = True; break
            if done: break
        if done: break
    return sigs, len(exp)


def oracle_tsvac(ctx, X, chem, cutoff, maxorder, cutoffj, VAC, jn, TSV):
    """TS clusters of a vacancy expansion: for every vacancy cluster whose vacancy can jump to one of its sites,
    the four TS clusters (with / without the endpoint, both directions) are present; classes closed under G"""
    sigs = []
    def viol(sig, what, **kw):
        sigs.append(sig)
        ctx.violation(sig, what, replay_of(X, chem=chem, cutoff=cutoff, maxorder=maxorder, jump_cutoff=cutoffj,
                                           call='makeTSclusters(crys, chem, jn, makeVacancyClusters(crys, chem, makeclusters(...)))', **kw))
    jumps = set()
    for cl in jn:
        for (i, j), dx in cl:
            jumps.add((int(i), int(j), X.jump_to_lattice(chem, i, j, dx)))
    classes = [set(canon_cl(c) for c in s) for s in TSV]
    have = set().union(*classes) if classes else set()
    exp = set()
    for clset in VAC:
        for cl in clset:
            S = [site_t(x) for x in cl.sites]
            v = S[0]
            for b in S[1:]:
                if b[0] != chem: continue
                J = (v[1], b[1], tuple(b[2][k] - v[2][k] for k in range(X.d)))
                if J in jumps:
                    rest = [s for s in S[1:] if s is not b]
                    exp.add(canon([v, b] + rest, True, True)); exp.add(canon([b, v] + rest, True, True))
                    exp.add(canon([v, b, b] + rest, True, True)); exp.add(canon([b, v, v] + rest, True, True))
    missing = sorted(exp - have)
    if missing: viol('tsvac-missing', '%d of %d vacancy TS clusters are absent, e.g. %s' % (len(missing), len(exp), missing[0]))
    extra = sorted(have - exp)
    if extra: viol('tsvac-extra', 'vacancy TS cluster %s is not expected' % extra[0])
    done = False
    for clset, cs in zip(TSV, classes):
        for cl in clset:
            S = [site_t(x) for x in cl.sites]
            for gi in range(len(X.ops)):
                c2 = canon(g_sites(X, gi, S), True, True)
                if c2 not in cs:
                    viol('tsvac-class-not-closed:group', 'class of %s lacks the image %s' % (canon_cl(cl), c2)); done = True; break
            # reversal: the reversed transition (endpoint copy, if present, becomes a copy of the new endpoint)
            if not done:
                rest = [S[0] if s == S[1] else s for s in S[2:]]
                c3 = canon([S[1], S[0]] + rest, True, True)
                if c3 not in cs:
                    viol('tsvac-class-not-closed:reversal', 'class of %s lacks the reversed transition %s' % (canon_cl(cl), c3)); done = True
            if done: break
        if done: break
    return sigs, len(exp)


# ---------------------------------------------------------------- equality / hash stream
def rand_sites(rng, X, n, spread=2):
    out = []
    atoms = [(c, i) for c, a in enumerate(X.basis) for i in range(len(a))]
    while len(out) < n:
        c, i = rng.choice(atoms)
        s = (c, i, tuple(rng.randint(-spread, spread) for _ in range(X.d)))
        if s not in out: out.append(s)
    return out


def mk_cluster(sites, T, V):
    from onsager import cluster
    return cluster.Cluster([cluster.ClusterSite((s[0], s[1]), np.array(s[2])) for s in sites], transition=T, vacancy=V)


def eq_cases(rng, X, n):
    """pairs (flags, sitesA, sitesB, relation) ; relation: 'same' (translated+permuted copy) or a near-miss kind"""
    out = []
    for _ in range(n):
        T, V = rng.choice([(False, False), (False, False), (False, True), (True, False), (True, False), (True, True)])
        k = 2 if T else (1 if V else 0)
        ns = rng.randint(max(1, k), 5)
        A = rand_sites(rng, X, ns, spread=rng.choice([1, 2, 3]))
        kind = rng.choice(['same', 'same', 'move', 'swap-special', 'reverse', 'mirror', 'relabel', 'relocate'])
        if kind == 'relocate' and T:
            # the same site set with the transition pair at another place of it (same jump vector)
            c, i = rng.choice([(c, i) for c, a in enumerate(X.basis) for i in range(len(a))])
            v = tuple(rng.randint(-1, 1) for _ in range(X.d))
            w = tuple(rng.randint(-1, 1) for _ in range(X.d))
            if any(v) and any(w) and v != w:
                z = (0,) * X.d
                ad = lambda a, b: tuple(x + y for x, y in zip(a, b))
                if rng.random() < 0.5 or ad(v, v) == w:
                    pts = [z, v, ad(v, v)]; A2 = [pts[0], pts[1], pts[2]]; B2 = [pts[1], pts[2], pts[0]]
                else:
                    A2 = [z, v, w, ad(v, w)]; B2 = [w, ad(v, w), z, v]
                if len(set(A2)) == len(A2):
                    out.append((T, V, [(c, i, p) for p in A2], [(c, i, p) for p in B2], kind)); continue
        t = tuple(rng.randint(-3, 3) for _ in range(X.d))
        B = [(s[0], s[1], tuple(s[2][j] + t[j] for j in range(X.d))) for s in A]
        head, tail = B[:k], B[k:]
        rng.shuffle(tail)
        B = head + tail
        if kind == 'move' and len(B) > 0:
            j = rng.randrange(len(B)); e = rng.randrange(X.d)
            R = list(B[j][2]); R[e] += rng.choice([-1, 1])
            nb = (B[j][0], B[j][1], tuple(R))
            if nb not in B: B[j] = nb
        elif kind == 'swap-special' and k >= 1 and len(B) > k:
            j = rng.randrange(k, len(B)); B[0], B[j] = B[j], B[0]
        elif kind == 'reverse' and T:
            B[0], B[1] = B[1], B[0]
        elif kind == 'mirror' and T and len(A) >= 3 and A[0][:2] == A[1][:2]:
            # same jump vector, spectators mirrored through the centre of the TS bond
            a, b = A[0], A[1]
            B = [a, b] + [(s[0], s[1], tuple(a[2][j] + b[2][j] - s[2][j] for j in range(X.d))) for s in A[2:]
                          if (s[0], s[1]) == (a[0], a[1])]
            if len(B) != len(A): B = list(A)
        elif kind == 'relabel' and len(B) > 0:
            j = rng.randrange(len(B))
            atoms = [(c, i) for c, a in enumerate(X.basis) for i in range(len(a))]
            c, i = rng.choice(atoms)
            nb = (c, i, B[j][2])
            if nb not in B: B[j] = nb
        out.append((T, V, A, B, kind))
    return out


def run_eq(ctx, X, lines, book, n, mt=False):
    for T, V, A, B, kind in eq_cases(ctx.rng, X, n):
        try:
            ca, cb = mk_cluster(A, T, V), mk_cluster(B, T, V)
            pe, ph = (ca == cb), (hash(ca) == hash(cb))
        except Exception as e:
            ctx.violation('exception:eq:' + type(e).__name__, 'Cluster construction/equality raised %r' % (e,),
                          dict(sitesA=A, sitesB=B, transition=T, vacancy=V)); continue
        ge = canon(A, T, V) == canon(B, T, V)
        fl = ('T' if T else '') + ('V' if V else '') or '-'
        rp = dict(crystal=X.name, transition=T, vacancy=V, sitesA=[list(map(str, s)) for s in A], sitesB=[list(map(str, s)) for s in B],
                  relation=kind, python_eq=pe, python_hash_equal=ph, geometric_equal=ge,
                  call='Cluster([ClusterSite((c,i),R) ...], transition, vacancy) == ...')
        kindT = 'TS' if (T and not V) else ('TSvac' if T else ('vac' if V else 'plain'))
        if ge and not pe:
            ctx.violation('eq:geometric-copies-unequal:' + kindT, 'translated/permuted copy compares unequal', rp)
        if ge and pe and not ph:
            ctx.violation('hash:equal-clusters-different-hash:' + kindT, 'equal clusters have different hashes', rp)
        if pe and not ge:
            ctx.violation('eq:distinct-clusters-equal:' + kindT, 'geometrically different clusters compare equal (%s vs %s)'
                          % (canon(A, T, V), canon(B, T, V)), rp)
        ctx.case(('eq', fl, sites_txt(A), sites_txt(B)), nontrivial=True)
        ctx.count('eq:%s:%s' % (kindT, kind)); ctx.count('eq-result:%s' % ('equal' if pe else 'unequal'))
        lines.append('eq %d %s %s %s' % (1 if mt else 0, fl, sites_txt(A), sites_txt(B)))
        book.append(('eq', X, dict(pe=pe, ge=ge, ca=canon(A, T, V), cb=canon(B, T, V), rp=rp, kindT=kindT)))


# ---------------------------------------------------------------- cases
def shells_all(X, sl, rmax2):
    nn = neighbours_exact(X, rmax2, sl)
    vals = set()
    for (c0, i0), lst in nn.items():
        for s in lst: vals.add(dist2(X, (c0, i0, (0,) * X.d), s))
    return sorted(vals)


def min_dist2(X, sl):
    best = None
    for (c0, i0) in sl:
        for (c1, i1) in sl:
            for n in itertools.product(range(-2, 3), repeat=X.d):
                l2 = dist2(X, (c0, i0, (0,) * X.d), (c1, i1, n))
                if l2 > 0 and (best is None or l2 < best): best = l2
    return best


def pick_cutoff(rng, X, sl, maxshell=2):
    m = min_dist2(X, sl)
    sh = shells_all(X, sl, m * Fr(5, 2))
    s = rng.randrange(min(len(sh), maxshell))
    lo = sh[s]; hi = sh[s + 1] if s + 1 < len(sh) else lo * Fr(5, 4)
    c2 = float(lo) * 1.02 if rng.random() < 0.6 else float(lo + hi) / 2
    if not (float(lo) * (1 + 1e-5) < c2 < float(hi) * (1 - 1e-5)): c2 = float(lo + hi) / 2
    return math.sqrt(c2)


CORPUS = {
    'rhombohedral cos(alpha)=-0.485 a=1 (default constructed)': [(1.01, 2, ())],
    'FCC': [(0.75, 3, ())], 'B2': [(0.9, 3, ()), (1.01, 2, (1,))], 'HCP': [(1.01, 2, ())], 'square': [(1.01, 3, ())],
    'honeycomb': [(0.6, 3, ())],
    'polar-chain-2D': [(2.1, 3, (1,)), (2.1, 3, ())],
}
TS_CORPUS = {'polar-chain-2D': (0, 1.01)}   # crystal -> (mobile species, jump cutoff)


def run(ctx):
    from onsager import cluster
    rng = ctx.rng
    form, boxfn = C21.source_box('onsager/cluster.py', 'makeclusters')
    mt = ts_pair_marked_live()
    import onsager
    if mt != ts_pair_marked_src(os.path.dirname(os.path.dirname(os.path.abspath(onsager.__file__)))):
        ctx.disagree('translated fact tsPairMarked differs from the live class', dict(live=mt))
    code = 'code1' if mt else 'code0'
    ctx.count('source:ts-pair-marked=%s' % mt)
    Xs = C21.crystals(ctx, 16 if ctx.quick else 200)
    lines, book = [], []
    for X in Xs:
        if ctx.budget_left() < 50 and ctx.evaluations > 60: ctx.note('budget: stopped generating cases early'); break
        if not X.ops_exact():
            ctx.count('crystal-skipped:group-op-not-exact-after-snapping'); continue
        crys = X.crys
        lines.append(X.line()); book.append(('crys', X, None))
        run_eq(ctx, X, lines, book, 6 if ctx.quick else 12, mt)
        cases = list(CORPUS.get(X.name, []))
        nat = sum(len(a) for a in X.basis)
        if len(cases) == 0 or not ctx.quick:
            exclude = ()
            if crys.Nchem > 1 and rng.random() < 0.4: exclude = (rng.randrange(crys.Nchem),)
            sl = [(c, i) for c, a in enumerate(X.basis) for i in range(len(a)) if c not in exclude]
            mo = rng.choice([2, 3] if len(X.ops) * nat <= 48 else [2, 2, 3])
            if not ctx.quick and len(X.ops) <= 8 and nat <= 2 and rng.random() < 0.3: mo = 4
            cases.append((pick_cutoff(rng, X, sl, 2 if mo < 3 else 1), mo, exclude))
        for cutoff, mo, exclude in cases:
            box = boxfn(dict(crys=crys, cutoff=cutoff, maxorder=mo, exclude=exclude))
            try:
                cexp = cluster.makeclusters(crys, cutoff, mo, exclude=exclude)
            except Exception as e:
                ctx.violation('exception:makeclusters:' + type(e).__name__, 'makeclusters raised %r' % (e,),
                              replay_of(X, cutoff=cutoff, maxorder=mo, exclude=list(exclude))); continue
            sigs, nexact = oracle_clusters(ctx, X, cutoff, mo, exclude, cexp, box)
            pytxt = exp_str([set(canon_cl(c) for c in s) for s in cexp])
            ctx.case(('mk', X.line(), cutoff, mo, exclude), nontrivial=any(len(next(iter(s)).sites) >= 2 for s in cexp),
                     sample=dict(crystal=X.name, cutoff=cutoff, maxorder=mo, exclude=list(exclude), classes=len(cexp), clusters_mod_translation=nexact,
                                 source_box=box))
            ctx.count('mk:maxorder=%d' % mo); ctx.count('mk:exclude=%d' % len(exclude)); ctx.count('dim:%d' % X.d)
            r2 = Fr(cutoff * cutoff)
            bt = ','.join(map(str, box)) if box is not None else 'dual'
            lines.append('mk %s %s %d %s' % (LG.rs(r2), bt, mo, ','.join(map(str, exclude)) if exclude else '-'))
            book.append(('mk', X, dict(py=pytxt, sigs=sigs, cutoff=cutoff, mo=mo, exclude=exclude, box=box)))
            lines.append('mk %s dual %d %s' % (LG.rs(r2), mo, ','.join(map(str, exclude)) if exclude else '-'))
            book.append(('mkdual', X, None))
            # TS / vacancy clusters on the full expansion
            if not exclude and mo <= 3:
                chem = rng.randrange(crys.Nchem)
                cutj = C21.choose_cutoffs(rng, X, chem, 1)[0]
                if X.name in TS_CORPUS: chem, cutj = TS_CORPUS[X.name]
                try:
                    jn = crys.jumpnetwork(chem, cutj)
                    TS = cluster.makeTSclusters(crys, chem, jn, cexp)
                    VAC = cluster.makeVacancyClusters(crys, chem, cexp)
                    TSV = cluster.makeTSclusters(crys, chem, jn, VAC) if mo <= 2 or len(X.ops) <= 16 else None
                except Exception as e:
                    ctx.violation('exception:ts:' + type(e).__name__, 'TS/vacancy cluster generation raised %r' % (e,),
                                  replay_of(X, cutoff=cutoff, maxorder=mo, chem=chem, jump_cutoff=cutj)); continue
                s1, n1 = oracle_ts(ctx, X, chem, cutoff, mo, cutj, cexp, jn, TS, 'ts')
                s2, n2 = oracle_vac(ctx, X, chem, cutoff, mo, cexp, VAC)
                ctx.case(('ts', X.line(), chem, cutoff, mo, cutj), nontrivial=(n1 + n2) > 0)
                ctx.count('ts-classes:%s' % ('0' if not TS else '1+')); ctx.count('vac-classes:%s' % ('0' if not VAC else '1+'))
                r2j = Fr(cutj * cutj)
                lines.append('ts ' + code + ' %d %s %d %s' % (chem, LG.rs(r2), mo, LG.rs(r2j)))
                book.append(('x', X, dict(what='makeTSclusters', py=exp_str([set(canon_cl(c) for c in s) for s in TS]), sigs=s1)))
                lines.append('vac ' + code + ' %d %s %d' % (chem, LG.rs(r2), mo))
                book.append(('x', X, dict(what='makeVacancyClusters', py=exp_str([set(canon_cl(c) for c in s) for s in VAC]), sigs=s2)))
                if TSV is not None:
                    s3, n3 = oracle_tsvac(ctx, X, chem, cutoff, mo, cutj, VAC, jn, TSV)
                    ctx.count('tsvac-classes:%s' % ('0' if not TSV else '1+'))
                    lines.append('tsvac ' + code + ' %d %s %d %s' % (chem, LG.rs(r2), mo, LG.rs(r2j)))
                    book.append(('x', X, dict(what='makeTSclusters(vacancy)', py=exp_str([set(canon_cl(c) for c in s) for s in TSV]), sigs=s3)))
    ans = LG.lean_run(ctx, DRIVER, MODS, lines)
    last = None
    for a, (kind, X, info) in zip(ans, book):
        if kind == 'crys':
            if a != 'ok valid=1':
                ctx.disagree('model rejects the crystal %s: %s' % (X.name, a), dict(crystal=X.name, answer=a))
            continue
        if kind == 'eq':
            parts = a.split(' ')
            if len(parts) != 4:
                ctx.disagree('model answer %r' % a[:80], dict(crystal=X.name)); continue
            me, mg, ca, cb = parts
            if ca != info['ca'] or cb != info['cb'] or (mg == '1') != info['ge']:
                ctx.disagree('canonical forms differ: model %s %s / harness %s %s' % (ca, cb, info['ca'], info['cb']), info['rp'])
            if (me == '1') != info['pe']:
                ctx.disagree('Cluster.__eq__: model %s implementation %s' % (me, info['pe']), info['rp'])
            continue
        if not a.startswith('ok'):
            ctx.disagree('model answer %r for %s' % (a[:100], X.name), dict(crystal=X.name)); continue
        head, body = a.split(' | ', 1)
        if kind == 'mk':
            last = (body, info, head.split()[1])
            ctx.count('boxOK:' + head.split()[1])
            if body != info['py']:
                ctx.disagree('makeclusters: model (source box %s) and implementation differ on %s cutoff=%r maxorder=%d exclude=%r'
                             % (info['box'], X.name, info['cutoff'], info['mo'], info['exclude']),
                             dict(crystal=X.name, cutoff=info['cutoff'], maxorder=info['mo'], model=body[:1500], impl=info['py'][:1500]),
                             sig=(info['sigs'][0] if info['sigs'] else None))
        elif kind == 'mkdual' and last is not None:
            b0, info, ok = last; last = None
            lost = (b0 != body)
            if ok == '1' and lost:
                ctx.disagree('model: box passes boxOK but the complete box gives different clusters', dict(crystal=X.name))
            expl = [s for s in info['sigs'] if s.startswith('missing-cluster:search-box')]
            if lost and not expl:
                ctx.disagree('model: the source box %s loses clusters on %s but the direct oracle saw none missing' % (info['box'], X.name),
                             dict(crystal=X.name, cutoff=info['cutoff']))
            if lost and expl:
                ctx.disagree('implementation clusters differ from the complete enumeration on %s (box %s)' % (X.name, info['box']),
                             dict(crystal=X.name, cutoff=info['cutoff']), sig=expl[0])
        elif kind == 'x':
            if body != info['py']:
                ctx.disagree('%s: model and implementation differ on %s' % (info['what'], X.name),
                             dict(crystal=X.name, model=body[:1500], impl=info['py'][:1500]),
                             sig=(info['sigs'][0] if info['sigs'] else None))


def search(ctx, reasons):
    """oracles only, on skewed / low-symmetry cells and many equality cases"""
    from onsager import cluster
    rng = ctx.rng
    form, boxfn = C21.source_box('onsager/cluster.py', 'makeclusters')
    for t in range(40):
        if ctx.budget_left() < 20: break
        try:
            name, crys = LG.random_crystal(rng, kinds=['rhomb-obtuse', 'rhomb-acute', 'triclinic', 'monoclinic', 'oblique'] if t % 4 else None,
                                           skew=(t % 3 == 0))
            X = LG.XCrystal(crys, name)
        except Exception:
            continue
        if not X.ops_exact(): continue
        run_eq(ctx, X, [], [], 10)
        sl = [(c, i) for c, a in enumerate(X.basis) for i in range(len(a))]
        cutoff = pick_cutoff(rng, X, sl, 2)
        box = boxfn(dict(crys=crys, cutoff=cutoff, maxorder=2, exclude=()))
        cexp = cluster.makeclusters(crys, cutoff, 2)
        oracle_clusters(ctx, X, cutoff, 2, (), cexp, box)
