"""
Probe for C14 run in a SUBPROCESS with a fixed PYTHONHASHSEED (argv: repo, crystal name, pool seed):
save/reload a calculator, regenerate it (generate(N+1); generate(N); generatematrices(); generatetags()), evaluate
Lij and compare with a calculator that was never reloaded.  The iteration order of the reloaded crystal's group
(a frozenset keyed by salted byte hashes) depends on the hash seed, so this has to be observed under chosen seeds.
Prints one JSON line.
"""
import os, sys, json, warnings
warnings.simplefilter('ignore')
for _v in ('OPENBLAS_NUM_THREADS', 'OMP_NUM_THREADS', 'MKL_NUM_THREADS'):
    os.environ.setdefault(_v, '1')
repo, name, pseed = sys.argv[1], sys.argv[2], int(sys.argv[3])
sys.path.insert(0, repo)
sys.path.insert(0, os.path.dirname(os.path.dirname(os.path.abspath(__file__))))
import numpy as np
from props import _c13_common as cm

nrng = np.random.default_rng(pseed)
d = cm.make_vm(name, fresh=True)
x = cm.rand_thermo(d, nrng)
ref = [np.array(r, copy=True) for r in cm.make_vm(name, fresh=True).Lij(*cm.copy_args(x))]
d2 = cm.reload_vm(d)
N = d2.Nthermo
d2.generate(N + 1); d2.generate(N); d2.generatematrices()
d2.tags, d2.tagdict, d2.tagdicttype = d2.generatetags()
got = d2.Lij(*cm.copy_args(x))
rel = [float(np.max(np.abs(a - b)) / max(1e-300, float(np.max(np.abs(b))))) for a, b in zip(got, ref)]
print(json.dumps(dict(hashseed=os.environ.get('PYTHONHASHSEED'), crystal=name, rel=rel,
                      same_bits=[cm.same_bits(a, b) for a, b in zip(got, ref)],
                      group_order_same=[str(g) for g in d.crys.G] == [str(g) for g in d2.crys.G],
                      input_hex=[cm.jarr(a) for a in x], got_hex=[cm.jarr(a) for a in got], fresh_hex=[cm.jarr(a) for a in ref])))
