"""
C18 — the crystal's symmetry group is a correct group of self-isometries.

Tie:
 (a) the implementation's actual `crys.G` (rot exact, trans snapped to rationals with a checked residual,
     indexmap exact) and the crystal it belongs to (metric exact through the rational change of basis that
     Crystal() applied, positions snapped) go through the VERIFIED checkers `isSpaceGroupOp` /
     `isGroupModTranslations` / `distinctModT` in Lean (soundness theorems: OnsagerProofs/C18.lean);
 (b) the model's exact re-implementation of `gengroup` is compared with `crys.G` as sets modulo lattice
     translations;
 (c) the GroupOp algebra (`*`, `inv`, `ident`, `+ lattice vector`, action on positions) is run
     differentially, including a malformed stream (out-of-range / non-permutation index maps).
Direct oracles on the implementation (no model): every op an isometry mapping each atom onto the atom named
by indexmap (same species, spins up to one sign), closure / inverses / identity / distinctness modulo
lattice translations with the implementation's own algebra, NOSYM, sub-threshold noise.
"""
import os, itertools, traceback, time
from fractions import Fraction as Fr
import numpy as np
import c18lib as X

META = dict(
    id='C18',
    level_text='Kernel-checked, for every crystal/operation (any dimension d, rational metric and positions, integer spins): '
               'group laws of the GroupOp algebra (assoc, identity, both inverse laws incl. the sorted index-map inverse, '
               'action of a product = composition); soundness of the checkers isSpaceGroupOp (=> isometry, lattice onto '
               'itself, every atom onto the atom named by indexmap, same species, spins up to one global sign; distances '
               'preserved; crystal mapped ONTO itself) and isGroupModTranslations; the set of ALL symmetry operations of a '
               'crystal is closed under product/inverse; completeness of the ROTATION candidates of gengroup (box from the inverse metric, '
               'Cauchy-Schwarz: every unimodular metric-preserving integer matrix is tried — candidateRots_complete). PARTIAL: that '
               'maptranslation then finds a translation whenever one exists (hence that the reported set is the full group and closed) '
               'is NOT a theorem, so closure of the reported set is established per crystal by running the '
               'verified checkers on the implementation\'s actual crys.G (zoo + random crystals of every Bravais class), '
               'plus an exact model of gengroup compared as sets modulo lattice translations.',
    level_note='Trusted: Lean kernel + standard axioms; rationalisation of floats (snap with residual < 1e-9); the text '
               'protocol; the native build of the driver from the same compiled IR. Spins: scalar integer spins only in the '
               'exact model (the phases that can match are +-1); "same spin" is read as the source intends, up to the global '
               'phase it tries (time reversal). Tolerance logic (threshold 1e-8, allclose rtol 1e-5) is outside the exact '
               'model: generated structures are exactly symmetric or break symmetry by > 1e-3; a sub-threshold noise stream '
               'is checked by float oracles only.',
    technique='Lean 4 verified checkers + group-law theorems; exact model of gengroup; differential run against crystal.py',
    lean_modules=['OnsagerModel.C21', 'OnsagerModel.C18', 'OnsagerProofs.C21Geom', 'OnsagerProofs.C18'],
    theorems=['Onsager.C18.GroupOp.mul_assoc', 'Onsager.C18.GroupOp.ident_mul', 'Onsager.C18.GroupOp.mul_ident',
              'Onsager.C18.GroupOp.inv_mul_cancel', 'Onsager.C18.GroupOp.mul_inv_cancel',
              'Onsager.C18.GroupOp.act_mul', 'Onsager.C18.GroupOp.act_ident', 'Onsager.C18.GroupOp.act_inv',
              'Onsager.C18.GroupOp.act_addT', 'Onsager.C18.GroupOp.invIndex_spec',
              'Onsager.C18.isSpaceGroupOp_sound', 'Onsager.C18.IsSymmetry.dist_preserved',
              'Onsager.C18.IsSymmetry.maps_occupied', 'Onsager.C18.IsSymmetry.onto_occupied',
              'Onsager.C18.IsSymmetry.lattice_onto', 'Onsager.C18.IsSymmetry.mul', 'Onsager.C18.IsSymmetry.inv',
              'Onsager.C18.IsSymmetry.ident', 'Onsager.C18.all_ops_form_group',
              'Onsager.C18.isGroupModTranslations_sound', 'Onsager.C18.IsGroupModT.translate_closed',
              'Onsager.C18.IsGroupModT.left_inverse', 'Onsager.C18.nosym_is_group',
              'Onsager.C18.box_complete', 'Onsager.C18.candidateRots_complete', 'Onsager.C18.symmetry_rot_is_candidate',
              'Onsager.C18.C18_partial', 'Onsager.C18.reported_group_ok'],
    tie_theorems=[],
    rule='one case = one crystal construction (zoo of 40 named structures incl. SC/FCC/BCC/HCP/B2/diamond/2-D, then random '
         'crystals: Bravais class by exact rational metric incl. obtuse/acute rhombohedral and sheared monoclinic, '
         'decoration by orbits of random subgroups of the holohedry, spins +-1/0, rational strains via Crystal.strain, '
         'unimodular re-descriptions, random orientation, NOSYM on/off, 2-D and 3-D); non-trivial = more than the identity '
         'reported or more than one atom; distinct by exact (metric, basis, spins, flags)',
    trusted=['harness/c18lib.py (generators, snapping, float oracles, native driver build; Crystal.genBZG is stubbed out for speed — it is C22\'s subject and its result is not read by the symmetry code)'],
    assumptions=['exact model and verified checkers: scalar spins in {-1,0,1}; VECTOR spins (collinear / covariant / counter-winding textures, 3-D and 2-D) are covered by the direct float oracles only (every op rotates each spin onto the spin of its image up to one global sign; closure; symmetries known by construction are reported); complex spins are not covered',
                 'distinct atoms are > 1e-3 apart and symmetry is broken by > 1e-3 or not at all (threshold regime excluded)',
                 'noreduce=True skew cells are in the main stream (checkers + exact gengroup model with the complete candidate box)'],
)

DRV = 'C18'
MODELS = ['OnsagerModel.Basic', 'OnsagerModel.C21', 'OnsagerModel.C18']


def _replay(xc, flags, extra=None):
    r = dict(crystal=xc.describe(), flags=flags,
             how='c18lib.build(XC(metric, basis, spins, L=lattice_columns^T), **flags) then inspect crys.G')
    if extra: r.update(extra)
    return r


def _strain_case(rng, xc_in):
    """(eps, exact metric of the strained lattice in the basis of xc_in) or None.  Needs L = diag(sqrt s) Q."""
    Q, s = X.ldl(xc_in.g)
    L0 = X.lattice_from_metric(xc_in.g)
    if not np.allclose(L0, xc_in.L, atol=1e-13): return None
    d = xc_in.d
    e = [Fr(rng.choice((-3, -2, -1, 1, 2, 3, 5)), 100) if rng.random() < 0.7 else Fr(0) for _ in range(d)]
    if all(x == 0 for x in e): e[0] = Fr(1, 50)
    if rng.random() < 0.3: e = [e[0]] * d     # isotropic strain keeps the symmetry
    s2 = [si * (1 + ei) ** 2 for si, ei in zip(s, e)]
    g2 = X.mmul(X.mT(Q), X.mmul(X.diag(*s2), Q))
    eps = np.diag([float(x) for x in e])
    return eps, g2, e


class Case:
    pass


def _make_cases(ctx, n_random, with_zoo=True):
    rng = ctx.rng
    nprng = np.random.default_rng(rng.getrandbits(32))
    cases = []
    if with_zoo:
        for xc in X.zoo():
            cases.append((xc, dict(NOSYM=False), None))
        for xc in X.zoo():
            if xc.name in ('HCP-ideal', 'B2', 'honeycomb', 'square-2sp', 'square', 'SC', 'oblique-p1'):
                cases.append((xc, dict(NOSYM=True), None))
    for k in range(n_random):
        xc = X.random_xc(rng, nprng, rotate=0.4 if k % 4 else 0.0)
        flags = dict(NOSYM=(rng.random() < 0.12))
        strain = (k % 4 == 0) and not flags['NOSYM']
        cases.append((xc, flags, 'strain' if strain else None))
    # noreduce=True on deliberately skewed descriptions (the regime of the fixed finding F21)
    F = Fr
    sc = X.zoo()[0]
    skew = [sc.transformed([[1, 0, 1], [0, 1, 0], [0, 0, 1]]),
            X.XC([[F(1, 4), 0, 0], [0, F(1, 4), F(-1, 4)], [0, F(-1, 4), F(5, 4)]], [[(F(1, 3), F(5, 6), F(1, 2))]],
                 name='skew-tet(b-c21)', cls='tetP'),
            X.zoo()[1].transformed([[1, 1, 0], [0, 1, 2], [0, 0, 1]])]
    skew[0].name = 'SC-skew'; skew[2].name = 'FCC-skew'
    skew[0].order = skew[2].order = 48; skew[1].order = 16
    for k in range(max(4, n_random // 6)):
        xc = X.random_xc(rng, nprng, redescribe=0.0, maxatoms=4)
        xs = xc.transformed(X.rand_unimodular(rng, xc.d, steps=2, big=2))
        xs.name = xc.name + '*skew'
        skew.append(xs)
    for xs in skew:
        cases.append((xs, dict(noreduce=True), None))
    return cases, nprng


def _run_case(ctx, xc, flags, mode, nprng, lines, pending):
    """build, run float oracles, queue Lean requests.  pending entries: (kind, data...)"""
    rng = ctx.rng
    d = xc.d
    tag = '%dD:%s%s%s' % (d, xc.cls, ':NOSYM' if flags.get('NOSYM') else '', ':noreduce' if flags.get('noreduce') else '')
    try:
        crys = X.build(xc, **flags)
    except (ArithmeticError, RecursionError) as e:
        ctx.count('ctor:%s(reduce/minlattice; C19)' % type(e).__name__)
        return None
    except Exception as e:
        if flags.get('NOSYM') and d == 2:
            ctx.violation('nosym-2d:ctor-raises', 'Crystal(2-D lattice, %d atoms, NOSYM=True) raises %r' % (xc.N, e),
                          _replay(xc, flags, dict(error=repr(e))))
            ctx.case(('ctor', xc.key(), str(flags)), nontrivial=True)
            return None
        ctx.violation('ctor-raises:%s' % type(e).__name__, 'Crystal construction raises %r' % (e,), _replay(xc, flags, dict(error=repr(e))))
        return None
    if mode == 'strain':
        try:
            xo = X.exact_out(xc, crys)
        except X.SnapError:
            xo = None
        st = _strain_case(rng, xc) if xo is not None else None
        if st is not None:
            eps, g2, e = st
            T = xo.T
            gin = X.mmul(X.mT(T), X.mmul(g2, T))
            xs = X.XC(gin, xo.basis, xo.spins, L=(np.eye(d) + eps) @ crys.lattice, name=xc.name + '+strain', cls=xc.cls)
            try:
                crys2 = crys.strain(eps)
            except (ArithmeticError, RecursionError) as ex:
                ctx.count('ctor:%s(reduce/minlattice; C19)' % type(ex).__name__); return None
            except Exception as ex:
                ctx.violation('strain-raises:%s' % type(ex).__name__, 'Crystal.strain raises %r' % (ex,),
                              _replay(xc, flags, dict(strain=[str(x) for x in e])))
                return None
            ctx.count('strained')
            xc, crys = xs, crys2
            tag += ':strain'
    ctx.count('class:' + tag)
    G = list(crys.G)
    # ---- direct oracles on the implementation
    if any(np.array(g.rot).shape != (d, d) for g in G):
        ctx.violation('nosym-2d:identity-dim' if flags.get('NOSYM') else 'op-wrong-dim',
                      'reported operation has rot of shape %s for a %d-D crystal' % (np.array(G[0].rot).shape, d),
                      _replay(xc, flags))
        ctx.case(('dim', xc.key(), str(flags)), nontrivial=True)
        return None
    for sig, what in (X.oracle_ops(crys) + X.oracle_group(crys))[:3]:
        ctx.violation(sig, what, _replay(xc, flags, dict(nops=len(G))))
    if not flags.get('NOSYM') and mode != 'strain':
        for sig, what in X.oracle_known(xc, crys)[:1]:
            ctx.violation(sig, what, _replay(xc, flags, dict(nops=len(G))))
    if flags.get('NOSYM') and len(G) != 1:
        ctx.violation('nosym-not-identity', 'NOSYM=True reports %d operations' % len(G), _replay(xc, flags))
    # ---- exact description of what the implementation holds
    try:
        xo = X.exact_out(xc, crys)
        ops = X.ops_of(crys, xo.D)
    except X.SnapError as e:
        ctx.disagree('cannot rationalise the implementation\'s output: %s' % e, _replay(xc, flags))
        return None
    m, b, sp = xo.lean_fields()
    nontriv = len(G) > 1 or xo.N > 1
    ctx.case((xo.key(), str(flags), mode), nontrivial=nontriv,
             sample=dict(name=xc.name, cls=tag, natoms=xo.N, nops=len(G), spins=xo.spins is not None))
    ctx.count('|G|=%d' % len(G))
    if xo.spins is not None: ctx.count('with-spins')
    lines.append('%d | check | %s | %s | %s | %s' % (d, m, b, sp, ' | '.join(X.op_str(*o) for o in ops)))
    pending.append(('check', xc, flags, xo, ops))
    if not flags.get('NOSYM'):
        lines.append('%d | gen | %s | %s | %s' % (d, m, b, sp))
        pending.append(('gen', xc, flags, xo, ops))
    return crys, xo, ops


def _algebra_requests(ctx, crys, xo, ops, lines, pending, malformed):
    """differential run of GroupOp.__mul__/inv/ident/__add__/g_vect on operations of crys.G"""
    from onsager import crystal
    rng = ctx.rng
    d = xo.d
    G = sorted(crys.G, key=lambda g: (g.rot.tolist(), g.trans.tolist()))
    def triple(g, shift=True):
        rot = tuple(tuple(int(x) for x in r) for r in g.rot)
        tr = tuple(X.snapD(x, xo.D) for x in g.trans)
        n = tuple(rng.randrange(-2, 3) for _ in range(d)) if shift else (0,) * d
        return rot, tuple(a + b for a, b in zip(tr, n)), tuple(tuple(l) for l in g.indexmap)
    def mangle(t):
        rot, tr, im = t
        im = [list(l) for l in im]
        r = rng.random()
        c = rng.randrange(len(im))
        if r < 0.35 and im[c]:
            im[c][rng.randrange(len(im[c]))] = len(im[c]) + rng.randrange(2)       # out of range
        elif r < 0.6 and len(im[c]) > 1:
            im[c][0] = im[c][1]                                                     # not a permutation
        elif r < 0.8:
            im = im[:-1] if len(im) > 1 else im + [[0]]                             # wrong number of species
        else:
            rot = tuple(tuple(x + (1 if (i, j) == (0, d - 1) else 0) * rng.randrange(1, 3) for j, x in enumerate(row))
                        for i, row in enumerate(rot))                               # still unimodular? maybe not
        return rot, tr, tuple(tuple(l) for l in im)
    for _ in range(3):
        a, b = triple(rng.choice(G)), triple(rng.choice(G))
        if malformed:
            if rng.random() < 0.5: a = mangle(a)
            else: b = mangle(b)
        ga, gb = X.gop(*a), X.gop(*b)
        try:
            p = ga * gb
            res = ('ok', p)
        except IndexError:
            res = ('index-error', None)
        except Exception as e:
            res = ('other:' + type(e).__name__, None)
        lines.append('%d | mul | %s | %s' % (d, X.op_str(*a), X.op_str(*b)))
        pending.append(('mul', a, b, res))
        ctx.count('alg:mul' + (':malformed' if malformed else ''))
    a = triple(rng.choice(G))
    if malformed: a = mangle(a)
    try:
        gi = X.gop(*a).inv()
        res = ('ok', gi)
    except Exception as e:
        res = ('other:' + type(e).__name__, None)
    lines.append('%d | inv | %s' % (d, X.op_str(*a)))
    pending.append(('inv', a, res))
    ctx.count('alg:inv' + (':malformed' if malformed else ''))
    # action on a position, through Crystal.g_vect
    a = triple(rng.choice(G))
    x = tuple(Fr(rng.randrange(-20, 20), rng.choice((3, 7, 8))) for _ in range(d))
    lv = np.zeros(d, dtype=int)
    gl, gu = crystal.Crystal.g_vect(X.gop(*a), lv, np.array([float(t) for t in x]))
    lines.append('%d | act | %s | %s' % (d, X.op_str(*a), ','.join(X.fstr(t) for t in x)))
    pending.append(('act', a, x, gl + gu))
    if d == 3:
        sh = xo.shape()
        idt = crystal.GroupOp.ident(crys.basis)
        lines.append('%d | ident | %s' % (d, ','.join(map(str, sh))))
        pending.append(('ident', sh, idt))


def _cmp_op(ans, pyop, tol=1e-9):
    """compare Lean's exact op text with a Python GroupOp"""
    rot, tr, im = X.parse_op(ans)
    if tuple(tuple(int(x) for x in r) for r in pyop.rot) != rot: return 'rot differs'
    if tuple(tuple(int(i) for i in l) for l in pyop.indexmap) != im: return 'indexmap differs'
    if max(abs(float(a) - float(b)) for a, b in zip(tr, pyop.trans)) > tol: return 'trans differs'
    return None


def _evaluate(ctx, lines, pending, answers):
    for line, pend, ans in zip(lines, pending, answers):
        kind = pend[0]
        if kind == 'check':
            _, xc, flags, xo, ops = pend
            want = 'ops=%d notsym=- group=1 distinct=1' % len(ops)
            if ans != want:
                ctx.disagree('verified checker rejects the implementation\'s crys.G for %s: %s' % (xc.name, ans),
                             _replay(xc, flags, dict(lean_request=line[:4000], lean_answer=ans)), sig=None)
        elif kind == 'gen':
            _, xc, flags, xo, ops = pend
            head, *rest = ans.split(' # ')
            model = set(X.canon_op(*X.parse_op(s)) for s in rest if s.strip())
            impl = set(X.canon_op(*o) for o in ops)
            if 'self=1' not in head:
                ctx.disagree('model gengroup output fails its own verified checkers for %s: %s' % (xc.name, head),
                             _replay(xc, flags, dict(lean_request=line)), sig=None)
            if model != impl:
                only_m = sorted(model - impl)[:3]; only_i = sorted(impl - model)[:3]
                ctx.disagree('gengroup: model and implementation differ for %s: |model|=%d |impl|=%d' % (xc.name, len(model), len(impl)),
                             _replay(xc, flags, dict(only_model=[X.op_str(*o) for o in only_m],
                                                     only_impl=[X.op_str(*o) for o in only_i], lean_request=line)), sig=None)
        elif kind == 'mul':
            _, a, b, (status, p) = pend
            if status != 'ok':
                if ans != status:
                    ctx.disagree('GroupOp.__mul__: implementation %s, model %s' % (status, ans[:80]),
                                 dict(a=X.op_str(*a), b=X.op_str(*b)))
            else:
                why = 'model index-error' if ans == 'index-error' else _cmp_op(ans, p)
                if why:
                    ctx.disagree('GroupOp.__mul__: %s' % why, dict(a=X.op_str(*a), b=X.op_str(*b), model=ans,
                                                                    impl=X.op_str(p.rot, [Fr(float(t)) for t in p.trans], p.indexmap)))
        elif kind == 'inv':
            _, a, (status, gi) = pend
            if ans == 'not-unimodular':
                ctx.count('alg:inv:not-unimodular(skipped)')
            elif status != 'ok':
                ctx.disagree('GroupOp.inv: implementation raises %s, model gives %s' % (status, ans[:80]), dict(a=X.op_str(*a)))
            else:
                why = _cmp_op(ans, gi)
                if why: ctx.disagree('GroupOp.inv: %s' % why, dict(a=X.op_str(*a), model=ans))
        elif kind == 'act':
            _, a, x, y = pend
            ex = [Fr(t) for t in ans.split(',')]
            if max(abs(float(p) - float(q)) for p, q in zip(ex, y)) > 1e-9:
                ctx.disagree('Crystal.g_vect differs from the affine action', dict(a=X.op_str(*a), x=[str(t) for t in x], model=ans,
                                                                                   impl=[float(t) for t in y]))
        elif kind == 'ident':
            _, sh, idt = pend
            why = _cmp_op(ans, idt)
            if why: ctx.disagree('GroupOp.ident: %s' % why, dict(shape=sh, model=ans))


def _noise_stream(ctx, n, nprng):
    """sub-threshold noise: float oracles only; the group must be the one of the clean crystal"""
    rng = ctx.rng
    pool = [x for x in X.zoo() if x.N > 1 or x.d == 2]
    for k in range(n):
        xc = rng.choice(pool) if k % 2 == 0 else X.random_xc(rng, nprng, redescribe=0.0)
        try:
            c0 = X.build(xc)
            c1 = X.build(xc, noise=2e-10, nprng=nprng)
        except (ArithmeticError, RecursionError) as e:
            ctx.count('ctor:%s(reduce/minlattice; C19)' % type(e).__name__); continue
        ctx.count('noise-stream')
        ctx.case(('noise', xc.key(), k), nontrivial=len(c0.G) > 1)
        bad = X.oracle_ops(c1, tol=1e-6) + X.oracle_group(c1, tol=1e-6)
        for sig, what in bad[:2]:
            ctx.violation('noise:' + sig, 'with 2e-10 noise: ' + what, _replay(xc, dict(noise=2e-10)))
        k0 = sorted((g.rot.tolist(), g.indexmap) for g in c0.G)
        k1 = sorted((g.rot.tolist(), g.indexmap) for g in c1.G)
        if len(k0) != len(k1):
            ctx.violation('noise:group-order-changes', '2e-10 noise (threshold 1e-8) changes |G| from %d to %d' % (len(k0), len(k1)),
                          _replay(xc, dict(noise=2e-10)))


def _vector_spin_stream(ctx, n, nprng):
    """VECTOR spins (collinear, covariant and counter-winding textures, random), 3-D and 2-D: float oracles only"""
    rng = ctx.rng
    crystal = X.crystal_module()
    # deterministic: trimer around the c-axis of a hexagonal cell, spins winding with / against the positions
    def rotz(t):
        c, s = np.cos(t), np.sin(t)
        return np.array([[c, -s, 0.], [s, c, 0.], [0., 0., 1.]])
    fixed = []
    latt = np.array([[0.5, 0.5, 0.], [-np.sqrt(0.75), np.sqrt(0.75), 0.], [0., 0., 1.3]])
    for chir in (1, -1):
        r0 = np.array([0.3, 0., 0.]); s0 = np.array([np.cos(0.4), np.sin(0.4), 0.])
        b = [[np.linalg.solve(latt, rotz(2 * np.pi * k / 3) @ r0) + np.array([0., 0., 0.5]) for k in range(3)]]
        sp = [[rotz(chir * 2 * np.pi * k / 3) @ s0 for k in range(3)]]
        fixed.append((latt, b, sp, None, dict(cls='hexP', d=3, mode='trimer chirality %+d' % chir, lattice_columns=latt.T.tolist(),
                                               basis=[[u.tolist() for u in a] for a in b], spins=[[v.tolist() for v in l] for l in sp])))
    for k in range(n):
        L, basis, spins, known, desc = fixed[k] if k < len(fixed) else X.vector_spin_crystal(rng, nprng)
        try:
            crys = crystal.Crystal(L, [[u.copy() for u in a] for a in basis], spins=[[v.copy() for v in sl] for sl in spins])
        except (ArithmeticError, RecursionError) as e:
            ctx.count('ctor:%s(reduce/minlattice; C19)' % type(e).__name__); continue
        except Exception as e:
            ctx.violation('vector-spins:ctor-raises:%s' % type(e).__name__, 'Crystal with vector spins raises %r' % (e,), desc); continue
        ctx.count('vector-spins:' + desc['mode'].split()[0])
        ctx.case(('vspin', k, desc['mode'], str(desc['basis'])[:200]), nontrivial=len(crys.G) > 1)
        rp = dict(desc, nops=len(crys.G))
        for sig, what in (X.oracle_ops(crys) + X.oracle_group(crys))[:2]:
            ctx.violation('vector-spins:' + sig, what, rp)
        if known is not None and crys.N == sum(len(a) for a in basis):
            T = np.linalg.solve(L, crys.lattice)
            if np.abs(T - np.round(T)).max() < 1e-8 and abs(abs(round(np.linalg.det(np.round(T)))) - 1) == 0:
                Tq = [[int(round(x)) for x in r] for r in T]
                have = set(tuple(tuple(int(x) for x in r) for r in g.rot) for g in crys.G)
                for R in known:
                    Ro = X.conj_int(R, Tq)
                    if Ro is None or Ro not in have:
                        ctx.violation('vector-spins:missing-known-symmetry', 'covariant spin texture: rotation %s generated the atoms and their '
                                      'spins, so it is a symmetry, but no reported operation has it' % (list(map(list, R)),), rp)
                        break


def _ctor_options_stream(ctx, n, nprng):
    """constructor options on NON-PRIMITIVE input cells (integer supercells, |det| 2..4, atoms shuffled): NOSYM x noreduce.
    Every oracle on G is applied to the FINAL crystal: each op a self-isometry whose index map is a permutation of exactly
    the atoms of the final basis; NOSYM => G is exactly {identity} with the identity map of the final basis; closure
    whenever the final cell is primitive."""
    rng = ctx.rng
    pool = [x for x in X.zoo() if x.N <= 4]
    for k in range(n):
        xc = pool[k % len(pool)] if k < len(pool) else X.random_xc(rng, nprng, maxatoms=3, redescribe=0.0)
        d = xc.d
        det = rng.choice((2, 2, 3, 4))
        S = [[int(i == j) for j in range(d)] for i in range(d)]
        ax = rng.randrange(d); S[ax][ax] = det
        if rng.random() < 0.5:
            U = X.rand_unimodular(rng, d, steps=1, big=1)
            S = [[sum(S[i][l] * U[l][j] for l in range(d)) for j in range(d)] for i in range(d)]
        xs = xc.transformed(S)
        if xs.N > 16: continue
        flags = dict(NOSYM=(k % 2 == 0), noreduce=(k % 4 >= 2))
        if flags['noreduce'] and not flags['NOSYM']:
            # the symmetry search of a very skewed cell kept as is enumerates a huge candidate box (minutes): not the subject here
            gm = xs.L.T @ xs.L; gi = np.linalg.inv(gm); gmax = max(gm[i, i] for i in range(d))
            if np.prod([2 * max(1, int(np.floor(np.sqrt(gmax * gi[i, i]) + 1e-8))) + 1 for i in range(d)]) > 400: continue
        ctx.count('ctor-options:NOSYM=%d,noreduce=%d' % (flags['NOSYM'], flags['noreduce']))
        ctx.case(('ctor', xs.key(), str(flags)), nontrivial=True)
        rp = _replay(xs, flags, dict(base=xc.name, supercell_matrix=S))
        try:
            crys = X.build(xs, **flags)
        except (ArithmeticError, RecursionError) as e:
            ctx.count('ctor:%s(reduce/minlattice; C19)' % type(e).__name__); continue
        except Exception as e:
            ctx.violation('ctor-options:raises:%s' % type(e).__name__, 'Crystal(non-primitive cell of %s, %s) raises %r' % (xc.name, flags, e), rp)
            continue
        G = list(crys.G)
        rp.update(final_shape=[len(a) for a in crys.basis], nops=len(G), indexmaps=[list(map(list, g.indexmap)) for g in G[:2]])
        bad = X.oracle_ops(crys)
        try:
            primitive_now = (crys.N == X.build(xc, NOSYM=True).N)
        except Exception:
            primitive_now = False
        if primitive_now and not flags['NOSYM']: bad += X.oracle_group(crys)
        for sig, what in bad[:2]:
            ctx.violation('ctor-options:' + sig, '%s (input: supercell of %s): %s' % (flags, xc.name, what), rp)
        if flags['NOSYM']:
            ident_map = tuple(tuple(range(len(a))) for a in crys.basis)
            ok = (len(G) == 1 and np.array_equal(G[0].rot, np.eye(d, dtype=int)) and np.allclose(G[0].trans, 0)
                  and tuple(tuple(l) for l in G[0].indexmap) == ident_map)
            if not ok:
                ctx.violation('ctor-options:nosym-not-identity', 'NOSYM=True on a supercell of %s (noreduce=%s): G is not {identity of the final basis}: '
                              '%d operation(s), index map %s, final basis has %s atoms per species'
                              % (xc.name, flags['noreduce'], len(G), [list(l) for l in G[0].indexmap] if G else None, [len(a) for a in crys.basis]), rp)
        # the derived tables must be usable
        try:
            if [len(r) for r in crys.pointG] != [len(a) for a in crys.basis] or set(k2 for w in crys.Wyckoff for k2 in w) != set(crys.atomindices):
                ctx.violation('ctor-options:derived-tables', 'pointG / Wyckoff do not cover the atoms of the final basis', rp)
        except Exception as e:
            ctx.violation('ctor-options:derived-tables-raise', 'pointG/Wyckoff inspection raises %r' % (e,), rp)


def _near_symmetric_stream(ctx, n, nprng):
    """crystals deformed by a homogeneous strain whose relative amplitude is ABOVE the stated threshold (10 x threshold ...)
    but below 1e-5: every reported operation must still be a self-isometry of the lattice metric within the crystal's own
    threshold (absolute tolerance threshold x safety, no hidden relative tolerance)."""
    rng = ctx.rng
    pool = [x for x in X.zoo() if x.spins is None and len(X.holohedry(x.g)) >= 8]
    safety = 20.0
    for k in range(n):
        xc = pool[k % len(pool)] if k < 2 * len(pool) else X.random_xc(rng, nprng, maxatoms=4, redescribe=0.0, spins_prob=0.0)
        if k == 0: xc = next(x for x in pool if x.name == 'FCC')
        d = xc.d
        try:
            c0 = X.build(xc)
        except Exception:
            continue
        thr = c0.threshold
        amp = 10 ** rng.uniform(np.log10(30 * thr), -5.3)          # between 30 x threshold and 5e-6
        E = nprng.uniform(-1, 1, size=(d, d)); E = 0.5 * (E + E.T); E /= np.abs(E).max()
        if k == 0 and d == 3: amp, E = 1e-6, np.array([[1, .3, .2], [.3, -.5, .1], [.2, .1, .7]])
        try:
            c1 = c0.strain(amp * E)
        except (ArithmeticError, RecursionError):
            continue
        except Exception as e:
            ctx.violation('near-symmetric:strain-raises:%s' % type(e).__name__, 'strain raises %r' % (e,), _replay(xc, {}, dict(strain=(amp * E).tolist())))
            continue
        ctx.count('near-symmetric-stream')
        ctx.case(('nearsym', xc.key(), k), nontrivial=len(c0.G) > 2)
        g = c1.lattice.T @ c1.lattice
        scale = np.abs(g).max()
        worst, nbad = 0.0, 0
        for op in c1.G:
            R = np.array(op.rot)
            mm = np.abs(R.T @ g @ R - g).max()
            if mm > safety * c1.threshold * max(1.0, scale):
                nbad += 1; worst = max(worst, mm)
        rp = _replay(xc, {}, dict(strain=(amp * E).tolist(), strain_amplitude=amp, threshold=c1.threshold, nops_unstrained=len(c0.G), nops=len(c1.G),
                                  how='c = c18lib.build(crystal); c.strain(np.array(strain)).G'))
        if nbad:
            ctx.violation('near-symmetric:metric-mismatch-above-threshold',
                          '%s strained by %.1e (threshold %g): %d of the %d reported operations are not self-isometries of the lattice metric: '
                          '|R^T g R - g| up to %.2e' % (xc.name, amp, c1.threshold, nbad, len(c1.G), worst), rp)
        for sig, what in (X.oracle_ops(c1, tol=safety * c1.threshold) + X.oracle_group(c1, tol=1e-6))[:2]:
            ctx.violation('near-symmetric:' + sig, '%s strained by %.1e: %s' % (xc.name, amp, what), rp)


def _noreduce_stream(ctx, n, nprng):
    """noreduce=True on deliberately non-reduced cell descriptions (float oracles)"""
    rng = ctx.rng
    sc = X.zoo()[0]
    for k in range(n):
        if k == 0:
            xs = sc.transformed([[1, 0, 1], [0, 1, 0], [0, 0, 1]])     # simple cubic, a3 = (1,0,1)
        else:
            xc = X.random_xc(rng, nprng, redescribe=0.0, maxatoms=4)
            xs = xc.transformed(X.rand_unimodular(rng, xc.d, steps=2, big=2))
        try:
            c1 = X.build(xs, noreduce=True)
        except Exception as e:
            ctx.violation('noreduce:ctor-raises:%s' % type(e).__name__, 'Crystal(noreduce=True) raises %r' % (e,), _replay(xs, dict(noreduce=True)))
            continue
        ctx.count('noreduce-stream')
        ctx.case(('noreduce', xs.key()), nontrivial=True)
        for sig, what in (X.oracle_ops(c1) + X.oracle_group(c1))[:2]:
            ctx.violation('noreduce:' + sig, 'noreduce=True, skew cell: ' + what, _replay(xs, dict(noreduce=True)))


def run(ctx):
    nat = X.native_driver(DRV, MODELS) is not None
    t_run = time.time()   # (after the native build)
    budget = 115.0 if ctx.quick else 1250.0      # for this phase (the Lean build may have waited for the lock)
    n_random = (45 if ctx.quick else 2500) if nat else (6 if ctx.quick else 60)
    if not nat: ctx.note('native driver could not be built: interpreter fallback with a reduced case list')
    cases, nprng = _make_cases(ctx, n_random)
    lines, pending = [], []
    nalg = 0
    for (xc, flags, mode) in cases:
        if not nat and xc.name in ('SC', 'FCC', 'BCC', 'B2', 'diamond', 'rocksalt', 'L12', 'NbO', 'FCC+O+T', 'B2-spin',
                                   'BCC-AFM', 'diamond-AFM'):
            continue
        if time.time() - t_run > budget * 0.6:
            ctx.note('budget: case list truncated after %d cases' % ctx.evaluations); break
        try:
            r = _run_case(ctx, xc, flags, mode, nprng, lines, pending)
        except Exception:
            raise
        if r is not None and not flags.get('NOSYM'):
            crys, xo, ops = r
            _algebra_requests(ctx, crys, xo, ops, lines, pending, malformed=(nalg % 4 == 3))
            nalg += 1
    if ctx.evaluations < 40:
        import vcheck
        raise vcheck.InternalError('C18: only %d cases evaluated before the time budget ran out' % ctx.evaluations)
    answers = X.run_driver(ctx, DRV, MODELS, lines)
    _evaluate(ctx, lines, pending, answers)
    _noise_stream(ctx, 12 if ctx.quick else 150, nprng)
    _vector_spin_stream(ctx, 40 if ctx.quick else 600, nprng)
    _ctor_options_stream(ctx, 48 if ctx.quick else 600, nprng)
    _near_symmetric_stream(ctx, 36 if ctx.quick else 400, nprng)


def search(ctx, reasons):
    """failing-input search: more random crystals with the direct oracles only (incl. noreduce skew cells)"""
    nprng = np.random.default_rng(ctx.rng.getrandbits(32))
    n = 0
    while ctx.budget_left() > 20 and n < (150 if ctx.quick else 2000):
        n += 1
        xc = X.random_xc(ctx.rng, nprng)
        flags = dict(NOSYM=(ctx.rng.random() < 0.1))
        try:
            crys = X.build(xc, **flags)
        except (ArithmeticError, RecursionError):
            continue
        except Exception as e:
            ctx.violation('ctor-raises:%s' % type(e).__name__, 'Crystal construction raises %r' % (e,), _replay(xc, flags))
            continue
        for sig, what in (X.oracle_ops(crys) + X.oracle_group(crys))[:2]:
            ctx.violation(sig, what, _replay(xc, flags))
    _noreduce_stream(ctx, 40, nprng)
