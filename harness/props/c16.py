"""
C16 — Taylor-expansion arithmetic commutes with evaluation (onsager/PowerExpansion.py).

Tie: (a) translator: every index table of the LIVE classes Taylor3D / Taylor2D of the current source
(pow2ind, ind2pow, powlrange, directmult, powercoeff, Lproj rationalised with a checked residual) is dumped
into Generated/C16Facts.lean together with quotient certificates for the sphere identities;
OnsagerProofs/C16Tie.lean discharges the table obligations by `decide +kernel` and derives the semantic
hypotheses `Tab.Sem` of the evaluation theorems.  (b) correspondence: every operation is run on random
coefficient lists on the real classes and on the Lean model (Drive/C16.lean, exact complex rationals);
the resulting coefficient lists and dictionary evaluations are compared.  (c) direct oracles: the
operation applied to evaluated values vs the evaluated result, on the implementation alone.
"""
import os, sys, importlib.util, itertools
from fractions import Fraction
import numpy as np



# ---------------------------------------------------------------- translator (live tables -> Lean)
def load_pe(repo):
    """Import onsager/PowerExpansion.py of `repo` as an isolated module (fresh class state)."""
    path = os.path.join(repo, 'onsager', 'PowerExpansion.py')
    spec = importlib.util.spec_from_file_location('_pe_extract_%d' % abs(hash(path)), path)
    mod = importlib.util.module_from_spec(spec)
    spec.loader.exec_module(mod)
    return mod


def _rat(x, what):
    x = complex(x)
    if abs(x.imag) > 1e-13:
        raise ValueError('%s: complex table entry %r' % (what, x))
    f = Fraction(x.real).limit_denominator(100000)
    if abs(float(f) - x.real) > 1e-12:
        raise ValueError('%s: entry %r is not a small rational (residual %.3g)' % (what, x, abs(float(f) - x.real)))
    return f


def _ll(xs, fmt=str):
    return '[' + ', '.join(fmt(x) for x in xs) + ']'


def _lcd(fracs):
    d = 1
    for f in fracs:
        d = (d * f.denominator) // _gcd(d, f.denominator)
    return d


def _gcd(a, b):
    while b: a, b = b, a % b
    return a


def _sphere_quotient(dim, vec, ind2pow, pow2ind):
    """Polynomial long division of `vec` (dict exponent-tuple -> Fraction) by (x²+y²(+z²) - 1) w.r.t. the
    last variable.  Returns (quotient dict, remainder dict)."""
    d = {k: v for k, v in vec.items() if v != 0}
    q = {}
    last = dim - 1
    while True:
        cand = [k for k, v in d.items() if v != 0 and k[last] >= 2]
        if not cand: break
        k = max(cand, key=lambda t: t[last])
        c = d[k]
        base = list(k); base[last] -= 2; base = tuple(base)
        q[base] = q.get(base, 0) + c
        # subtract c * x^base * (sum_j x_j^2 - 1)
        for j in range(dim):
            t = list(base); t[j] += 2; t = tuple(t)
            d[t] = d.get(t, 0) - c
        d[base] = d.get(base, 0) + c
        d = {kk: vv for kk, vv in d.items() if vv != 0}
    return q, d


def tables_of(cls, dim):
    """All tables of an initialised Taylor class as exact python data."""
    cls()   # initialise the class attributes
    L = int(cls.Lmax); npow = int(cls.Npower)
    powl = [int(cls.powlrange[l]) for l in range(L + 1)]
    ind2pow = [[int(x) for x in cls.ind2pow[p]] for p in range(npow)]
    pow2ind = [int(x) for x in np.asarray(cls.pow2ind).reshape(-1)]
    dmult = [[int(x) for x in row] for row in np.asarray(cls.directmult)]
    pcoef = [[_rat(x, 'powercoeff') for x in row] for row in np.asarray(cls.powercoeff)]
    lp = np.asarray(cls.Lproj)
    lproj = [[[_rat(x, 'Lproj') for x in row] for row in lp[l]] for l in range(lp.shape[0])]
    return dict(dim=dim, lmax=L, npow=npow, powl=powl, ind2pow=ind2pow, pow2ind=pow2ind, dmult=dmult,
                pcoef=pcoef, lproj=lproj)


def certificates(t):
    """cert[l][p] : dense quotient (length powlrange[l-2]) with  col + q = x^p + q*(r²)  for the column p of
    Lproj[-1][:r_l,:r_l]."""
    dim, L = t['dim'], t['lmax']
    i2p = [tuple(e) for e in t['ind2pow']]
    p2i = {e: i for i, e in enumerate(i2p)}
    cert = []
    for l in range(L + 1):
        r = t['powl'][l]
        rq = t['powl'][l - 2] if l >= 2 else 0
        row = []
        for p in range(r):
            vec = {}
            for pp in range(r):
                v = t['lproj'][L + 1][pp][p]
                if v != 0: vec[i2p[pp]] = vec.get(i2p[pp], 0) + v
            vec[i2p[p]] = vec.get(i2p[p], 0) - 1
            q, rem = _sphere_quotient(dim, vec, i2p, p2i)
            dense = [Fraction(0)] * rq
            for k, v in q.items():
                i = p2i.get(k)
                if i is not None and i < rq: dense[i] += v
            row.append(dense)
        cert.append(row)
    return cert


def _pack(vals, w):
    code = 0
    for i, v in enumerate(vals):
        v = int(v)
        if not (0 <= v < (1 << w)): raise ValueError('table entry %d does not fit in %d bits' % (v, w))
        code |= v << (w * i)
    return hex(code)


def lean_tab(name, t, cert):
    """Every array packed row-major into one natural (fixed-width fields): ints +1, rationals as
    numerator+off over a common denominator."""
    dim, L, npow = t['dim'], t['lmax'], t['npow']
    if len(t['powl']) != L + 1 or len(t['ind2pow']) != npow or any(len(r) != dim for r in t['ind2pow']) \
            or len(t['pow2ind']) != (L + 1) ** dim or len(t['dmult']) != npow or any(len(r) != npow for r in t['dmult']) \
            or len(t['pcoef']) != L + 1 or any(len(r) != npow for r in t['pcoef']) or len(t['lproj']) != L + 2 \
            or any(len(m) != npow or any(len(r) != npow for r in m) for m in t['lproj']):
        raise ValueError('unexpected table shapes')
    pc = [x for r in t['pcoef'] for x in r]
    if any(x < 0 for x in pc): raise ValueError('negative powercoeff entry')
    pcden = _lcd(pc)
    lp = [x for m in t['lproj'] for r in m for x in r]
    lpden = _lcd(lp)
    lpoff = max([0] + [int(-x * lpden) for x in lp])
    cq = [x for row in cert for q in row for x in q]
    cden = _lcd(cq)
    coff = max([0] + [int(-x * cden) for x in cq])
    cflat = [coff] * ((L + 1) * npow * npow)
    for l, row in enumerate(cert):
        for p_, q in enumerate(row):
            for i, x in enumerate(q):
                cflat[(l * npow + p_) * npow + i] = int(x * cden) + coff
    s = 'def %sRaw : Onsager.C16.RawTab where\n' % name
    s += '  dim := %d\n  lmax := %d\n  npow := %d\n' % (dim, L, npow)
    s += '  powl := %s\n' % _ll(t['powl'])
    s += '  ind2pow := %s\n' % _pack([x for r in t['ind2pow'] for x in r], 8)
    s += '  pow2ind := %s\n' % _pack([x + 1 for x in t['pow2ind']], 16)
    s += '  dmult := %s\n' % _pack([x + 1 for r in t['dmult'] for x in r], 16)
    s += '  pcden := %d\n' % pcden
    s += '  pcoef := %s\n' % _pack([x * pcden for x in pc], 32)
    s += '  lpden := %d\n  lpoff := %d\n' % (lpden, lpoff)
    s += '  lproj := %s\n' % _pack([x * lpden + lpoff for x in lp], 32)
    s += '  cden := %d\n  coff := %d\n' % (cden, coff)
    s += '  cert := %s\n' % _pack(cflat, 32)
    s += '\ndef %s : Onsager.C16.Tab Rat := %sRaw.toTab\n' % (name, name)
    s += 'def %s : Nat → Nat → List Rat := %sRaw.certOf\n' % (name.replace('tab', 'cert'), name)
    return s


def extract(repo):
    pe = load_pe(repo)
    out = ('/- GENERATED by harness/props/c16.py from the live classes Taylor3D / Taylor2D of\n'
           '   onsager/PowerExpansion.py on every run.  Do not edit. -/\n'
           'import OnsagerModel.C16\n'
           'namespace Generated.C16\n\n')
    for name, cls, dim in (('tab3', pe.Taylor3D, 3), ('tab2', pe.Taylor2D, 2)):
        t = tables_of(cls, dim)
        out += lean_tab(name, t, certificates(t)) + '\n'
    out += 'end Generated.C16\n'
    return {'C16Facts.lean': out}



# ---------------------------------------------------------------- META
META = dict(
    id='C16',
    level_text='Kernel-checked theorems, for ALL coefficient lists of consistent shape, all directions and radial factors, over any '
               'commutative ring K and any (non-commutative) K-algebra of coefficients: evaluation commutes with negation, scalar / '
               'matrix products (incl. dictionary form), sums, linear index maps (getitem), truncation, products of expansions under '
               'the explicit guard l_a+l_b <= Lmax (with a kernel-checked witness that the guard is needed), reduce / collect / '
               'separate on the unit sphere, and constructexpansion = direct power series.  The theorems assume the semantic table '
               'facts Tab.Sem, which are PROVED (C16Sound.sem_of_checks) from executable table obligations that are discharged by '
               'kernel evaluation for the tables dumped from the live Taylor3D / Taylor2D classes on every run (Lmax=4, exhaustive). '
               'The table-based Python code is tied to the model by running every operation (and in-place variant) differentially.',
    level_note='Trusted: Lean kernel + standard axioms; the table dump (extract) incl. rationalisation of Lproj with residual < 1e-12; '
               'the harness. Modelled not verified: numpy broadcasting/tensordot (modelled by the exact tensor type Ten in the driver; the '
               'theorems are stated for coefficient objects forming a ring, i.e. scalars and square matrices; rectangular shapes are covered '
               'by the differential runs only); np.allclose(.,0,atol=1e-10) is modelled as an exact zero test.',
    technique='Lean 4 proofs over a polymorphic executable model + decide +kernel table obligations with certificates + differential runs',
    lean_modules=['OnsagerModel.C16', 'OnsagerModel.C16Ten', 'Generated.C16Facts', 'OnsagerProofs.C16', 'OnsagerProofs.C16Proj',
                  'OnsagerProofs.C16Sound', 'OnsagerProofs.C16Tie3a', 'OnsagerProofs.C16Tie3b', 'OnsagerProofs.C16Tie3c',
                  'OnsagerProofs.C16Tie3d', 'OnsagerProofs.C16Tie3e', 'OnsagerProofs.C16Tie2', 'OnsagerProofs.C16Tie'],
    theorems=['Onsager.C16.eval_neg', 'Onsager.C16.eval_lmul', 'Onsager.C16.eval_rmul', 'Onsager.C16.eval_lmulD',
              'Onsager.C16.eval_rmulD', 'Onsager.C16.eval_sum', 'Onsager.C16.eval_getitem', 'Onsager.C16.eval_truncate',
              'Onsager.C16.eval_mul', 'Onsager.C16.eval_reduce', 'Onsager.C16.eval_collect', 'Onsager.C16.eval_reduceFull',
              'Onsager.C16.eval_separate', 'Onsager.C16.construct_is_power_series', 'Onsager.C16.sem_of_checks'],
    tie_theorems=['Onsager.C16.tab3_sizes', 'Onsager.C16.tab3_graded', 'Onsager.C16.tab3_inverse', 'Onsager.C16.tab3_dmult',
                  'Onsager.C16.tab3_pcoef_formula', 'Onsager.C16.tab3_pcoef_powers', 'Onsager.C16.tab3_r2',
                  'Onsager.C16.tab3_proj_graded', 'Onsager.C16.tab3_proj_all', 'Onsager.C16.tab3_proj_sep', 'Onsager.C16.tab3_harmonic',
                  'Onsager.C16.tab2_sizes', 'Onsager.C16.tab2_graded', 'Onsager.C16.tab2_inverse', 'Onsager.C16.tab2_dmult',
                  'Onsager.C16.tab2_pcoef_formula', 'Onsager.C16.tab2_pcoef_powers', 'Onsager.C16.tab2_r2',
                  'Onsager.C16.tab2_proj_graded', 'Onsager.C16.tab2_proj_all', 'Onsager.C16.tab2_proj_sep', 'Onsager.C16.tab2_harmonic',
                  'Onsager.C16.tab3_sem', 'Onsager.C16.tab2_sem', 'Onsager.C16.eval_mul_guard_needed'],
    rule='random coefficient lists (1-3 terms, n in -2..4 possibly repeated, l <= 4, dyadic complex entries, scalar / vector / square / '
         'rectangular shapes), random rational unit directions, 2-D and 3-D, every operation and in-place / operator variant; a case is '
         'one operation on one input; non-trivial = the result has a non-zero coefficient; distinct by request text; plus a malformed '
         'stream (wrong block length, l > Lmax, incompatible shapes)',
    trusted=['numpy semantics of tensordot / broadcasting as modelled by OnsagerModel/C16Ten.lean',
             'rationalisation of Lproj / powercoeff (Fraction.limit_denominator, residual checked < 1e-12)'],
    assumptions=['coefficient blocks have powlrange[l] rows and l <= Lmax (else numpy raises or broadcasts; outside the property)',
                 'np.allclose(x,0,atol=1e-10) agrees with the exact zero test on the generated inputs (entries are multiples of 1/16)',
                 'products: theorem under l_a+l_b <= Lmax; beyond the guard only model == code is checked'],
)

DRIVER = 'Drive/C16.lean'
TOL = 1e-11


# ---------------------------------------------------------------- serialisation
def fr(x):
    f = Fraction(float(x))
    return str(f.numerator) if f.denominator == 1 else '%d/%d' % (f.numerator, f.denominator)


def cx(z):
    z = complex(z)
    return fr(z.real) if z.imag == 0 else '%s_%s' % (fr(z.real), fr(z.imag))


def shp(shape):
    return 's' if len(shape) == 0 else 'x'.join(str(int(k)) for k in shape)


def ser_ten(x):
    x = np.asarray(x)
    return '%s:%s' % (shp(x.shape), ','.join(cx(z) for z in x.reshape(-1)))


def ser_coeffs(cl):
    if len(cl) == 0: return '-'
    out = []
    for n, l, c in cl:
        c = np.asarray(c)
        out.append('%d:%d:%s:%s' % (n, l, shp(c.shape[1:]), '|'.join(','.join(cx(z) for z in row.reshape(-1)) for row in c)))
    return ';'.join(out)


def _pc(s):
    if '_' in s:
        a, b = s.split('_')
        return complex(float(Fraction(a)), float(Fraction(b)))
    return complex(float(Fraction(s)), 0.0)


def _pshape(s):
    return () if s == 's' else tuple(int(k) for k in s.split('x'))


def parse_ten(s):
    if s == 'Z': return None
    sh, d = s.split(':')
    sh = _pshape(sh)
    return np.array([_pc(t) for t in d.split(',')] if d else [], dtype=complex).reshape(sh)


def parse_coeffs(s):
    """-> list of (n, l, array or ('zeros', nrows))"""
    if s == '-': return []
    out = []
    for e in s.split(';'):
        n, l, sh, rows = e.split(':')
        if sh == '?':
            out.append((int(n), int(l), ('zeros', int(rows))))
            continue
        sh = _pshape(sh)
        rr = rows.split('|') if rows != '' else []
        arr = np.array([[_pc(t) for t in r.split(',')] for r in rr], dtype=complex).reshape((len(rr),) + sh)
        out.append((int(n), int(l), arr))
    return out


def coeffs_close(model, impl, rel=False):
    """model: parsed; impl: python coefflist.  Returns None if equal within TOL else a reason.
    rel=True: tolerance relative to the largest coefficient of the whole (model) list, without the floor 1
    (for inputs whose overall scale runs over many decades)."""
    gscale = None
    if rel:
        gscale = max([float(np.max(np.abs(c))) for _, _, c in model if not isinstance(c, tuple) and c.size] + [0.0])
        if gscale == 0.0: gscale = 1.0
    if len(model) != len(impl):
        return 'different number of terms: model %s impl %s' % ([(n, l) for n, l, _ in model], [(n, l) for n, l, _ in impl])
    for (n, l, c), (n2, l2, c2) in zip(model, impl):
        if (n, l) != (int(n2), int(l2)):
            return 'different (n,l) sequence: model %s impl %s' % ([(a, b) for a, b, _ in model], [(int(a), int(b)) for a, b, _ in impl])
        c2 = np.asarray(c2)
        if isinstance(c, tuple):
            c = np.zeros(c2.shape, dtype=complex)
            if c2.shape[0] != c.shape[0]: return 'row count differs in (%d,%d)' % (n, l)
        if c.shape != c2.shape:
            return 'shape differs in (%d,%d): model %s impl %s' % (n, l, c.shape, c2.shape)
        scale = gscale if rel else max(1.0, float(np.max(np.abs(c))) if c.size else 1.0)
        if c.size and float(np.max(np.abs(c - c2))) > TOL * scale:
            return 'coefficients differ in (%d,%d) by %.3g' % (n, l, float(np.max(np.abs(c - c2))))
    return None


# ---------------------------------------------------------------- generators
def rnd_val(rng, cplx=True):
    re = rng.randint(-32, 32) / 16.0
    im = rng.randint(-32, 32) / 16.0 if (cplx and rng.random() < 0.6) else 0.0
    return complex(re, im)


def rnd_arr(rng, shape, sparsity=0.3):
    n = int(np.prod(shape)) if len(shape) else 1
    v = [0j if rng.random() < sparsity else rnd_val(rng) for _ in range(n)]
    return np.array(v, dtype=complex).reshape(shape)


def rnd_shape(rng):
    r = rng.random()
    if r < 0.30: return ()
    if r < 0.45: return (rng.randint(1, 3),)
    if r < 0.85:
        k = rng.randint(1, 3); return (k, k)
    return (rng.randint(1, 3), rng.randint(1, 3))


def rnd_coeffs(rng, cls, shape, lmax=None, nterms=None, nlo=-2, nhi=4, repeat_n=0.25):
    L = cls.Lmax if lmax is None else lmax
    k = rng.randint(1, 3) if nterms is None else nterms
    ns = []
    for _ in range(k):
        if ns and rng.random() < repeat_n: ns.append(rng.choice(ns))
        else: ns.append(rng.randint(nlo, nhi))
    cl = []
    for n in ns:
        l = rng.randint(0, L)
        cl.append((n, l, rnd_arr(rng, (int(cls.powlrange[l]),) + tuple(shape))))
    return cl


def rnd_unit(rng, dim):
    """rational point on the unit sphere / circle (stereographic), returned as floats and Fractions"""
    while True:
        t = [Fraction(rng.randint(-12, 12), rng.randint(1, 6)) for _ in range(dim - 1)]
        s = sum(x * x for x in t)
        u = [2 * x / (1 + s) for x in t] + [(1 - s) / (1 + s)] if rng.random() < 0.8 else \
            [(1 - s) / (1 + s)] + [2 * x / (1 + s) for x in t]
        perm = list(range(dim)); rng.shuffle(perm)
        u = [u[i] for i in perm]
        if sum(x * x for x in u) == 1: return u


def copy_cl(cl):
    return [(n, l, np.array(c, copy=True)) for n, l, c in cl]


def cl_equal(a, b):
    return len(a) == len(b) and all(x[0] == y[0] and x[1] == y[1] and np.array_equal(x[2], y[2]) for x, y in zip(a, b))


class FN(dict):
    """fnu dictionary: (n,l) -> radial factor depending on n only"""
    def __init__(self, f, callable_=False):
        self.f, self.c = f, callable_
    def __missing__(self, key):
        n = key[0]
        if self.c: return (lambda x, n=n: self.f(n))
        return self.f(n)
    def __getitem__(self, key):
        return self.__missing__(key)


def ev(T, u, fn):
    """Taylor.__call__ with a radial factor; empty expansion -> 0"""
    if len(T.coefflist) == 0: return 0.0
    return T(np.array(u, dtype=float), fn)


def close(x, y, scale=1.0):
    x = np.asarray(x, dtype=complex); y = np.asarray(y, dtype=complex)
    if x.shape != y.shape:
        try: x, y = np.broadcast_arrays(x, y)
        except ValueError: return False
    s = max(scale, float(np.max(np.abs(x))) if x.size else 0.0, float(np.max(np.abs(y))) if y.size else 0.0)
    return (x.size == 0) or float(np.max(np.abs(x - y))) <= 1e-9 * s


# ---------------------------------------------------------------- one operation = model request + impl results + oracle
class Case:
    __slots__ = ('line', 'variants', 'oracle', 'key', 'expect_err', 'tag', 'replay', 'multi', 'sig')

    def __init__(self, line, variants, tag, replay, expect_err=None, multi=False):
        self.line, self.variants, self.tag, self.replay = line, variants, tag, replay
        self.expect_err, self.multi = expect_err, multi
        self.sig = None


def _try(f):
    try:
        return ('ok', f())
    except Exception as e:      # numpy / python exceptions = the code rejects the input
        return ('raise', type(e).__name__)


def gen_cases(ctx, cls, dim, count, malformed_every=7):
    """Build `count` cases for one class.  Every case: request line for the model, the implementation's result(s)
    (several variants of the same operation), and the direct oracle evaluated on the implementation alone."""
    rng = ctx.rng
    cases = []
    OPS = ['sum', 'sum', 'neg', 'smul', 'smuld', 'ldot', 'rdot', 'ldotd', 'mul', 'mul', 'mul', 'getitem', 'trunc',
           'reduce', 'collect', 'redfull', 'separate', 'construct', 'evald']
    for it in range(count):
        op = OPS[it % len(OPS)] if it < 2 * len(OPS) else rng.choice(OPS)
        malformed = (it % malformed_every == malformed_every - 1)
        u = rnd_unit(rng, dim)
        uf = [float(x) for x in u]
        tval = Fraction(rng.randint(1, 9), rng.randint(1, 4))
        tsc = float(tval) * rng.choice([1.0, 1.0, 0.5])       # evaluation point = tsc * u  (|q| = tsc)
        fn = FN(lambda n, t=tsc: t ** n, callable_=rng.random() < 0.5)
        q = [tsc * x for x in uf]
        pref = '%d ' % dim
        rp = dict(dim=dim, op=op, u=[str(x) for x in u], radial='f_n(x)=%r**n' % tsc)

        def oracle_fail(sig, what, extra):
            r = dict(rp); r.update(extra)
            ctx.violation(sig, what, r)

        shape = rnd_shape(rng)
        try:
            if op == 'sum':
                a = rnd_coeffs(rng, cls, shape); b = rnd_coeffs(rng, cls, shape)
                if rng.random() < 0.08: b = []
                if rng.random() < 0.05: a = []
                if malformed:
                    kind = rng.choice(['rows', 'shape', 'l'])
                    if kind == 'rows' and b: b[0] = (b[0][0], b[0][1], np.concatenate([b[0][2], b[0][2][:1]]))
                    elif kind == 'shape' and b and a: b = rnd_coeffs(rng, cls, tuple(shape) + (2,))
                    elif b: b[0] = (b[0][0], cls.Lmax + 1, b[0][2])
                al, be = rnd_val(rng), rnd_val(rng)
                mode = rng.choice(['coeff', 'add', 'sub', 'iadd', 'isub', 'rsub', 'inplace', 'radd0'])
                if mode in ('add', 'iadd', 'radd0'): al, be = 1, 1
                if mode in ('sub', 'isub'): al, be = 1, -1
                if mode == 'rsub': al, be = -1, 1
                if mode == 'inplace' and rng.random() < 0.5: al = 1
                sig = 'sum:inplace-alpha' if (mode == 'inplace' and al != 1 and a and b) else 'sum:' + mode
                a0, b0 = copy_cl(a), copy_cl(b)
                A, B = cls(a), cls(b)
                def run_sum():
                    if mode == 'coeff': return cls.sumcoeff(A, B, al, be)
                    if mode == 'inplace':
                        r = cls.sumcoeff(A.coefflist, B, al, be, inplace=True); return r
                    if mode == 'add': return (A + B).coefflist
                    if mode == 'sub': return (A - B).coefflist
                    if mode == 'rsub': return B.__rsub__(A).coefflist if False else cls(cls.sumcoeff(A, B, -1, 1)).coefflist
                    if mode == 'iadd':
                        A2 = A; A2 += B; return A2.coefflist
                    if mode == 'isub':
                        A2 = A; A2 -= B; return A2.coefflist
                    if mode == 'radd0': return sum([A, B]).coefflist
                res = _try(run_sum)
                line = pref + 'sum %s %s %s %s' % (ser_coeffs(a0), ser_coeffs(b0), ser_ten(al), ser_ten(be))
                c = Case(line, [(mode, res)], 'sum:' + mode, dict(rp, a=ser_coeffs(a0), b=ser_coeffs(b0), alpha=str(al), beta=str(be), mode=mode))
                c.sig = sig if sig == 'sum:inplace-alpha' else None
                if res[0] == 'ok' and not malformed:
                    R = cls(res[1])
                    if not close(ev(R, q, fn), al * np.asarray(ev(cls(a0), q, fn)) + be * np.asarray(ev(cls(b0), q, fn))):
                        oracle_fail(sig, 'evaluating alpha*a+beta*b differs from alpha*a(u)+beta*b(u)', c.replay)
                    if not cl_equal(B.coefflist, b0) or (mode in ('coeff', 'add', 'sub', 'rsub', 'radd0') and not cl_equal(A.coefflist, a0)):
                        oracle_fail('sum-mutates-operand:%s' % mode, 'a non-in-place sum modified one of its operands', c.replay)
                cases.append(c)
            elif op == 'neg':
                a = rnd_coeffs(rng, cls, shape); a0 = copy_cl(a); A = cls(a)
                res = _try(lambda: (-A).coefflist)
                c = Case(pref + 'neg %s' % ser_coeffs(a0), [('neg', res)], 'neg', dict(rp, a=ser_coeffs(a0)))
                if res[0] == 'ok' and not close(ev(cls(res[1]), q, fn), -np.asarray(ev(A, q, fn))):
                    oracle_fail('neg', '(-a)(u) != -(a(u))', c.replay)
                cases.append(c)
            elif op in ('smul', 'smuld'):
                a = rnd_coeffs(rng, cls, shape, repeat_n=0.0 if op == 'smuld' else 0.25); a0 = copy_cl(a); A = cls(a)
                if op == 'smul':
                    cval = rnd_val(rng)
                    mode = rng.choice(['mul', 'rmul', 'coeff', 'inplace'])
                    def run():
                        if mode == 'mul': return (A * cval).coefflist
                        if mode == 'rmul': return (cval * A).coefflist
                        if mode == 'coeff': return cls.scalarproductcoeff(cval, A)
                        cls.scalarproductcoeff(cval, A, inplace=True); return A.coefflist
                    res = _try(run)
                    c = Case(pref + 'lmul %s %s' % (ser_ten(cval), ser_coeffs(a0)), [(mode, res)], 'smul:' + mode,
                             dict(rp, a=ser_coeffs(a0), c=str(cval), mode=mode))
                    if res[0] == 'ok' and not close(ev(cls(res[1]), q, fn), cval * np.asarray(ev(cls(a0), q, fn))):
                        oracle_fail('smul:%s' % mode, '(c*a)(u) != c*(a(u))', c.replay)
                else:
                    keys = sorted({(n, l) for n, l, _ in a0})
                    dct = {k: rnd_val(rng) for k in keys}
                    mode = rng.choice(['mul', 'coeff', 'inplace'])
                    def run():
                        if mode == 'mul': return (A * dct).coefflist
                        if mode == 'coeff': return cls.scalarproductcoeff(dct, A)
                        cls.scalarproductcoeff(dct, A, inplace=True); return A.coefflist
                    res = _try(run)
                    dser = ';'.join('%d:%d:%s' % (k[0], k[1], ser_ten(v)) for k, v in dct.items())
                    c = Case(pref + 'lmuld %s %s' % (dser, ser_coeffs(a0)), [(mode, res)], 'smuld:' + mode,
                             dict(rp, a=ser_coeffs(a0), c=dser, mode=mode))
                    if res[0] == 'ok':
                        want = sum(dct[(n, l)] * np.asarray(ev(cls([(n, l, cc)]), q, fn)) for n, l, cc in a0)
                        if not close(ev(cls(res[1]), q, fn), want):
                            oracle_fail('smuld:%s' % mode, 'dictionary scalar product does not commute with evaluation', c.replay)
                cases.append(c)
            elif op in ('ldot', 'rdot', 'ldotd'):
                if len(shape) == 0: shape = (rng.randint(1, 3),)
                a = rnd_coeffs(rng, cls, shape, repeat_n=0.0 if op == 'ldotd' else 0.25); a0 = copy_cl(a); A = cls(a)
                left = op != 'rdot'
                k = shape[0] if left else shape[-1]
                if malformed: k = k + 1
                cshape = (rng.randint(1, 3), k) if left else (k, rng.randint(1, 3))
                if rng.random() < 0.2: cshape = (k,)
                if op == 'ldotd':
                    keys = sorted({(n, l) for n, l, _ in a0})
                    dct = {kk: rnd_arr(rng, cshape, 0.1) for kk in keys}
                    mode = rng.choice(['ldot', 'ildot'])
                    def run():
                        if mode == 'ldot': return A.ldot(dct).coefflist
                        return A.ildot(dct).coefflist
                    res = _try(run)
                    dser = ';'.join('%d:%d:%s' % (kk[0], kk[1], ser_ten(v)) for kk, v in dct.items())
                    c = Case(pref + 'lmuld %s %s' % (dser, ser_coeffs(a0)), [(mode, res)], 'ldotd:' + mode,
                             dict(rp, a=ser_coeffs(a0), c=dser, mode=mode))
                    if res[0] == 'ok' and not malformed:
                        want = sum(np.tensordot(dct[(n, l)], np.asarray(ev(cls([(n, l, cc)]), q, fn)), axes=1) for n, l, cc in a0)
                        if not close(ev(cls(res[1]), q, fn), want):
                            oracle_fail('ldotd:%s' % mode, 'dictionary ldot does not commute with evaluation', c.replay)
                else:
                    cm = rnd_arr(rng, cshape, 0.1)
                    mode = rng.choice(['dot', 'idot'])
                    def run():
                        if left: return (A.ldot(cm) if mode == 'dot' else A.ildot(cm)).coefflist
                        return (A.rdot(cm) if mode == 'dot' else A.irdot(cm)).coefflist
                    res = _try(run)
                    c = Case(pref + '%s %s %s' % ('lmul' if left else 'rmul', ser_ten(cm), ser_coeffs(a0)), [(mode, res)],
                             op + ':' + mode, dict(rp, a=ser_coeffs(a0), c=ser_ten(cm), mode=mode))
                    if res[0] == 'ok' and not malformed:
                        va = np.asarray(ev(cls(a0), q, fn))
                        want = np.tensordot(cm, va, axes=1) if left else np.tensordot(va, cm, axes=1)
                        if not close(ev(cls(res[1]), q, fn), want):
                            oracle_fail('%s:%s' % (op, mode), 'c.a (or a.c) does not commute with evaluation', c.replay)
                cases.append(c)
            elif op == 'mul':
                # shapes: scalar*any, any*scalar, (..,k)*(k,..)
                r = rng.random()
                if r < 0.25: sa, sb = (), rnd_shape(rng)
                elif r < 0.4: sa, sb = rnd_shape(rng), ()
                else:
                    k = rng.randint(1, 3)
                    sa = rng.choice([(k,), (rng.randint(1, 3), k)]); sb = rng.choice([(k,), (k, rng.randint(1, 3))])
                    if malformed: sb = (k + 1,) + tuple(sb[1:])
                beyond = (not malformed) and rng.random() < 0.15
                la = rng.randint(0, cls.Lmax)
                a = rnd_coeffs(rng, cls, sa, lmax=la, nlo=-2, nhi=3)
                lb = cls.Lmax if beyond else cls.Lmax - max(l for _, l, _ in a)
                b = rnd_coeffs(rng, cls, sb, lmax=lb, nlo=-2, nhi=3)
                if rng.random() < 0.04: b = []
                a0, b0 = copy_cl(a), copy_cl(b); A, B = cls(a), cls(b)
                mode = rng.choice(['mul', 'coeff'])
                res = _try(lambda: (A * B).coefflist if mode == 'mul' else cls.coeffproductcoeff(A, B))
                c = Case(pref + 'mul %s %s' % (ser_coeffs(a0), ser_coeffs(b0)), [(mode, res)], 'mul', dict(rp, a=ser_coeffs(a0), b=ser_coeffs(b0)))
                within = all(x[1] + y[1] <= cls.Lmax for x in a0 for y in b0)
                ctx.count('mul:within-guard' if within else 'mul:beyond-guard')
                if res[0] == 'ok' and within and not malformed:
                    va, vb = np.asarray(ev(cls(a0), q, fn)), np.asarray(ev(cls(b0), q, fn))
                    want = 0.0 if (len(a0) == 0 or len(b0) == 0) else \
                        (va * vb if (len(sa) == 0 or len(sb) == 0) else np.tensordot(va, vb, axes=1))
                    if not close(ev(cls(res[1]), q, fn), want):
                        oracle_fail('mul', '(a*b)(u) != a(u).b(u) although l_a+l_b <= Lmax', c.replay)
                    if not cl_equal(A.coefflist, a0) or not cl_equal(B.coefflist, b0):
                        oracle_fail('mul-mutates-operand', 'product modified one of its operands', c.replay)
                cases.append(c)
            elif op == 'getitem':
                if len(shape) == 0: shape = (rng.randint(1, 3), rng.randint(1, 3))
                a = rnd_coeffs(rng, cls, shape); a0 = copy_cl(a); A = cls(a)
                key = []
                for ax, d in enumerate(shape):
                    if rng.random() < 0.6: key.append(rng.randrange(d) + (d if malformed and ax == 0 else 0))
                    else: key.append(slice(None))
                if rng.random() < 0.3: key = key[:1]
                kt = tuple(key) if len(key) > 1 or rng.random() < 0.5 else key[0]
                res = _try(lambda: A[kt].coefflist)
                kser = ','.join('_' if isinstance(k, slice) else str(k) for k in key)
                c = Case(pref + 'getitem %s %s' % (kser, ser_coeffs(a0)), [('getitem', res)], 'getitem', dict(rp, a=ser_coeffs(a0), key=kser))
                if res[0] == 'ok' and not malformed:
                    if not close(ev(cls(res[1]), q, fn), np.asarray(ev(cls(a0), q, fn))[tuple(key)]):
                        oracle_fail('getitem', 'a[key](u) != a(u)[key]', c.replay)
                cases.append(c)
            elif op == 'trunc':
                a = rnd_coeffs(rng, cls, shape, nterms=rng.randint(1, 4)); a0 = copy_cl(a); A = cls(a)
                N = rng.randint(-3, 5)
                mode = rng.choice(['new', 'inplace', 'coeff'])
                def run():
                    if mode == 'new': return A.truncate(N).coefflist
                    if mode == 'inplace': return A.truncate(N, inplace=True).coefflist
                    return cls.truncatecoeff(A, N)
                res = _try(run)
                c = Case(pref + 'trunc %d %s' % (N, ser_coeffs(a0)), [(mode, res)], 'trunc:' + mode, dict(rp, a=ser_coeffs(a0), N=N, mode=mode))
                if res[0] == 'ok':
                    fcut = FN(lambda n, t=tsc, N=N: (t ** n if n <= N else 0.0))
                    if not close(ev(cls(res[1]), q, fn), ev(cls(a0), q, fcut)):
                        oracle_fail('trunc:%s' % mode, 'truncate(N) is not the series without the orders > N', c.replay)
                cases.append(c)
            elif op in ('reduce', 'collect', 'redfull', 'separate'):
                # make inputs where reduction matters: multiply low-order pieces by r^2, add harmonic pieces
                a = rnd_coeffs(rng, cls, shape, nterms=rng.randint(1, 3), nhi=2, repeat_n=0.5)
                if rng.random() < 0.5:
                    # pad a block with something proportional to (x^2+y^2+z^2 - 1) * monomial: vanishes on the sphere
                    n, l, cc = a[0]
                    if l >= 2:
                        p0 = rng.randrange(int(cls.powlrange[l - 2]))
                        cc = cc * 0
                        val = rnd_arr(rng, shape, 0.0)
                        cc[p0] -= val
                        e0 = tuple(int(x) for x in cls.ind2pow[p0])
                        for j in range(dim):
                            e = list(e0); e[j] += 2
                            cc[cls.pow2ind[tuple(e)]] += val
                        a[0] = (n, l, cc)
                if malformed: a[0] = (a[0][0], a[0][1], a[0][2][:-1])
                a0 = copy_cl(a); A = cls(a)
                if op == 'reduce':
                    mode = rng.choice(['coeff', 'inplace'])
                    run = (lambda: cls.reducecoeff(A)) if mode == 'coeff' else (lambda: cls.reducecoeff(A.coefflist, inplace=True))
                elif op == 'collect':
                    mode = rng.choice(['coeff', 'inplace'])
                    run = (lambda: cls.collectcoeff(A)) if mode == 'coeff' else (lambda: cls.collectcoeff(A.coefflist, inplace=True))
                elif op == 'redfull':
                    mode = 'method'
                    run = lambda: A.reduce().coefflist
                else:
                    mode = rng.choice(['coeff', 'method'])
                    run = (lambda: cls.separatecoeff(A)) if mode == 'coeff' else (lambda: A.separate().coefflist)
                res = _try(run)
                c = Case(pref + '%s %s' % (op, ser_coeffs(a0)), [(mode, res)], op + ':' + mode, dict(rp, a=ser_coeffs(a0), mode=mode))
                if res[0] == 'ok' and not malformed:
                    if not close(ev(cls(res[1]), q, fn), ev(cls(a0), q, fn)):
                        oracle_fail('%s:%s' % (op, mode), '%s changes the value on the unit sphere' % op, c.replay)
                    if mode == 'coeff' and not cl_equal(A.coefflist, a0):
                        oracle_fail('%s-mutates-operand' % op, 'non-in-place %s modified its operand' % op, c.replay)
                cases.append(c)
            elif op == 'construct':
                if len(shape) == 0 and rng.random() < 0.5: shape = (2, 2)
                nb = rng.randint(1, 3)
                basis = []
                for _ in range(nb):
                    v = np.array([rng.randint(-8, 8) / 4.0 for _ in range(dim)])
                    if rng.random() < 0.1: v = v * 0
                    basis.append((rnd_arr(rng, shape, 0.1), v))
                N = rng.choice([-1, 0, 1, 2, 3, 4])
                NN = cls.Lmax if N < 0 else N
                pre = None if rng.random() < 0.3 else [rnd_val(rng) for _ in range(NN + 1)]
                res = _try(lambda: cls.constructexpansion(basis, N=N, pre=pre))
                prel = [1] * (NN + 1) if pre is None else pre
                line = pref + 'construct %d %s %s' % (NN, ';'.join(ser_ten(x) for x in prel),
                                                      ';'.join('%s@%s' % (ser_ten(m), ','.join(fr(x) for x in v)) for m, v in basis))
                c = Case(line, [('construct', res)], 'construct', dict(rp, N=N, pre=[str(x) for x in prel],
                                                                        basis=[(ser_ten(m), [float(x) for x in v]) for m, v in basis]), multi=True)
                if res[0] == 'ok':
                    got = sum(np.asarray(ev(cls(list(cn)), q, fn)) for cn in res[1])
                    want = sum(fn[(n, 0)] if not fn.c else fn.f(n) for n in range(0)) if False else \
                        sum((tsc ** n) * prel[n] * sum((float(np.dot(v, uf)) ** n) * m for m, v in basis) for n in range(NN + 1))
                    if not close(got, want):
                        oracle_fail('construct', 'constructexpansion does not reproduce sum_n pre_n (v.u)^n M', c.replay)
                cases.append(c)
            elif op == 'evald':
                a = rnd_coeffs(rng, cls, shape, nterms=rng.randint(1, 3)); a0 = copy_cl(a); A = cls(a)
                res = _try(lambda: A(np.array(q, dtype=float)))
                c = Case(pref + 'evald %s %s' % (','.join(str(x) for x in u), ser_coeffs(a0)), [('evald', res)], 'evald',
                         dict(rp, a=ser_coeffs(a0)))
                cases.append(c)
        except Exception as e:        # generator bug: never a finding
            ctx.note('generator error in %s: %r' % (op, e))
    return cases


def check_answers(ctx, cls, cases, answers):
    for c, ans in zip(cases, answers):
        ctx.count('op:' + c.tag.split(':')[0])
        mode, res = c.variants[0]
        nontriv = False
        if c.tag == 'mul' and ans[:3] in ('g0 ', 'g1 '):
            ans = ans[3:]
        if ans.startswith('ERR'):
            ctx.count('model:' + ans.replace(' ', '-'))
            if ans == 'ERR parse':
                ctx.note('driver could not parse: ' + c.line[:200])
                ctx.disagree('driver parse error', dict(c.replay, line=c.line[:2000]))
            elif ans == 'ERR type' and res[0] == 'ok':
                ctx.disagree('model reports a shape-incompatible operation that the code accepts (%s)' % c.tag,
                             dict(c.replay, model=ans, impl='ok'))
            elif ans == 'ERR shape' and res[0] == 'ok':
                ctx.count('malformed-accepted-by-numpy')     # numpy broadcast a wrong block; outside the property
            ctx.case(c.line, nontrivial=False)
            continue
        if res[0] == 'raise':
            ctx.disagree('code raises %s where the model computes a result (%s)' % (res[1], c.tag),
                         dict(c.replay, model=ans[:300], impl='raise ' + res[1]))
            ctx.case(c.line, nontrivial=False)
            continue
        body = ans.split(' ', 1)[1] if ' ' in ans else ''
        why = None
        if c.tag == 'evald':
            model = {}
            if body != '-':
                for e in body.split(';'):
                    n, l, t = e.split(':', 2)
                    model[(int(n), int(l))] = parse_ten(t)
            impl = res[1]
            if set(model) != set((int(k[0]), int(k[1])) for k in impl):
                why = 'different keys'
            else:
                for k, v in impl.items():
                    m = model[(int(k[0]), int(k[1]))]
                    m = np.zeros(np.shape(v)) if m is None else m
                    if not close(m, v) or float(np.max(np.abs(np.asarray(m) - np.asarray(v)), initial=0.0)) > TOL * max(1.0, float(np.max(np.abs(m), initial=0.0))):
                        why = 'value differs at %s' % (k,)
                nontriv = any(np.any(np.asarray(v) != 0) for v in impl.values())
        elif c.multi:
            parts = body.split(' ')
            impl = res[1]
            if len(parts) != len(impl): why = 'different number of expansions'
            else:
                for ps, cn in zip(parts, impl):
                    why = why or coeffs_close(parse_coeffs(ps), list(cn))
                nontriv = any(np.any(x[2] != 0) for cn in impl for x in cn)
        else:
            why = coeffs_close(parse_coeffs(body), res[1])
            nontriv = any(np.any(np.asarray(x[2]) != 0) for x in res[1])
        if why:
            ctx.disagree('model/implementation differ on %s (%s): %s' % (c.tag, mode, why),
                         dict(c.replay, line=c.line[:3000], model=ans[:1500], impl=ser_coeffs(res[1])[:1500] if not (c.multi or c.tag == 'evald') else str(res[1])[:1500]),
                         sig=c.sig)
        ctx.case(c.line, nontrivial=nontriv, sample=dict(op=c.tag, request=c.line[:160]))


def _classes():
    from onsager import PowerExpansion as PE
    PE.Taylor3D(); PE.Taylor2D()
    return [(PE.Taylor3D, 3), (PE.Taylor2D, 2)]


def run(ctx, scale=1.0):
    n3, n2 = (600, 400) if ctx.quick else (9000, 6000)
    n3, n2 = int(n3 * scale), int(n2 * scale)
    classes = _classes()
    done = [0, 0]
    chunk = 1000 if ctx.quick else 2500          # one driver start per chunk (both dimensions in one batch)
    while done[0] < n3 or done[1] < n2:
        batch = []
        for i, ((cls, dim), cnt) in enumerate(zip(classes, (n3, n2))):
            k = min(chunk * cnt // (n3 + n2) + 1, cnt - done[i])
            if k > 0:
                batch += [(cls, c) for c in gen_cases(ctx, cls, dim, k)]
                done[i] += k
        answers = ctx.lean(DRIVER, [c.line for _, c in batch])
        for cls in (classes[0][0], classes[1][0]):
            idx = [j for j, (k, _) in enumerate(batch) if k is cls]
            check_answers(ctx, cls, [batch[j][1] for j in idx], [answers[j] for j in idx])
        if ctx.budget_left() < 25 and sum(done) >= 400: break
    ctx.count('cases:3D', done[0]); ctx.count('cases:2D', done[1])


def search(ctx, reasons):
    """Failing-input search after a broken obligation / disagreement: more cases; the direct oracles inside
    gen_cases report a concrete input when the implementation itself breaks the property."""
    run(ctx, scale=1.5)


if __name__ == '__main__':
    repo = os.environ.get('ONSAGER_REPO', '/repo')
    for k, v in extract(repo).items():
        sys.stdout.write(v)
