"""
C35 — the compiled sampler (MonteCarloSampler_jit built through MonteCarloSampler_param) behaves exactly like the
reference sampler (onsager/cluster.py:732-983).

Three-way correspondence on exported tables of real samplers: reference class, compiled class, and the two Lean
models (Drive/C35.lean runs OnsagerModel/C33 for the reference lines and OnsagerModel/C35 for the `j…` lines).
Histories of {start, param, trial, update, transitions, MCmoves batches, copy}: bounded-exhaustive on tiny
supercells (every occupation x every admissible single move), random on larger ones, with / without vacancy and
jump network.  Direct oracles on the two implementations (the property statement): same E, deltaE_trial,
transitions (forbidden = inf) and state after every op; a batch of MCmoves == the Metropolis rule applied move
by move; copy() is independent.  numba compiles the class once per process.
"""
import copy
from fractions import Fraction
import numpy as np
from props import mc_common as mc
from props import c33

META = dict(
    id='C35',
    level_text='Kernel-checked refinement of the array-based compiled sampler to the reference sampler model (C33) for '
               'arbitrary tables, sizes and histories: the index/prefix-array invariant is established by start() and '
               'MonteCarloSampler_param and preserved by the swap bookkeeping of update(); the abstraction commutes with '
               'update; E() and deltaE_trial() agree (the early break at n >= Nenergy is sound for ascending rows, with a '
               'counterexample for unsorted rows); reference transitions = finite entries of the compiled ones; MCmoves = '
               'left fold of the single-move Metropolis rule and every batch refines the reference sampler driven move by '
               'move; by induction any history of start/update/MCmoves within the documented preconditions keeps the '
               'compiled sampler a faithful representation of the reference one (history_refines). Both implementations and both models are run on the same histories over tables of real samplers.',
    level_note='Trusted: Lean kernel + standard axioms; table export / text protocol; numba is trusted to compile the Python '
               'text of the jitclass with Python semantics on int64/float64 (no overflow: counts <= number of sites). '
               'Modelled not verified: numpy slice assignments in MonteCarloSampler_param, float accumulation (exact here: '
               'integer interaction values). Ascending rows / jumps-from-vacancy are hypotheses of the theorems that are '
               'checked on every exported table (their proof from the evaluators belongs to C32/C34). copy() is identity '
               'in the functional model; its independence is checked on the implementation only.',
    technique='Lean 4 refinement proof (abstraction function, loop invariants) + three-way differential histories + direct oracles',
    lean_modules=['OnsagerModel.C33', 'OnsagerModel.C35', 'OnsagerProofs.C33', 'OnsagerProofs.C35'],
    theorems=['Onsager.C35.E_eq', 'Onsager.C35.deltaE_eq', 'Onsager.C35.count_takeWhile_of_sorted',
              'Onsager.C35.break_unsound_unsorted', 'Onsager.C35.jupdate_inv', 'Onsager.C35.scanLoop_inv',
              'Onsager.C35.param_refines', 'Onsager.C35.jstart_refines', 'Onsager.C35.update_refines',
              'Onsager.C35.transitions_eq', 'Onsager.C35.MCmoves_eq_fold', 'Onsager.C35.mcStep_refines',
              'Onsager.C35.MCmoves_refines', 'Onsager.C35.history_refines', 'Onsager.C35.history_observables'],
    tie_theorems=[],
    rule='a case = one history on one real sampler pair (reference + compiled): exhaustive cases are (occupation, '
         'admissible move) pairs on tiny supercells through both construction paths (param of a started sampler / '
         'start on the compiled object); random cases are histories of start/param/trial/update/transitions/MCmoves '
         'batches (1-40 moves, thresholds incl. exact ties)/copy; non-trivial = the occupation changes at least once; '
         'distinct by (sampler, op text)',
    trusted=['export of the sampler tables (harness/props/mc_common.py)', 'numba jitclass compilation'],
    assumptions=['occsite is unoccupied / unoccsite is occupied and all indices are in range (the compiled class does no '
                 'checking; its docstring leaves other inputs unspecified)',
                 'start() of the compiled class is given an occupation of the supercell length with the vacancy marked -1'],
)

DRIVER = 'Drive/C35.lean'
INF = float('inf')


def _rat(x):
    f = Fraction(float(x))
    return '%d' % f.numerator if f.denominator == 1 else '%d/%d' % (f.numerator, f.denominator)


class Pair:
    """reference sampler + compiled sampler on the same tables"""

    def __init__(self, b):
        from onsager import cluster
        self.b = b
        self.MC = mc.clone(b.pristine)
        self.J = None
        self.cluster = cluster
        self.domain = True
        self.changed = False

    def to_int(self, x):     # used by c33.Impl.trans
        return mc.as_int(x)

    def make_jit(self):
        self.J = self.cluster.MonteCarloSampler_jit(**self.cluster.MonteCarloSampler_param(self.MC))

    def jobs(self, J=None):
        J = J or self.J
        s, w = mc.checksum(J.clustercount)
        return '%s %d %d %s %s %s %d %d' % (mc.as_int(J.E()), J.Nocc, J.Nunocc, mc.show_l(J.occupied_set[:J.Nocc]),
                                            mc.show_l(J.unoccupied_set[:J.Nunocc]), mc.show_l(J.index), s, w)


STATE = dict(jit_transitions_broken=None)


def _viol(ctx, p, sig, what, hist, **extra):
    ctx.violation(sig, what, dict(sampler=p.b.name, build=p.b.build, history=list(hist)[-60:], history_length=len(hist), **extra))


def oracle_state(ctx, p, hist, J=None):
    """compiled state == reference state (occ, clustercount, E, sets, index)"""
    MC, J = p.MC, (J or p.J)
    occ = [int(x) for x in MC.occ]
    if [int(x) for x in J.occ] != occ:
        _viol(ctx, p, 'state-differs:occ', 'compiled occ differs from the reference occ', hist,
              reference=occ, compiled=[int(x) for x in J.occ]); return False
    if not np.array_equal(np.asarray(J.clustercount), np.asarray(MC.clustercount)):
        bad = [int(m) for m in np.flatnonzero(np.asarray(J.clustercount) != np.asarray(MC.clustercount))[:5]]
        _viol(ctx, p, 'state-differs:clustercount', 'compiled clustercount differs from the reference', hist, interactions=bad,
              reference=[int(MC.clustercount[m]) for m in bad], compiled=[int(J.clustercount[m]) for m in bad]); return False
    if float(J.E()) != float(MC.E()):
        _viol(ctx, p, 'E-differs', 'compiled E() differs from the reference E()', hist, reference=float(MC.E()), compiled=float(J.E()))
        return False
    so, su = [int(x) for x in J.occupied_set[:J.Nocc]], [int(x) for x in J.unoccupied_set[:J.Nunocc]]
    if sorted(so) != sorted(int(i) for i in MC.occupied_set) or sorted(su) != sorted(int(i) for i in MC.unoccupied_set) \
            or len(set(so)) != len(so) or len(set(su)) != len(su):
        _viol(ctx, p, 'state-differs:sets', 'compiled occupied/unoccupied prefixes differ from the reference sets', hist,
              occupied=so, unoccupied=su, reference_occupied=sorted(int(i) for i in MC.occupied_set),
              reference_unoccupied=sorted(int(i) for i in MC.unoccupied_set)); return False
    idx = [int(x) for x in J.index]
    ok = all(idx[i] == k for k, i in enumerate(so)) and all(idx[i] == k for k, i in enumerate(su)) and \
        all(idx[i] == -1 for i, o in enumerate(occ) if o not in (0, 1))
    if not ok:
        _viol(ctx, p, 'state-differs:index', 'index is not the inverse of the two prefix arrays', hist,
              index=idx, occupied=so, unoccupied=su); return False
    return True


def oracle_transitions(ctx, p, hist):
    """reference transitions == finite entries of the compiled ones (same order, barriers, dx); forbidden = inf"""
    MC, J, b = p.MC, p.J, p.b
    rij, rQ, rdx = MC.transitions()
    if STATE['jit_transitions_broken']:
        ctx.count('skipped:jit-transitions(raises)')
        return None
    try:
        jij, jQ, jdx = J.transitions()
    except Exception as e:
        STATE['jit_transitions_broken'] = type(e).__name__
        _viol(ctx, p, 'jit-raises:transitions:' + type(e).__name__,
              'MonteCarloSampler_jit.transitions() raises: ' + str(e).split('\n')[0][:200], hist + [['trans']])
        return None
    STATE['jit_transitions_broken'] = False
    jij, jQ, jdx = np.array(jij), np.array(jQ), np.array(jdx)
    if len(jQ) != len(b.jumps) or [(int(i), int(j)) for i, j in jij] != b.jumps or \
            any(not np.array_equal(jdx[n], b.dx[n]) for n in range(len(b.jumps))):
        _viol(ctx, p, 'transitions-differ:table', 'compiled transitions() does not list the jump table', hist + [['trans']])
        return None
    fin = [n for n in range(len(jQ)) if jQ[n] != INF]
    if any(not np.isfinite(jQ[n]) for n in fin):
        _viol(ctx, p, 'transitions-differ:nonfinite', 'compiled barrier is nan/-inf', hist + [['trans']]); return None
    ok = len(fin) == len(rij) and all((int(jij[n][0]), int(jij[n][1])) == (int(rij[k][0]), int(rij[k][1])) and
                                      float(jQ[n]) == float(rQ[k]) and np.array_equal(jdx[n], rdx[k])
                                      for k, n in enumerate(fin))
    if not ok:
        _viol(ctx, p, 'transitions-differ', 'finite compiled transitions differ from the reference transitions', hist + [['trans']],
              reference=[[int(i), int(j), float(q)] for (i, j), q in zip(rij, rQ)][:12],
              compiled=[[int(jij[n][0]), int(jij[n][1]), float(jQ[n])] for n in fin][:12], occ=[int(x) for x in MC.occ])
        return None
    return 'ok ' + ('-' if len(jQ) == 0 else ';'.join('%d:%d:%s' % (int(jij[n][0]), int(jij[n][1]),
                                                                     'inf' if jQ[n] == INF else mc.as_int(jQ[n]))
                                                       for n in range(len(jQ))))


# ------------------------------------------------------------------ ops
def op_start(ctx, rec, p, hist, occ, how):
    """start the reference on occ; bring the compiled sampler there through param (how='param') or start (how='jstart')"""
    b = p.b
    st = 'ok'
    try:
        p.MC.start(np.array(occ, dtype=int))
    except Exception as e:
        st = 'err:' + mc.err_name(e)
    hist.append(['start', list(occ), how])
    rec.add('start ' + mc.show_l(occ), st, b, hist)
    if st != 'ok':
        _viol(ctx, p, 'raises:start:' + st, 'reference start() rejects a valid occupation', hist); return False
    if how == 'param' or p.J is None:
        p.make_jit()
        rec.add('jparam', p.jobs(), b, hist)
        ctx.count('op:param')
    else:
        p.J.start(np.array(occ, dtype=int))
        rec.add('jstart ' + mc.show_l(occ), p.jobs(), b, hist)
        ctx.count('op:jstart')
    return oracle_state(ctx, p, hist)


def op_move(ctx, rec, p, hist, a, bsite):
    """trial + update of `occupy a, unoccupy bsite` on both samplers"""
    b = p.b
    d_ref = p.MC.deltaE_trial((a,), (bsite,))
    d_jit = p.J.deltaE_trial(a, bsite)
    rec.add('de %d %d' % (a, bsite), 'ok %s' % mc.as_int(d_ref), b, hist, tail=['trial', a, bsite])
    rec.add('jde %d %d' % (a, bsite), '%s' % mc.as_int(d_jit), b, hist, tail=['trial', a, bsite])
    if float(d_ref) != float(d_jit):
        _viol(ctx, p, 'deltaE-differs', 'compiled deltaE_trial differs from the reference', hist + [['trial', a, bsite]],
              occ=[int(x) for x in p.MC.occ], reference=float(d_ref), compiled=float(d_jit))
        return False
    p.MC.update((a,), (bsite,))
    p.J.update(a, bsite)
    hist.append(['update', a, bsite])
    rec.add('upd %d %d' % (a, bsite), 'ok', b, hist)
    rec.add('jupd %d %d' % (a, bsite), p.jobs(), b, hist)
    p.changed = True
    ctx.count('op:move')
    return oracle_state(ctx, p, hist)


def op_trans(ctx, rec, p, hist):
    b = p.b
    if b.jumps is None:
        # the compiled class returns empty arrays where the reference raises ValueError: nothing to compare
        return True
    t, dx = c33.Impl.trans(p)
    rec.add('trans', t, b, hist, tail=['trans'], kind='trans', extra=(dx, 0))
    jt = oracle_transitions(ctx, p, hist)
    if jt is not None:
        rec.add('jtrans', jt[3:], b, hist, tail=['trans'])
    ctx.count('op:trans')
    return True


def _thresholds(rng, n, dEs_hint):
    out = []
    for k in range(n):
        c = rng.random()
        if c < 0.25: out.append(float(rng.randint(-12, 12)))           # integers: exact ties with dE happen
        elif c < 0.5: out.append(rng.randint(-24, 24) / 2.0)
        elif c < 0.65: out.append(1e9)
        elif c < 0.75: out.append(-1e9)
        elif c < 0.85 and dEs_hint: out.append(float(rng.choice(dEs_hint)))  # tie with an energy change that occurs
        else: out.append(float(np.float64(-1.7 * np.log(max(rng.random(), 1e-12)))))
    return out


def op_mc(ctx, rec, p, hist, rng, nmoves, given=None):
    """a batch of MCmoves on the compiled sampler == the Metropolis rule applied move by move (compiled copy and reference)"""
    b, J, MC = p.b, p.J, p.MC
    if J.Nocc == 0 or J.Nunocc == 0: return True
    if given:
        oc, uc, kt = given
    else:
        oc = [rng.randrange(J.Nunocc) for _ in range(nmoves)]
        uc = [rng.randrange(J.Nocc) for _ in range(nmoves)]
        hint = []
        for _ in range(3):
            a = int(J.unoccupied_set[rng.randrange(J.Nunocc)]); c = int(J.occupied_set[rng.randrange(J.Nocc)])
            hint.append(float(J.deltaE_trial(a, c)))
        kt = _thresholds(rng, nmoves, hint)
    J2 = J.copy()
    before = dict(occ=[int(x) for x in J.occ], occupied_set=[int(x) for x in J.occupied_set[:J.Nocc]],
                  unoccupied_set=[int(x) for x in J.unoccupied_set[:J.Nunocc]])
    J.MCmoves(np.array(oc, dtype=int), np.array(uc, dtype=int), np.array(kt, dtype=float))
    hist.append(['MCmoves', oc, uc, [_rat(k) for k in kt]])
    rec.add('jmc %s %s %s' % (mc.show_l(oc), mc.show_l(uc), ','.join(_rat(k) for k in kt)), p.jobs(), b, hist)
    ctx.count('op:mc'); ctx.count('mc-moves', nmoves)
    # move by move: compiled copy and the reference
    nacc = 0
    for n in range(nmoves):
        a, c = int(J2.unoccupied_set[oc[n]]), int(J2.occupied_set[uc[n]])
        dE = J2.deltaE_trial(a, c)
        dR = MC.deltaE_trial((a,), (c,))
        if float(dE) != float(dR):
            _viol(ctx, p, 'deltaE-differs', 'compiled deltaE_trial differs from the reference (inside a move-by-move replay)', hist,
                  move=n, occsite=a, unoccsite=c, reference=float(dR), compiled=float(dE)); return False
        if dE < kt[n]:
            J2.update(a, c); MC.update((a,), (c,)); nacc += 1
            rec.add('upd %d %d' % (a, c), 'ok', b, hist, tail=['reference move', n])
    ctx.count('mc-accepted', nacc)
    p.changed |= nacc > 0
    if [int(x) for x in J.occ] != [int(x) for x in J2.occ] or not np.array_equal(J.clustercount, J2.clustercount) or \
            J.Nocc != J2.Nocc or J.Nunocc != J2.Nunocc or \
            not np.array_equal(J.occupied_set[:J.Nocc], J2.occupied_set[:J2.Nocc]) or \
            not np.array_equal(J.unoccupied_set[:J.Nunocc], J2.unoccupied_set[:J2.Nunocc]) or \
            not np.array_equal(J.index, J2.index):
        _viol(ctx, p, 'batch-differs', 'MCmoves batch differs from applying the Metropolis rule move by move', hist,
              before=before, batch_occ=[int(x) for x in J.occ], stepwise_occ=[int(x) for x in J2.occ])
        return False
    return oracle_state(ctx, p, hist)


def op_copy(ctx, rec, p, hist, rng):
    """copy() gives an independent sampler with the same state"""
    J = p.J
    C = J.copy()
    same = p.jobs(C) == p.jobs(J) and [int(x) for x in C.occ] == [int(x) for x in J.occ]
    if not same:
        _viol(ctx, p, 'copy-differs', 'copy() does not reproduce the state', hist + [['copy']]); return False
    if J.Nocc and J.Nunocc:
        snap = p.jobs(C), [int(x) for x in C.occ]
        a, c = int(J.unoccupied_set[rng.randrange(J.Nunocc)]), int(J.occupied_set[rng.randrange(J.Nocc)])
        J.update(a, c)
        if (p.jobs(C), [int(x) for x in C.occ]) != snap:
            _viol(ctx, p, 'copy-aliases', 'updating a sampler changes its earlier copy()', hist + [['copy'], ['update', a, c]])
            return False
        J.update(c, a)   # undo on the original (a is now occupied, c unoccupied)
        hist.append(['copy+update+undo', a, c])
        rec.add('jupd %d %d' % (a, c), None, p.b, hist)
        rec.add('jupd %d %d' % (c, a), p.jobs(), p.b, hist)
        if rng.random() < 0.5:
            p.J = C       # continue with the copy: it is in the state the original was restored to
    ctx.count('op:copy')
    return True


class Rec(c33.Recorder):
    """Recorder that accepts `None` as 'do not compare this answer'"""

    def compare(self):
        ctx = self.ctx
        got = ctx.lean(self.driver, self.lines)
        keep = [k for k, e in enumerate(self.expect) if e is not None]
        self.lines = [self.lines[k] for k in keep]; self.meta = [self.meta[k] for k in keep]
        self.expect = [self.expect[k] for k in keep]
        got = [got[k] for k in keep]
        ctx.lean = lambda driver, lines, _g=got: _g
        try:
            return c33.Recorder.compare(self)
        finally:
            del ctx.lean


def op_param_unstarted(ctx, rec, p, hist):
    """MonteCarloSampler_param of a never-started sampler = the all-occupied configuration"""
    b = p.b
    p.make_jit()
    rec.add('jparam', p.jobs(), b, hist, tail=['param of an unstarted sampler'])
    q = Pair(b)
    occ = [1] * b.nsites
    if b.vacancy >= 0: occ[b.vacancy] = -1
    q.MC.start(np.array(occ, dtype=int))
    q.J = p.J
    oracle_state(ctx, q, hist + [['param of an unstarted sampler; reference started on', occ]])
    ctx.count('op:param-unstarted')


def _new_pair(ctx, rec, b):
    p = Pair(b)
    rec.add(b.table_line, 'ok', b, [])
    for pr in b.problems:
        ctx.disagree('table of %s violates a structural assumption of the model: %s' % (b.name, pr),
                     dict(sampler=b.name, build=b.build, problem=pr))
    if not b.rows_ascending:
        ctx.disagree('table of %s has a non-ascending siteinteract row (hypothesis RowsSorted of deltaE_eq)' % b.name,
                     dict(sampler=b.name, build=b.build))
    return p


def _occs(b):
    free = [i for i in range(b.nsites) if i != b.vacancy]
    for bits in range(2 ** len(free)):
        occ = [0] * b.nsites
        for k, i in enumerate(free): occ[i] = (bits >> k) & 1
        if b.vacancy >= 0: occ[b.vacancy] = -1
        yield occ


def exhaustive(ctx, rec, b, rng, depth2):
    p = _new_pair(ctx, rec, b)
    hist = []
    # the compiled sampler of a never-started reference sampler (all sites occupied)
    op_param_unstarted(ctx, rec, p, hist)
    ncase = 0
    for occ in _occs(b):
        un = [i for i, o in enumerate(occ) if o == 0]
        oc = [i for i, o in enumerate(occ) if o == 1]
        if not op_start(ctx, rec, p, hist, occ, 'param'): return
        op_trans(ctx, rec, p, hist)
        for a in un:
            for c in oc:
                if not op_start(ctx, rec, p, hist, occ, 'jstart' if (a + c) % 2 else 'param'): return
                if not op_move(ctx, rec, p, hist, a, c): return
                op_trans(ctx, rec, p, hist)
                ncase += 1
                ctx.case((b.name, tuple(occ), a, c), nontrivial=True,
                         sample=dict(sampler=b.name, occ=occ, move=[a, c]) if ncase == 5 else None)
                if depth2:
                    # every second move from there
                    occ2 = [int(x) for x in p.MC.occ]
                    for a2 in [i for i, o in enumerate(occ2) if o == 0]:
                        for c2 in [i for i, o in enumerate(occ2) if o == 1]:
                            if not op_move(ctx, rec, p, hist, a2, c2): return
                            if not op_move(ctx, rec, p, hist, c2, a2): return   # and back
                            ncase += 1
                            ctx.case((b.name, tuple(occ), a, c, a2, c2), nontrivial=True)
        if len(hist) > 4000: hist = []      # keep replays short: each occupation restarts both samplers anyway
    ctx.count('exhaustive-cases', ncase)


def random_history(ctx, rec, b, rng, length):
    p = _new_pair(ctx, rec, b)
    hist = []
    if rng.random() < 0.5:
        op_param_unstarted(ctx, rec, p, hist)
    ops = []
    started = False
    for t in range(length):
        r = rng.random()
        if not started or r < 0.04:
            occ = c33._rand_occ(rng, b)
            how = 'param' if (p.J is None or rng.random() < 0.5) else 'jstart'
            ops.append(('start', tuple(occ), how))
            if not op_start(ctx, rec, p, hist, occ, how): break
            started = True
        elif r < 0.5:
            J = p.J
            if J.Nocc == 0 or J.Nunocc == 0: started = False; continue
            a, c = int(J.unoccupied_set[rng.randrange(J.Nunocc)]), int(J.occupied_set[rng.randrange(J.Nocc)])
            ops.append(('move', a, c))
            if not op_move(ctx, rec, p, hist, a, c): break
        elif r < 0.65:
            ops.append(('trans',))
            op_trans(ctx, rec, p, hist)
        elif r < 0.9:
            n = rng.choice([1, 2, 3, 5, 8, 13, 40])
            ops.append(('mc', n))
            if not op_mc(ctx, rec, p, hist, rng, n): break
        else:
            ops.append(('copy',))
            if not op_copy(ctx, rec, p, hist, rng): break
    t = mc.tables_changed(p.MC, b)
    if t: _viol(ctx, p, 'tables-mutated:' + t, 'the history changed the reference sampler table ' + t, hist)
    ctx.case((b.name, repr(ops)), nontrivial=p.changed, sample=dict(sampler=b.name, first_ops=[list(o) for o in ops[:6]]))
    ctx.count('random-histories'); ctx.count('random-ops', length)


TINY = [('sc', 'd211', 'jumps'), ('sc', 'd221', 'jumps'), ('sc', 'd221', 'vac'), ('fcc', 'skew2', 'jumps'),
        ('bcc', 'd211', 'vac'), ('b2', 'd211', 'jumps'), ('square', 'd221', 'jumps'), ('triang', 'skew3', 'vac'),
        ('honey', 'd211', 'jumps'), ('hcp', 'd211', 'jumps'), ('dia', 'd111', 'jumps'), ('tric', 'd211', 'vac'),
        ('b2spec', 'd221', 'jumps'), ('sc', 'd311', 'vac'), ('fcc', 'd221', 'plain'), ('sc', 'd221', 'plain'),
        ('sc', 'd321', 'jumps'), ('bcc', 'd221', 'vacplain')]
LARGE = [('fcc', 'd222', 'jumps'), ('sc', 'd333', 'jumps'), ('bcc', 'd322', 'vac'), ('hcp', 'd221', 'jumps'),
         ('b2', 'd222', 'jumps'), ('b2spec', 'd222', 'vac'), ('dia', 'd222', 'vac'), ('square', 'd441', 'jumps'),
         ('triang', 'd331', 'vac'), ('honey', 'd331', 'jumps'), ('tric', 'd221', 'jumps'), ('fcc', 'sk4', 'vac'),
         ('sc', 'sk4', 'jumps'), ('hcp', 'd222', 'plain'), ('bcc', 'd333', 'plain'), ('fcc', 'd222', 'vacplain')]


def run(ctx):
    rng = ctx.rng
    rec = Rec(ctx, DRIVER)
    STATE['jit_transitions_broken'] = None
    # (1) bounded-exhaustive on tiny supercells; the first one always has a jump network (transition queries)
    tiny = list(TINY)
    rng.shuffle(tiny)
    tiny.sort(key=lambda s: s[2] not in ('jumps', 'vac'))
    done, nexh = 0, (3 if ctx.quick else len(tiny))
    for spec in tiny:
        if done >= nexh: break
        b = c33._build(ctx, spec, rng)
        if b is None or b.nsites > 6: continue
        nfree = b.nsites - (1 if b.vacancy >= 0 else 0)
        exhaustive(ctx, rec, b, rng, depth2=(not ctx.quick and nfree <= 5))
        ctx.count('exhaustive-samplers'); done += 1
    # (2) random histories
    large = list(LARGE) + list(TINY)
    rng.shuffle(large)
    nhist = 10 if ctx.quick else 220
    for t in range(nhist):
        if t >= 3 and ctx.budget_left() < (70 if ctx.quick else 500):
            ctx.count('skipped:budget'); break
        b = c33._build(ctx, large[t % len(large)], rng)
        if b is None: continue
        nint = len(b.values)
        length = (50 if nint > 3000 else 130) if ctx.quick else (500 if nint > 3000 else 2000)
        random_history(ctx, rec, b, rng, length)
    if STATE['jit_transitions_broken']:
        ctx.note('MonteCarloSampler_jit.transitions() raises %s: compiled transition queries were skipped after the first '
                 'failure (the reference and the models were still compared)' % STATE['jit_transitions_broken'])
    import time as _t
    t0 = _t.time(); rec.compare(); ctx.note('python part %.1fs, lean driver %.1fs, %d lines' % (t0 - ctx.t0, _t.time() - t0, len(rec.lines)))


def replay(ctx, data):
    """./check C35 quick --replay replays/C35_….json : rebuild both samplers, re-run the history with the oracles"""
    r = data['replay']
    b = mc.rebuild(r['build'])
    p = Pair(b)
    rec, hist = c33._Null(), []
    STATE['jit_transitions_broken'] = None
    if r.get('history_length', 0) > len(r.get('history', [])):
        print('note: the stored history is the tail of a longer one (%d ops); the tail is replayed from its first start' % r['history_length'])
    for op in r.get('history', []):
        k = op[0]
        if k == 'start': op_start(ctx, rec, p, hist, op[1], op[2] if len(op) > 2 else 'param')
        elif k.startswith('param of an unstarted'): op_param_unstarted(ctx, rec, p, hist)
        elif p.J is None or p.MC.occ is None: continue
        elif k == 'update': op_move(ctx, rec, p, hist, op[1], op[2])
        elif k == 'trial':
            print('deltaE_trial(%d,%d): reference %s compiled %s' % (op[1], op[2], p.MC.deltaE_trial((op[1],), (op[2],)), p.J.deltaE_trial(op[1], op[2])))
            if float(p.MC.deltaE_trial((op[1],), (op[2],))) != float(p.J.deltaE_trial(op[1], op[2])):
                _viol(ctx, p, 'deltaE-differs', 'compiled deltaE_trial differs from the reference', hist + [op])
        elif k == 'MCmoves': op_mc(ctx, rec, p, hist, ctx.rng, len(op[1]), given=(op[1], op[2], [float(Fraction(x)) for x in op[3]]))
        elif k == 'trans': op_trans(ctx, rec, p, hist)
        print('%-70s %s' % (str(op)[:70], 'VIOLATION' if ctx.violations else 'ok'))
        if ctx.violations: break
    for v in ctx.violations[:3]:
        print('VIOLATION reproduced: %s — %s\n  %s' % (v['sig'], v['what'], {k: w for k, w in v['replay'].items() if k not in ('build', 'history')}))
    if not ctx.violations: print('no violation on replay')
    return 1 if ctx.violations else 0


def search(ctx, reasons):
    """failing-input search with the direct oracles only"""
    rng = ctx.rng

    rec = c33._Null()
    for spec in TINY + LARGE:
        if ctx.violations or ctx.budget_left() < 10: break
        b = c33._build(ctx, spec, rng)
        if b is None: continue
        p = Pair(b)
        hist, started = [], False
        for t in range(200):
            r = rng.random()
            if not started or r < 0.05:
                if not op_start(ctx, rec, p, hist, c33._rand_occ(rng, b), 'param' if rng.random() < 0.5 else 'jstart'): break
                started = True
            elif r < 0.5:
                J = p.J
                if J.Nocc == 0 or J.Nunocc == 0: started = False; continue
                if not op_move(ctx, rec, p, hist, int(J.unoccupied_set[rng.randrange(J.Nunocc)]),
                               int(J.occupied_set[rng.randrange(J.Nocc)])): break
            elif r < 0.65: op_trans(ctx, rec, p, hist)
            elif r < 0.9:
                if not op_mc(ctx, rec, p, hist, rng, rng.choice([1, 3, 10, 40])): break
            else:
                if not op_copy(ctx, rec, p, hist, rng): break
