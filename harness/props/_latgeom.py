"""
Shared helpers of C21 / C22 / C31: exact (rational-metric) view of an onsager Crystal, crystal
generators (zoo + random Bravais classes with rational metric), exact enumeration utilities.

Nothing here imports /repo at module import time (ONSAGER_REPO is honoured through sys.path set
by vcheck before `run`).
"""
import itertools, math
from fractions import Fraction as Fr
import numpy as np

MAXDEN = 10 ** 6


class SnapFail(Exception):
    pass


def snap(x, scale=1.0, maxden=MAXDEN, tol=1e-10):
    f = Fr(float(x)).limit_denominator(maxden)
    if abs(float(f) - float(x)) > tol * max(1.0, scale):
        raise SnapFail('cannot snap %r' % (x,))
    return f


def rs(f):
    """Fraction -> protocol text"""
    f = Fr(f)
    return str(f.numerator) if f.denominator == 1 else '%d/%d' % (f.numerator, f.denominator)


def rlist(v):
    return ','.join(rs(x) for x in v)


def rmat(m):
    return ';'.join(rlist(r) for r in m)


def fr_inv(m):
    """exact inverse of a square Fraction matrix (Gauss-Jordan)"""
    n = len(m)
    a = [[Fr(x) for x in row] + [Fr(int(i == j)) for j in range(n)] for i, row in enumerate(m)]
    for c in range(n):
        p = next((r for r in range(c, n) if a[r][c] != 0), None)
        if p is None: raise ZeroDivisionError('singular')
        a[c], a[p] = a[p], a[c]
        pv = a[c][c]
        a[c] = [x / pv for x in a[c]]
        for r in range(n):
            if r != c and a[r][c] != 0:
                f = a[r][c]
                a[r] = [x - f * y for x, y in zip(a[r], a[c])]
    return [row[n:] for row in a]


def fr_ldl(g):
    """exact LDL^T: returns (M, D) with g = M^T diag(D) M, M = L^T unit upper triangular"""
    n = len(g)
    L = [[Fr(int(i == j)) for j in range(n)] for i in range(n)]
    D = [Fr(0)] * n
    for j in range(n):
        D[j] = g[j][j] - sum(L[j][k] ** 2 * D[k] for k in range(j))
        if D[j] <= 0: raise SnapFail('metric not positive definite')
        for i in range(j + 1, n):
            L[i][j] = (g[i][j] - sum(L[i][k] * L[j][k] * D[k] for k in range(j))) / D[j]
    return [[L[j][i] for j in range(n)] for i in range(n)], D


def fr_det(m):
    n = len(m)
    if n == 1: return m[0][0]
    if n == 2: return m[0][0] * m[1][1] - m[0][1] * m[1][0]
    return sum((-1) ** j * m[0][j] * fr_det([row[:j] + row[j + 1:] for row in m[1:]]) for j in range(n))


def is_pd(g):
    n = len(g)
    return all(fr_det([row[:k] for row in g[:k]]) > 0 for k in range(1, n + 1))


def qform(g, x, y):
    n = len(g)
    return sum(x[i] * g[i][j] * y[j] for i in range(n) for j in range(n))


def isqrt_floor(q):
    """floor(sqrt(q)) for a Fraction q >= 0"""
    if q <= 0: return 0
    return math.isqrt(q.numerator // q.denominator)


def isqrt_ceil(q):
    if q <= 0: return 0
    f = isqrt_floor(q)
    return f if Fr(f * f) == q else f + 1


def dual_box(h, R2):
    """complete search box for |n + du|^2 < R2, |du_k| <= 1:  ceil(sqrt(R2 h_kk)) + 1"""
    return [isqrt_ceil(Fr(R2) * h[k][k]) + 1 for k in range(len(h))]


class XCrystal:
    """Exact view of an onsager Crystal (lattice coordinates, rational metric)."""

    def __init__(self, crys, name=''):
        self.crys, self.name = crys, name
        d = self.d = crys.dim
        sc = float(np.abs(crys.metric).max())
        self.g = [[snap(crys.metric[i, j], sc, tol=1e-11) for j in range(d)] for i in range(d)]
        for i in range(d):
            for j in range(d):
                if self.g[i][j] != self.g[j][i]: raise SnapFail('metric not symmetric after snapping')
        if not is_pd(self.g): raise SnapFail('metric not PD')
        self.h = fr_inv(self.g)
        self.ldlM, self.ldlD = fr_ldl(self.g)
        self.basis = [[[snap(x, maxden=5040 * 4, tol=1e-9) for x in u] for u in atoms] for atoms in crys.basis]
        self.G = list(crys.G)   # fixed iteration order (same as `for g in crys.G`)
        self.ops = []
        for g in self.G:
            rot = [[int(x) for x in row] for row in g.rot]
            trans = [snap(x, maxden=5040 * 4, tol=1e-9) for x in g.trans]
            self.ops.append((rot, trans, [list(map(int, m)) for m in g.indexmap]))

    # ---- protocol
    def line(self):
        ops = '#'.join('%s@%s@%s' % (';'.join(','.join(str(x) for x in row) for row in rot), rlist(tr),
                                     ';'.join(','.join(str(x) for x in m) for m in im))
                       for rot, tr, im in self.ops)
        basis = '#'.join(';'.join(rlist(u) for u in atoms) for atoms in self.basis)
        return 'crys %d | %s | %s | %s | %s | %s | %s' % (self.d, rmat(self.g), rmat(self.h), rmat(self.ldlM), rlist(self.ldlD), basis, ops)

    # ---- exact geometry
    def u(self, c, i):
        return self.basis[c][i]

    def dx(self, chem, i, j, n):
        return [Fr(n[k]) + self.basis[chem][j][k] - self.basis[chem][i][k] for k in range(self.d)]

    def len2(self, chem, i, j, n):
        v = self.dx(chem, i, j, n)
        return qform(self.g, v, v)

    def to_unit(self, cart):
        """Cartesian vector -> unit-cell coordinates (floats)"""
        return np.dot(self.crys.invlatt, cart)

    def jump_to_lattice(self, chem, i, j, dxcart, tol=1e-7):
        """((i,j),dx) -> integer n with dx = L(n + u_j - u_i); None if dx is not such a vector"""
        w = self.to_unit(dxcart) - np.array(self.crys.basis[chem][j]) + np.array(self.crys.basis[chem][i])
        n = np.round(w)
        if np.abs(w - n).max() > tol: return None
        return tuple(int(x) for x in n)

    def g_site(self, opi, c, i, R):
        rot, trans, im = self.ops[opi]
        d = self.d
        i2 = im[c][i]
        u, u2 = self.basis[c][i], self.basis[c][i2]
        delu = [sum(rot[k][l] * u[l] for l in range(d)) + trans[k] - u2[k] for k in range(d)]
        assert all(x.denominator == 1 for x in delu), 'operation is not an exact symmetry'
        return c, i2, tuple(sum(rot[k][l] * R[l] for l in range(d)) + int(delu[k]) for k in range(d))

    def g_jump(self, opi, chem, J):
        i, j, n = J
        _, i2, R1 = self.g_site(opi, chem, i, (0,) * self.d)
        _, j2, R2 = self.g_site(opi, chem, j, n)
        return (i2, j2, tuple(a - b for a, b in zip(R2, R1)))

    def ops_exact(self):
        """every op preserves the metric and maps atoms onto atoms exactly"""
        d = self.d
        for rot, trans, im in self.ops:
            for a in range(d):
                for b in range(d):
                    if sum(rot[k][a] * self.g[k][l] * rot[l][b] for k in range(d) for l in range(d)) != self.g[a][b]:
                        return False
            for c, atoms in enumerate(self.basis):
                for i, u in enumerate(atoms):
                    u2 = atoms[im[c][i]]
                    for k in range(d):
                        if (sum(rot[k][l] * u[l] for l in range(d)) + trans[k] - u2[k]).denominator != 1:
                            return False
        return True

    def box_vectors(self, box):
        return itertools.product(*[range(-b, b + 1) for b in box])

    def all_jumps(self, chem, r2):
        """complete exact enumeration of (i,j,n) with 0 < |dx|^2 < r2 (dual box)"""
        box = dual_box(self.h, r2)
        N = len(self.basis[chem])
        out = {}
        for i in range(N):
            for j in range(N):
                for n in self.box_vectors(box):
                    l2 = self.len2(chem, i, j, n)
                    if 0 < l2 < r2: out[(i, j, tuple(n))] = l2
        return out

    def shells(self, chem, rmax2):
        """sorted distinct |dx|^2 values below rmax2"""
        return sorted(set(self.all_jumps(chem, rmax2).values()))


# ---------------------------------------------------------------- generators
def chol_lattice(g):
    """float lattice (columns = lattice vectors) with metric g"""
    gm = np.array([[float(x) for x in row] for row in g])
    return np.linalg.cholesky(gm).T.copy()


def rand_unimodular(rng, d, steps=4, amp=2):
    m = [[int(i == j) for j in range(d)] for i in range(d)]
    for _ in range(steps):
        i, j = rng.sample(range(d), 2)
        k = rng.choice([x for x in range(-amp, amp + 1) if x != 0])
        for r in range(d): m[r][j] += k * m[r][i]     # column op: a_j += k a_i
    return m


def transform_metric(g, m):
    d = len(g)
    return [[sum(Fr(m[k][a]) * g[k][l] * m[l][b] for k in range(d) for l in range(d)) for b in range(d)] for a in range(d)]


A2 = [Fr(1), Fr(1), Fr(1), Fr(9, 4), Fr(4), Fr(25, 4), Fr(9), Fr(100), Fr(1, 4), Fr(49, 16)]


def rand_metric(rng, kind):
    """rational metric of the named Bravais family; returns (g, description)"""
    a2 = rng.choice(A2)
    def pick(lst): return rng.choice(lst)
    if kind == 'cubic':
        g = [[a2, 0, 0], [0, a2, 0], [0, 0, a2]]
    elif kind == 'fcc':
        g = [[a2 / 2 if i == j else a2 / 4 for j in range(3)] for i in range(3)]
    elif kind == 'bcc':
        g = [[a2 * 3 / 4 if i == j else -a2 / 4 for j in range(3)] for i in range(3)]
    elif kind == 'tetragonal':
        c2 = a2 * pick([Fr(1, 4), Fr(4, 9), Fr(16, 9), Fr(4), Fr(25, 9)])
        g = [[a2, 0, 0], [0, a2, 0], [0, 0, c2]]
    elif kind == 'orthorhombic':
        b2 = a2 * pick([Fr(4, 9), Fr(9, 4), Fr(16, 9), Fr(25, 16)]); c2 = a2 * pick([Fr(1, 4), Fr(4), Fr(49, 25), Fr(36, 25)])
        g = [[a2, 0, 0], [0, b2, 0], [0, 0, c2]]
    elif kind == 'hexagonal':
        c2 = a2 * pick([Fr(8, 3), Fr(1), Fr(25, 9), Fr(9, 4), Fr(1, 4), Fr(2)])
        g = [[a2, -a2 / 2, 0], [-a2 / 2, a2, 0], [0, 0, c2]]
    elif kind == 'rhomb-obtuse':
        c = pick([Fr(-485, 1000), Fr(-12, 25), Fr(-49, 100), Fr(-2, 5), Fr(-9, 20), Fr(-1, 3), Fr(-4924, 10000), Fr(-47, 100)])
        g = [[a2 if i == j else a2 * c for j in range(3)] for i in range(3)]
    elif kind == 'rhomb-acute':
        c = pick([Fr(866, 1000), Fr(9, 10), Fr(7, 8), Fr(4, 5), Fr(19, 20), Fr(1, 2) + Fr(1, 10), Fr(97, 100), Fr(1, 4)])
        g = [[a2 if i == j else a2 * c for j in range(3)] for i in range(3)]
    elif kind == 'monoclinic':
        a, b, c = (pick([Fr(1), Fr(3, 2), Fr(2), Fr(5, 4), Fr(1, 2)]) for _ in range(3))
        cb = pick([Fr(-1, 3), Fr(-2, 5), Fr(-3, 5), Fr(1, 4), Fr(-7, 10), Fr(-9, 10)])
        g = [[a * a * a2, 0, a * c * cb * a2], [0, b * b * a2, 0], [a * c * cb * a2, 0, c * c * a2]]
    elif kind == 'triclinic':
        for _ in range(200):
            a, b, c = (pick([Fr(1), Fr(3, 2), Fr(2), Fr(5, 4), Fr(3, 4)]) for _ in range(3))
            c1, c2_, c3 = (pick([Fr(-1, 3), Fr(-2, 5), Fr(1, 5), Fr(1, 4), Fr(-3, 5), Fr(2, 5), Fr(-7, 10), Fr(3, 5)]) for _ in range(3))
            g = [[a * a, a * b * c3, a * c * c2_], [a * b * c3, b * b, b * c * c1], [a * c * c2_, b * c * c1, c * c]]
            g = [[x * a2 for x in row] for row in g]
            if is_pd(g): break
        else:
            g = [[a2, 0, 0], [0, a2, 0], [0, 0, a2]]
    elif kind == 'needle':
        c2 = a2 * pick([Fr(36), Fr(100), Fr(1, 25), Fr(1, 64)])
        g = [[a2, 0, 0], [0, a2, 0], [0, 0, c2]]
    elif kind == 'square':
        g = [[a2, 0], [0, a2]]
    elif kind == 'rect':
        g = [[a2, 0], [0, a2 * pick([Fr(4, 9), Fr(9, 4), Fr(4), Fr(1, 9)])]]
    elif kind == 'tri2d':
        g = [[a2, -a2 / 2], [-a2 / 2, a2]]
    elif kind == 'oblique':
        a, b = pick([Fr(1), Fr(3, 2), Fr(2)]), pick([Fr(1), Fr(5, 4), Fr(1, 2)])
        c = pick([Fr(-1, 3), Fr(2, 5), Fr(-7, 10), Fr(-9, 10), Fr(4, 5)])
        g = [[a * a * a2, a * b * c * a2], [a * b * c * a2, b * b * a2]]
    else:
        raise ValueError(kind)
    g = [[Fr(x) for x in row] for row in g]
    assert is_pd(g), (kind, g)
    return g


KINDS3 = ['cubic', 'fcc', 'bcc', 'tetragonal', 'orthorhombic', 'hexagonal', 'rhomb-obtuse', 'rhomb-acute',
          'monoclinic', 'triclinic', 'needle']
KINDS2 = ['square', 'rect', 'tri2d', 'oblique']

DENS = [2, 3, 4, 6, 8]


def rand_basis(rng, d, nchem, maxatoms):
    """generic rational positions plus some special ones"""
    special = [Fr(0), Fr(1, 2), Fr(1, 3), Fr(2, 3), Fr(1, 4), Fr(3, 4)]
    basis, used = [], set()
    for c in range(nchem):
        n = rng.randint(1, maxatoms)
        atoms = []
        for _ in range(n):
            for _try in range(50):
                if rng.random() < 0.6:
                    u = tuple(rng.choice(special) for _ in range(d))
                else:
                    den = rng.choice(DENS + [5, 12])
                    u = tuple(Fr(rng.randrange(den), den) for _ in range(d))
                if u not in used:
                    used.add(u); atoms.append(u); break
        if atoms: basis.append(atoms)
    return basis


def make_crystal(g, basis, noreduce=False, lattice=None):
    """onsager Crystal from an exact metric and rational basis"""
    from onsager import crystal
    L = chol_lattice(g) if lattice is None else lattice
    b = [[np.array([float(x) for x in u]) for u in atoms] for atoms in basis]
    crys = crystal.Crystal(L, b, noreduce=noreduce)
    crys._verif_args = dict(lattice=L.tolist(), basis=[[list(map(float, u)) for u in a] for a in b], noreduce=noreduce,
                            how='onsager.crystal.Crystal(np.array(lattice), [[np.array(u) for u in atoms] for atoms in basis], noreduce=noreduce)')
    return crys


def zoo():
    """named crystals: list of (name, thunk)"""
    from onsager import crystal
    def hcp_oct():
        h = crystal.Crystal.HCP(1.0, chemistry='Ti')
        return h.addbasis(h.Wyckoffpos(np.array([0., 0., 0.5])), chemistry=['O'])
    def fcc_oct():
        f = crystal.Crystal.FCC(1.0, chemistry='Ni')
        return f.addbasis(f.Wyckoffpos(np.array([.5, .5, .5])), chemistry=['O'])
    def fcc_tet():
        f = crystal.Crystal.FCC(1.0, chemistry='Ni')
        return f.addbasis(f.Wyckoffpos(np.array([.25, .25, .25])), chemistry=['H'])
    def bcc_tet():
        f = crystal.Crystal.BCC(1.0, chemistry='Fe')
        return f.addbasis(f.Wyckoffpos(np.array([.25, .5, .75])), chemistry=['C'])   # lattice coords of the primitive cell
    e3, e2 = np.eye(3), np.eye(2)
    def rhomb(c):
        g = [[Fr(1) if i == j else Fr(c) for j in range(3)] for i in range(3)]
        return lambda: make_crystal(g, [[(Fr(0), Fr(0), Fr(0))]])
    return [
        ('rhombohedral cos(alpha)=-0.485 a=1 (default constructed)', rhomb(Fr(-485, 1000))),
        ('rhombohedral cos(alpha)=0.9 a=1 (default constructed)', rhomb(Fr(9, 10))),
        ('SC', lambda: crystal.Crystal(e3, [np.zeros(3)])),
        ('FCC', lambda: crystal.Crystal.FCC(1.0)),
        ('BCC', lambda: crystal.Crystal.BCC(1.0)),
        ('HCP', lambda: crystal.Crystal.HCP(1.0)),
        ('HCP-c1.5', lambda: crystal.Crystal.HCP(1.0, c_a=1.5)),
        ('B2', lambda: crystal.Crystal(e3, [[np.zeros(3)], [np.array([.5, .5, .5])]])),
        ('L12', lambda: crystal.Crystal(e3, [[np.zeros(3)], [np.array([.5, .5, 0.]), np.array([.5, 0., .5]), np.array([0., .5, .5])]])),
        ('diamond', lambda: crystal.Crystal(np.array([[0., .5, .5], [.5, 0., .5], [.5, .5, 0.]]),
                                            [np.array([0., 0., 0.]), np.array([.25, .25, .25])])),
        ('NaCl', lambda: crystal.Crystal(np.array([[0., .5, .5], [.5, 0., .5], [.5, .5, 0.]]),
                                         [[np.array([0., 0., 0.])], [np.array([.5, .5, .5])]])),
        ('FCC+oct', fcc_oct), ('FCC+tet', fcc_tet), ('HCP+oct', hcp_oct),
        ('FCC-a10', lambda: crystal.Crystal.FCC(10.0)),
        ('SC-a3', lambda: crystal.Crystal(3. * e3, [np.zeros(3)])),
        ('square', lambda: crystal.Crystal(e2, [np.zeros(2)])),
        ('triangular', lambda: crystal.Crystal(np.array([[1., -.5], [0., np.sqrt(.75)]]), [np.zeros(2)])),
        ('honeycomb', lambda: crystal.Crystal(np.array([[1., -.5], [0., np.sqrt(.75)]]),
                                              [np.array([1. / 3, 2. / 3]), np.array([2. / 3, 1. / 3])])),
        ('rect-2sp', lambda: crystal.Crystal(np.array([[1., 0.], [0., 1.5]]), [[np.zeros(2)], [np.array([.5, .5])]])),
        ('polar-chain-2D', lambda: crystal.Crystal(np.array([[1., 0.], [0., 3.]]), [[np.zeros(2)], [np.array([.3, .5])]])),
        ('tetragonal-stack', lambda: crystal.Crystal(np.diag([1., 1., 1.5]), [[np.zeros(3)], [np.array([0., 0., .5])]])),
        ('rect-stack-2D', lambda: crystal.Crystal(np.diag([1., 1.5]), [[np.zeros(2)], [np.array([0., .5])]])),
        ('tetragonal-2sp', lambda: crystal.Crystal(np.diag([1., 1., 1.5]), [[np.zeros(3)], [np.array([.5, .5, .5]), np.array([0., .5, .25])]])),
    ]


def random_crystal(rng, dim=None, kinds=None, maxchem=2, maxatoms=2, skew=None):
    """(name, Crystal) of a random low/high symmetry cell with rational metric; may raise SnapFail later"""
    if dim is None: dim = 3 if rng.random() < 0.75 else 2
    kind = rng.choice(kinds or (KINDS3 if dim == 3 else KINDS2))
    g = rand_metric(rng, kind)
    d = len(g)
    nchem = rng.randint(1, maxchem)
    basis = rand_basis(rng, d, nchem, maxatoms)
    if skew is None: skew = rng.random() < 0.2
    name = kind
    if skew:
        m = rand_unimodular(rng, d, steps=rng.randint(1, 3), amp=2)
        g = transform_metric(g, m)
        name += '-skew(noreduce)'
    crys = make_crystal(g, basis, noreduce=skew)
    return name + ' g=%s basis=%s' % (rmat(g), '#'.join(';'.join(rlist(u) for u in a) for a in basis)), crys


def skewed_redescription(g, basis, m):
    """the same crystal described with the lattice vectors a'_j = sum_i m[i][j] a_i (m integer, det +-1):
    metric m^T g m, positions m^-1 u mod 1 (exact)"""
    d = len(g)
    g2 = transform_metric(g, m)
    minv = fr_inv([[Fr(x) for x in row] for row in m])
    b2 = [[tuple((sum(minv[i][j] * Fr(u[j]) for j in range(d))) % 1 for i in range(d)) for u in atoms] for atoms in basis]
    return g2, b2


def strong_unimodular(rng, d, maxentry=4):
    """unimodular integer matrix with entries up to +-maxentry (product of a few column shears), never the identity"""
    for _ in range(100):
        m = [[int(i == j) for j in range(d)] for i in range(d)]
        for _s in range(rng.randint(2, 3)):
            i, j = rng.sample(range(d), 2)
            k = rng.choice([-4, -3, -2, 2, 3, 4])
            for r in range(d): m[r][j] += k * m[r][i]
        if max(abs(x) for row in m for x in row) <= maxentry and any(m[i][j] for i in range(d) for j in range(d) if i != j):
            return m
    return [[1, 3] + [0] * (d - 2)] + [[int(i == j) for j in range(d)] for i in range(1, d)]


BASE_CELLS = {   # name -> (metric, basis) of well-known cells, exact
    'FCC': ([[Fr(1, 2) if i == j else Fr(1, 4) for j in range(3)] for i in range(3)], [[(Fr(0),) * 3]]),
    'BCC': ([[Fr(3, 4) if i == j else Fr(-1, 4) for j in range(3)] for i in range(3)], [[(Fr(0),) * 3]]),
    'SC': ([[Fr(int(i == j)) for j in range(3)] for i in range(3)], [[(Fr(0),) * 3]]),
    'HCP': ([[Fr(1), Fr(-1, 2), Fr(0)], [Fr(-1, 2), Fr(1), Fr(0)], [Fr(0), Fr(0), Fr(8, 3)]],
            [[(Fr(1, 3), Fr(2, 3), Fr(1, 4)), (Fr(2, 3), Fr(1, 3), Fr(3, 4))]]),
    'triclinic': ([[Fr(1), Fr(1, 5), Fr(-1, 4)], [Fr(1, 5), Fr(9, 4), Fr(3, 10)], [Fr(-1, 4), Fr(3, 10), Fr(25, 16)]], [[(Fr(0),) * 3]]),
    'triangular': ([[Fr(1), Fr(-1, 2)], [Fr(-1, 2), Fr(1)]], [[(Fr(0),) * 2]]),
    'square': ([[Fr(1), Fr(0)], [Fr(0), Fr(1)]], [[(Fr(0),) * 2]]),
}


def skewed_crystal(rng, base=None, m=None, scale=None):
    """(name, Crystal): a well-known cell re-described with strongly skewed lattice vectors, kept as given (noreduce=True)"""
    base = base or rng.choice(sorted(BASE_CELLS))
    g, basis = BASE_CELLS[base]
    d = len(g)
    if scale is None: scale = rng.choice([Fr(1), Fr(1), Fr(9), Fr(49, 4)])
    g = [[x * scale for x in row] for row in g]
    if m is None: m = strong_unimodular(rng, d)
    g2, b2 = skewed_redescription(g, basis, m)
    crys = make_crystal(g2, b2, noreduce=True)
    return '%s a^2=%s re-described by %s (noreduce)' % (base, rs(scale), m), crys


# ---------------------------------------------------------------- compiled Lean drivers
def lean_run(ctx, driver, modules, lines, timeout=1400):
    """Run a Lean driver on request lines.  The models are exponentially slow under `lean --run`
    only in the sense of interpretation overhead (exact rational geometry: millions of Rat ops), so
    the driver is compiled with `leanc` from the C files `lake build` already produced
    (.lake/build/ir/<Module>.c) and cached by content hash; falls back to ctx.lean (interpreter) if
    no C toolchain is available.  Same code, same semantics."""
    import os, subprocess, hashlib, fcntl
    if not lines: return []
    lean_dir = os.path.join(os.path.dirname(os.path.dirname(os.path.dirname(os.path.abspath(__file__)))), 'lean')
    try:
        ir = os.path.join(lean_dir, '.lake', 'build', 'ir')
        cfiles = [os.path.join(ir, m.replace('.', '/') + '.c') for m in modules]
        hsh = hashlib.sha1()
        for f in cfiles + [os.path.join(lean_dir, driver)]:
            hsh.update(open(f, 'rb').read())
        bdir = os.path.join(lean_dir, '.lake', 'build', 'drivers')
        os.makedirs(bdir, exist_ok=True)
        name = os.path.splitext(os.path.basename(driver))[0]
        exe = os.path.join(bdir, '%s-%s' % (name, hsh.hexdigest()[:16]))
        if not os.path.exists(exe):
            with open(os.path.join(bdir, name + '.lock'), 'w') as lk:
                fcntl.flock(lk, fcntl.LOCK_EX)
                if not os.path.exists(exe):
                    dc = os.path.join(bdir, '%s-%d.c' % (name, os.getpid()))
                    p = subprocess.run(['lake', 'env', 'lean', '-c', dc, driver], cwd=lean_dir, capture_output=True, text=True, timeout=600)
                    if p.returncode != 0 or not os.path.exists(dc): raise RuntimeError('lean -c failed: ' + p.stderr[-500:])
                    tmp = exe + '.tmp%d' % os.getpid()
                    p = subprocess.run(['leanc', '-O2', '-o', tmp, dc] + cfiles, cwd=lean_dir, capture_output=True, text=True, timeout=900)
                    os.remove(dc)
                    if p.returncode != 0: raise RuntimeError('leanc failed: ' + p.stderr[-500:])
                    os.replace(tmp, exe)
                    for old in os.listdir(bdir):
                        if old.startswith(name + '-') and os.path.join(bdir, old) != exe and not old.endswith('.lock'):
                            try: os.remove(os.path.join(bdir, old))
                            except OSError: pass
    except Exception as e:
        ctx.note('compiled driver unavailable (%s); using the interpreter' % (str(e)[:200],))
        return ctx.lean(driver, lines, timeout=timeout)
    p = subprocess.run([exe], input='\n'.join(lines) + '\n', capture_output=True, text=True, timeout=timeout)
    if p.returncode != 0:
        raise RuntimeError('compiled lean driver %s failed: %s' % (driver, (p.stderr or p.stdout)[-2000:]))
    out = p.stdout.split('\n')
    if out and out[-1] == '': out.pop()
    if len(out) != len(lines):
        raise RuntimeError('compiled lean driver %s: %d answers for %d requests' % (driver, len(out), len(lines)))
    ctx.traces += len(lines)
    return out
