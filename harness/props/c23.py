"""
C23 — coordinate conversions and symmetry actions are mutually consistent.

Tie: the Lean model (OnsagerModel/C23.lean, theorems in OnsagerProofs/C23.lean) works in lattice
coordinates over the rationals.  For every generated crystal the harness derives the exact data from
the *constructed* Crystal object (basis and translations snapped to small denominators with a checked
residual, metric G = L^T L), sends crystal, operations and positions through Drive/C23.lean and runs
the same calls on the real code; integers are compared exactly, floats at 1e-12 (relative to the size
of the vector).  Direct oracles (round trips, route agreement, composition, inversion) are evaluated
on the implementation's own outputs, independently of the model.
"""
import os, sys, math, itertools
from fractions import Fraction as Fr
import numpy as np

META = dict(
    id='C23',
    level_text='Kernel-checked theorems, for every dimension, crystal, operation and position, about an exact '
               'lattice-coordinate model of pos2cart/unit2cart/cart2unit/cart2pos, g_pos/g_vect/g_cart/g_direc/'
               'g_tensor, GroupOp.__mul__/inv, PairState.g and ClusterSite.g: round trips with the exact set of unit '
               'coordinates that round-trip (the 1e-8 fuzz is a parameter; the strip [1-eps,1) is proved to move to the '
               'next cell), g_pos = g_cart on sites for crystal operations (and the rounding residual otherwise), '
               'g_vect = g_cart for all operations, g_direc/g_tensor linear part / conjugation, products act as '
               'composition on all five routes, inv() (adjugate inverse, cartrot.T through the metric, sort-based index '
               'inverse) acts as the inverse, PairState.g keeps dx consistent with its endpoints, ClusterSite.g = g_pos. '
               'The model is tied to the code by differential runs on zoo + random rational crystals (exact on integers, '
               '1e-12 on floats); floating-point evaluation itself is only covered by that correspondence.',
    level_note='Trusted: Lean kernel + standard axioms; the harness (rationalisation of basis/translations with checked '
               'residual, Cartesian<->lattice conversion with the float lattice). Modelled not verified: numpy dot/round/'
               'floor/linalg.inv in floating point; negative (wrap-around) site indices are excluded.',
    technique='Lean 4 algebraic proofs over Q/Z in lattice coordinates + differential runs + direct route-agreement oracles',
    lean_modules=['OnsagerModel.C23', 'OnsagerProofs.C23'],
    theorems=['Onsager.C23.unit2cart_cart2unit', 'Onsager.C23.cart2unit_unit2cart_general',
              'Onsager.C23.cart2unit_roundtrip_iff', 'Onsager.C23.cart2unit_unit2cart', 'Onsager.C23.fuzz_boundary',
              'Onsager.C23.cart2pos_pos2cart', 'Onsager.C23.gPosCore_cart_general', 'Onsager.C23.resid_small',
              'Onsager.C23.gPos_cart', 'Onsager.C23.gVect_cart', 'Onsager.C23.gVect_range', 'Onsager.C23.gCart_sub',
              'Onsager.C23.gDirec_add', 'Onsager.C23.gDirec_smul', 'Onsager.C23.gTensor_outer',
              'Onsager.C23.gTensor_add', 'Onsager.C23.gTensor_symm',
              'Onsager.C23.gCart_mul', 'Onsager.C23.mul_crot', 'Onsager.C23.gDirec_mul', 'Onsager.C23.gTensor_mul',
              'Onsager.C23.gVect_mul', 'Onsager.C23.validAt_mul', 'Onsager.C23.composeMaps_spec',
              'Onsager.C23.gPos_mul', 'Onsager.C23.qInv_mul', 'Onsager.C23.invertMap_spec', 'Onsager.C23.inv_rot',
              'Onsager.C23.affine_inv', 'Onsager.C23.inv_crot', 'Onsager.C23.gCart_inv', 'Onsager.C23.gDirec_inv',
              'Onsager.C23.gPos_inv', 'Onsager.C23.pairState_g_sane', 'Onsager.C23.clusterSite_g_eq_gPos',
              'Onsager.C23.roundHE_spec', 'Onsager.C23.exists_int_inverse2', 'Onsager.C23.exists_int_inverse3'],
    tie_theorems=[],
    rule='crystal zoo (SC, FCC, BCC, HCP, B2, diamond, NaCl, L1_2, perovskite, cubic face centres, FCC/BCC/HCP + octahedral/'
         'tetrahedral interstitials, kagome, honeycomb+centres, 2-D square/'
         'triangular/honeycomb/rectangular/oblique, monoclinic, triclinic) plus random rational lattices with random '
         'rational bases and high-symmetry lattices decorated with symmetry orbits of 3-12 equivalent sites (non-commuting site '
         'permutations); operations from crys.G, products and inverses of arbitrary pairs of crys.G, and a malformed stream of non-symmetry '
         'operations; positions: all sites with random lattice vectors, unit coordinates with small denominators, '
         'random floats and boundary values 0, -1e-8+-d, 1-1e-8+-d, 1-1e-12. A case = one (crystal, operation(s), '
         'position, route); non-trivial = operation is not the identity or the position is not the origin; distinct by '
         'the request text',
    trusted=['snapping of crys.basis / g.trans to denominators <= 5040 (residual < 1e-11 checked per value)',
             'metric G = L^T L snapped to rationals (residual checked); only used for inv() cartrot'],
    assumptions=['site indices are non-negative (Python wrap-around of negative indices is not modelled)',
                 'comparisons of floor/round decisions are skipped when the exact value is within 1e-11 of the decision '
                 'boundary (counted as skipped-tie)'],
)

DRIVER = 'Drive/C23.lean'
TOL = 1e-12
EPS = Fr(1.0e-8)
RTOL = Fr(1.0e-5)


# ------------------------------------------------------------------ exact helpers
def snap(x, maxden=5040, tol=1e-11):
    f = Fr(float(x)).limit_denominator(maxden)
    if abs(float(f) - float(x)) > tol * max(1.0, abs(float(x))):
        raise ValueError('cannot snap %r' % (x,))
    return f


def fr(x):
    """text of a rational"""
    x = Fr(x)
    return str(x.numerator) if x.denominator == 1 else '%d/%d' % (x.numerator, x.denominator)


def vtxt(v):
    return ','.join(fr(x) for x in v)


def mtxt(m):
    return ';'.join(vtxt(r) for r in m)


def itxt(v):
    return ','.join(str(int(x)) for x in v)


def imtxt(m):
    return ';'.join(itxt(r) for r in m)


def imaptxt(im):
    return '|'.join(','.join(str(int(i)) for i in l) if len(l) else '-' for l in im) if len(im) else '-'


def frac_inv(M):
    n = len(M)
    A = [list(map(Fr, r)) + [Fr(int(i == j)) for j in range(n)] for i, r in enumerate(M)]
    for c in range(n):
        p = next(r for r in range(c, n) if A[r][c] != 0)
        A[c], A[p] = A[p], A[c]
        pv = A[c][c]
        A[c] = [x / pv for x in A[c]]
        for r in range(n):
            if r != c and A[r][c] != 0:
                f = A[r][c]
                A[r] = [x - f * y for x, y in zip(A[r], A[c])]
    return [r[n:] for r in A]


def parse_q(s):
    return Fr(s)


def parse_vec(s):
    return [] if s in ('-', '') else [Fr(x) for x in s.split(',')]


def parse_mat(s):
    return [parse_vec(r) for r in s.split(';')]


def fl(v):
    return np.array([float(x) for x in v])


def flm(m):
    return np.array([[float(x) for x in r] for r in m])


# ------------------------------------------------------------------ crystals
def zoo():
    from onsager import crystal
    C = crystal.Crystal
    a = 1.0
    out = []
    out.append(('SC', lambda: C(a * np.eye(3), [np.zeros(3)])))
    out.append(('FCC', lambda: C.FCC(a)))
    out.append(('BCC', lambda: C.BCC(a)))
    out.append(('HCP', lambda: C.HCP(a)))
    out.append(('HCP-c1.5', lambda: C.HCP(2.0, c_a=1.5)))
    out.append(('B2', lambda: C(a * np.eye(3), [[np.zeros(3)], [np.array([.5, .5, .5])]])))
    out.append(('diamond', lambda: C(a * np.array([[0, .5, .5], [.5, 0, .5], [.5, .5, 0]]),
                                     [np.zeros(3), np.array([.25, .25, .25])])))
    out.append(('NaCl', lambda: C(a * np.array([[0, .5, .5], [.5, 0, .5], [.5, .5, 0]]),
                                  [[np.zeros(3)], [np.array([.5, .5, .5])]])))

    def fcc_oct_tet():
        fcc = C.FCC(a)
        return fcc.addbasis(fcc.Wyckoffpos(np.array([.5, .5, .5])) + fcc.Wyckoffpos(np.array([.25, .25, .25])))
    out.append(('FCC+oct+tet', fcc_oct_tet))

    def hcp_oct():
        hcp = C.HCP(a)
        return hcp.addbasis(hcp.Wyckoffpos(np.array([0., 0., 0.5])))
    out.append(('HCP+oct', hcp_oct))
    out.append(('square2D', lambda: C(a * np.eye(2), [np.zeros(2)])))
    out.append(('square2D-edge', lambda: C(a * np.eye(2), [[np.zeros(2)], [np.array([.5, 0.]), np.array([0., .5])]])))
    out.append(('tri2D', lambda: C(a * np.array([[1., .5], [0., math.sqrt(.75)]]), [np.zeros(2)])))
    out.append(('honeycomb2D', lambda: C(a * np.array([[.5, .5], [-math.sqrt(.75), math.sqrt(.75)]]),
                                         [np.array([1. / 3, 2. / 3]), np.array([2. / 3, 1. / 3])])))
    out.append(('rect2D', lambda: C(np.array([[1., 0.], [0., 1.5]]), [np.zeros(2), np.array([.5, .25])])))
    out.append(('oblique2D', lambda: C(np.array([[1., .25], [0., 1.25]]), [[np.zeros(2)], [np.array([.25, .5])]])))
    out.append(('tetragonal', lambda: C(np.diag([1., 1., 1.5]), [np.zeros(3), np.array([.5, .5, .5])])))
    out.append(('orthorhombic', lambda: C(np.diag([1., 1.25, 1.5]), [[np.zeros(3)], [np.array([.5, .5, 0.])]])))
    out.append(('monoclinic', lambda: C(np.array([[1., 0., .25], [0., 1.25, 0.], [0., 0., 1.5]]),
                                        [np.zeros(3), np.array([.25, .5, .125])])))
    out.append(('triclinic', lambda: C(np.array([[1., .25, .5], [0., 1.25, .25], [0., 0., 1.5]]),
                                       [[np.array([.125, .25, .5])], [np.array([.5, .75, .2]), np.array([.2, .4, .6])]])))
    # several equivalent sites per species, permuted non-commutatively
    fc = [np.array([0., .5, .5]), np.array([.5, 0., .5]), np.array([.5, .5, 0.])]
    out.append(('L12', lambda: C(a * np.eye(3), [[np.zeros(3)], fc])))
    out.append(('perovskite', lambda: C(a * np.eye(3), [[np.zeros(3)], [np.array([.5, .5, .5])], fc])))
    out.append(('SC-facecentres', lambda: C(a * np.eye(3), fc)))

    def bcc_int(u):
        def mk():
            bcc = C.BCC(a)
            return bcc.addbasis(bcc.Wyckoffpos(np.array(u)))
        return mk
    out.append(('BCC+oct', bcc_int([.5, .5, 0.])))
    out.append(('BCC+tet', bcc_int([.5, .25, .75])))

    def hcp_tet():
        hcp = C.HCP(a)
        return hcp.addbasis(hcp.Wyckoffpos(np.array([1. / 3, 2. / 3, 5. / 8])))
    out.append(('HCP+tet', hcp_tet))
    tri = a * np.array([[1., .5], [0., math.sqrt(.75)]])
    out.append(('kagome2D', lambda: C(tri, [np.array([.5, 0.]), np.array([0., .5]), np.array([.5, .5])])))
    out.append(('honeycomb+centre2D', lambda: C(tri, [[np.array([1. / 3, 1. / 3]), np.array([2. / 3, 2. / 3])],
                                                        [np.array([.5, 0.]), np.array([0., .5]), np.array([.5, .5])]])))
    out.append(('square2D-4sites', lambda: C(a * np.eye(2), [np.array([.25, 0.]), np.array([.75, 0.]),
                                                              np.array([0., .25]), np.array([0., .75])])))
    out.append(('rhombohedral', lambda: C(np.array([[1., .25, .25], [.25, 1., .25], [.25, .25, 1.]]), [np.zeros(3)])))
    return out


def random_crystal(rng, dim):
    """random rational lattice (entries k/den) with a random rational basis; returns a constructor"""
    from onsager import crystal
    while True:
        den = rng.choice([1, 2, 2, 3, 4])
        L = [[Fr(rng.randint(-4, 4), den) for _ in range(dim)] for _ in range(dim)]
        Lf = flm(L)
        dt = abs(np.linalg.det(Lf))
        if dt < 0.3: continue
        if max(np.linalg.norm(Lf, axis=0)) / dt ** (1. / dim) > 4: continue   # keep it away from needles
        break
    nchem = rng.choice([1, 1, 2])
    basis, seen = [], set()
    for c in range(nchem):
        sites = []
        for _ in range(rng.choice([1, 1, 2, 3])):
            for _try in range(20):
                dn = rng.choice([2, 3, 4, 5, 6, 8, 12])
                u = tuple(Fr(rng.randrange(dn), dn) for _ in range(dim))
                if u not in seen:
                    seen.add(u); sites.append(np.array([float(x) for x in u])); break
        if sites: basis.append(sites)
    name = 'rand%dD:%s/%s' % (dim, mtxt(L), '|'.join(';'.join(vtxt([snap(x, 12) for x in u]) for u in s) for s in basis))
    return name, (lambda: crystal.Crystal(Lf, basis))


def orbit_crystal(rng):
    """a high-symmetry lattice decorated with a full symmetry orbit of a special position: several equivalent sites
    whose permutations by the group generally do not commute"""
    from onsager import crystal
    C = crystal.Crystal
    tri = np.array([[1., .5], [0., math.sqrt(.75)]])
    bases = [('SC', lambda: C(np.eye(3), [np.zeros(3)]), 3), ('FCC', lambda: C.FCC(1.), 3), ('BCC', lambda: C.BCC(1.), 3),
             ('HCP', lambda: C.HCP(1.), 3), ('sq2D', lambda: C(np.eye(2), [np.zeros(2)]), 2),
             ('tri2D', lambda: C(tri, [np.zeros(2)]), 2), ('tetragonal', lambda: C(np.diag([1., 1., 1.5]), [np.zeros(3)]), 3)]
    bname, mk, d = rng.choice(bases)
    for _ in range(50):
        x = Fr(rng.randrange(1, 8), 8) if rng.random() < .6 else Fr(rng.randrange(1, 6), 6)
        pat = rng.choice([(x, 0, 0), (x, x, 0), (Fr(1, 2), x, 0), (x, x, x), (Fr(1, 2), Fr(1, 2), x), (x, Fr(1, 2), 0), (x, 2 * x, Fr(1, 4))])
        u = np.array([float(t) for t in pat[:d]])
        base = mk()
        orb = base.Wyckoffpos(u)
        close_to_host = any(np.allclose(crystal.inhalf(w - b), 0, atol=1e-6) for w in orb for l in base.basis for b in l)
        if 3 <= len(orb) <= 12 and not close_to_host:
            name = 'orbit:%s+%s(%d sites)' % (bname, vtxt([snap(t, 24) for t in u]), len(orb))
            return name, (lambda base=base, orb=orb: base.addbasis(orb))
    return 'orbit:SC-facecentres', (lambda: C(np.eye(3), [np.array([0., .5, .5]), np.array([.5, 0., .5]), np.array([.5, .5, 0.])]))


class Exact:
    """exact (rational) description of a constructed Crystal"""

    def __init__(self, crys):
        self.crys = crys
        self.d = d = crys.dim
        self.L = crys.lattice
        self.basis = [[[snap(x) for x in u] for u in l] for l in crys.basis]
        Gf = np.dot(crys.lattice.T, crys.lattice)
        sc = max(1.0, np.abs(Gf).max())
        try:
            self.G = [[snap(Gf[i, j], 20000, 1e-11) for j in range(d)] for i in range(d)]
            self.Ginv = frac_inv(self.G)
            self.metric_ok = True
        except (ValueError, StopIteration):
            self.G = [[Fr(int(i == j)) for j in range(d)] for i in range(d)]
            self.Ginv = self.G
            self.metric_ok = False
        self.atol = Fr(float(crys.threshold))

    def line(self):
        b = '|'.join(';'.join(vtxt(u) for u in l) for l in self.basis)
        return 'crys %d %s %s %s %s %s %s' % (self.d, mtxt(self.G), mtxt(self.Ginv), b, fr(EPS), fr(self.atol), fr(RTOL))

    def op_fields(self, g):
        """(rot ints, trans fractions, crot fractions (lattice-coordinate cartrot), imap)"""
        rot = [[int(x) for x in r] for r in g.rot]
        trans = [snap(x) for x in g.trans]
        cl = np.dot(self.crys.invlatt, np.dot(g.cartrot, self.crys.lattice))
        if np.allclose(cl, g.rot, atol=1e-9, rtol=0):
            crot = [[Fr(x) for x in r] for r in rot]
        else:
            crot = [[snap(x, 5040, 1e-9) for x in r] for r in cl]
        return rot, trans, crot, [list(l) for l in g.indexmap]

    def op_line(self, k, g):
        rot, trans, crot, im = self.op_fields(g)
        return 'op %d %s %s %s %s' % (k, imtxt(rot), vtxt(trans), mtxt(crot), imaptxt(im))

    def cart(self, n):
        """Cartesian float vector of lattice coordinates n (fractions or floats)"""
        return np.dot(self.L, fl(n))

    def tcart(self, T):
        return np.dot(self.L, np.dot(flm(T), self.L.T))


def close(a, b):
    a, b = np.asarray(a, float), np.asarray(b, float)
    return a.shape == b.shape and bool(np.all(np.abs(a - b) <= TOL * max(1.0, np.abs(a).max() if a.size else 1.0)))


def near_int(x, margin=Fr(1, 10 ** 11)):
    """exact x within margin of an integer"""
    r = x - math.floor(x)
    return r < margin or 1 - r < margin


def near_half(x, margin=Fr(1, 10 ** 9)):
    r = x - math.floor(x)
    return abs(r - Fr(1, 2)) < margin


# ------------------------------------------------------------------ generators
def unit_coords(rng, d, boundary):
    """a unit-cell coordinate vector (fractions), optionally with boundary components"""
    out = []
    for _ in range(d):
        r = rng.random()
        if boundary and r < 0.5:
            dlt = Fr(rng.choice([1, 3, 10, 100, 5000]), 10 ** 11)
            out.append(rng.choice([Fr(0), 1 - EPS + dlt, 1 - EPS - dlt, -EPS + dlt, 1 - Fr(1, 10 ** 12),
                                   Fr(1, 2), 1 - EPS * 2, Fr(1, 10 ** 9)]))
        elif r < 0.8:
            dn = rng.choice([2, 3, 4, 5, 6, 7, 8, 12, 24])
            out.append(Fr(rng.randrange(dn), dn))
        else:
            out.append(Fr(rng.random()))
    return out


def rand_R(rng, d, m=3):
    return [rng.randint(-m, m) for _ in range(d)]


def rand_unimodular(rng, d):
    M = np.eye(d, dtype=int)
    for _ in range(rng.randint(1, 4)):
        i, j = rng.sample(range(d), 2)
        E = np.eye(d, dtype=int); E[i, j] = rng.choice([-1, 1])
        M = np.dot(M, E)
        if rng.random() < 0.3:
            P = np.eye(d, dtype=int); P[i, i] = -1; M = np.dot(P, M)
    return M


def malformed_op(rng, ex):
    """a GroupOp that is NOT a symmetry of the crystal: unimodular rot, random trans, random site permutation"""
    from onsager import crystal
    d = ex.d
    rot = rand_unimodular(rng, d)
    trans = np.array([float(Fr(rng.randrange(-7, 8), rng.choice([1, 2, 3, 5, 7, 16]))) for _ in range(d)])
    cartrot = np.dot(ex.L, np.dot(rot, ex.crys.invlatt))
    im = []
    for l in ex.crys.basis:
        p = list(range(len(l))); rng.shuffle(p); im.append(tuple(p))
    return crystal.GroupOp(rot, trans, cartrot, tuple(im))


# ------------------------------------------------------------------ one crystal session
class Session:
    def __init__(self, ctx, name, ex, rng):
        self.ctx, self.name, self.ex, self.rng = ctx, name, ex, rng
        self.lines, self.checks = [ex.line()], [None]
        self.ops = []   # python GroupOps by slot

    def add(self, line, check):
        self.lines.append(line); self.checks.append(check)

    def viol(self, sig, what, **kw):
        kw['crystal'] = self.name
        kw['lattice'] = self.ex.L.tolist()
        kw['basis'] = [[list(map(float, u)) for u in l] for l in self.ex.crys.basis]
        self.ctx.violation(sig, what, _jsonable(kw))

    def slot(self, g):
        self.ops.append(g)
        k = len(self.ops) - 1
        self.add(self.ex.op_line(k, g), None)
        return k


def _jsonable(x):
    if isinstance(x, dict): return {str(k): _jsonable(v) for k, v in x.items()}
    if isinstance(x, (list, tuple)): return [_jsonable(v) for v in x]
    if isinstance(x, np.ndarray): return x.tolist()
    if isinstance(x, (np.integer,)): return int(x)
    if isinstance(x, (np.floating,)): return float(x)
    if isinstance(x, Fr): return str(x)
    return x


def opdict(g):
    return dict(rot=g.rot.tolist(), trans=g.trans.tolist(), cartrot=g.cartrot.tolist(), indexmap=[list(l) for l in g.indexmap])


def _err(e):
    return 'index-error' if isinstance(e, IndexError) else 'other:' + type(e).__name__


def build_session(ctx, name, ex, rng, nops, npos, malformed):
    """queue requests + expected implementation answers; evaluate the direct oracles"""
    from onsager import crystal, crystalStars, cluster
    crys, d = ex.crys, ex.d
    S = Session(ctx, name, ex, rng)
    G = sorted(crys.G, key=lambda g: (g.rot.tolist(), [list(l) for l in g.indexmap], g.trans.tolist()))
    if malformed:
        ops = [malformed_op(rng, ex) for _ in range(nops)]
    else:
        ops = G if len(G) <= nops else rng.sample(G, nops)
    sites = list(crys.atomindices)
    origin = np.zeros(d, dtype=int)

    # ---------------- conversions (no operation)
    for t in range(npos):
        R = rand_R(rng, d)
        u = unit_coords(rng, d, boundary=(t % 2 == 0))
        Ra, ua = np.array(R, dtype=int), fl(u)
        ctx.count('conv')
        # unit2cart, then cart2unit on the code's own u = invlatt.v
        v = crys.unit2cart(Ra, ua)
        if not close(v, ex.cart([Fr(r) + Fr(float(x)) for r, x in zip(R, ua)])):
            S.viol('unit2cart-wrong', 'unit2cart(R,u) != L(R+u)', R=R, u=ua, got=v)
        R2, u2 = crys.cart2unit(v)
        uin = np.dot(crys.invlatt, v)
        uin_ex = [Fr(float(x)) for x in uin]
        key = 'cart2unit %s' % vtxt(uin_ex)
        ctx.case((name, key), nontrivial=any(R) or any(u), sample=dict(crystal=name, request=key))
        if any(near_int(x + EPS) for x in uin_ex):
            ctx.count('skipped-tie')
        else:
            def chk(ans, R2=R2, u2=u2, key=key):
                rs, us = ans.split(' ')
                return itxt(R2) == rs and close(u2, fl(parse_vec(us)))
            S.add(key, (chk, '%s %s' % (itxt(R2), u2.tolist())))
        # oracle: unit2cart(cart2unit(v)) == v  (any position)
        if not close(crys.unit2cart(R2, u2), v):
            S.viol('roundtrip:unit2cart-cart2unit', 'unit2cart(*cart2unit(v)) != v', v=v, R=R2, u=u2)
        if R2.dtype.kind != 'i':
            S.viol('cart2unit-lattvec-not-int', 'cart2unit lattice vector is not integer typed', v=v)
        # oracle: cart2unit(unit2cart(R,u)) == (R,u) for u in [0, 1-2e-8]
        if all(0 <= x <= 1 - 2 * EPS for x in u):
            # float safety margin: u within 1e-11 of the strip boundary is not judged
            if not any(near_int(Fr(float(x)) + EPS, Fr(1, 10 ** 10)) for x in ua):
                if not (np.array_equal(R2, Ra) and close(u2, ua)):
                    S.viol('roundtrip:cart2unit-unit2cart', 'cart2unit(unit2cart(R,u)) != (R,u) with u inside the cell',
                           R=R, u=ua, got_R=R2, got_u=u2)
    for ci in sites:
        R = rand_R(rng, d)
        Ra = np.array(R, dtype=int)
        x = crys.pos2cart(Ra, ci)
        key = 'pos2cart %s %d %d' % (itxt(R), ci[0], ci[1])
        ctx.case((name, key), nontrivial=True)
        S.add(key, ((lambda ans, x=x: ans != 'index-error' and close(x, ex.cart(parse_vec(ans)))), x.tolist()))
        R2, ci2 = crys.cart2pos(x)
        if not (np.array_equal(R2, Ra) and ci2 == ci):
            S.viol('roundtrip:cart2pos-pos2cart', 'cart2pos(pos2cart(R,ci)) != (R,ci)', R=R, ci=ci, got_R=R2, got_ci=ci2)
        uin_ex = [Fr(float(t)) for t in np.dot(crys.invlatt, x)]
        if not any(near_int(t + EPS) for t in uin_ex):
            key = 'cart2pos %s' % vtxt(uin_ex)
            exp = '%s %s' % (itxt(R2), 'none' if ci2 is None else '%d %d' % ci2)
            S.add(key, ((lambda ans, exp=exp: ans == exp), exp))
        # displaced positions: half / twice the threshold away, and a non-site
        for fac, lab in ((0.4, 'in'), (3.0, 'out')):
            uu = crys.basis[ci[0]][ci[1]].copy(); uu[rng.randrange(d)] += fac * crys.threshold
            xx = crys.unit2cart(Ra, uu)
            R3, ci3 = crys.cart2pos(xx)
            uin_ex = [Fr(float(t)) for t in np.dot(crys.invlatt, xx)]
            if not any(near_int(t + EPS) for t in uin_ex):
                exp = '%s %s' % (itxt(R3), 'none' if ci3 is None else '%d %d' % ci3)
                S.add('cart2pos %s' % vtxt(uin_ex), ((lambda ans, exp=exp: ans == exp), exp))
                ctx.count('cart2pos-displaced-' + lab)
    # out-of-range site
    c_bad = (0, len(crys.basis[0]) + rng.randrange(3))
    try:
        crys.pos2cart(origin, c_bad); st = 'ok'
    except Exception as e:
        st = _err(e)
    S.add('pos2cart %s %d %d' % (itxt(origin), c_bad[0], c_bad[1]), ((lambda ans, st=st: ans == st), st))

    # ---------------- operations
    slots = [S.slot(g) for g in ops]
    for k, g in zip(slots, ops):
        ident = bool(np.array_equal(g.rot, np.eye(d, dtype=int)) and np.allclose(g.trans, 0))
        rot_ex, trans_ex, crot_ex, _ = ex.op_fields(g)
        for ci in sites:
            R = rand_R(rng, d); Ra = np.array(R, dtype=int)
            # exact residual of the operation at this site (valid op: integer)
            c, i = ci
            ip = g.indexmap[c][i]
            delta = [sum(rot_ex[a][b] * ex.basis[c][i][b] for b in range(d)) + trans_ex[a] - ex.basis[c][ip][a]
                     for a in range(d)]
            valid = all(x.denominator == 1 for x in delta)
            tie = any(near_half(x) for x in delta)
            key = 'gpos %d %s %d %d' % (k, itxt(R), c, i)
            ctx.case((name, opdict(g)['rot'], key), nontrivial=not ident or any(R),
                     sample=dict(crystal=name, op=opdict(g), request=key) if (c, i) == sites[-1] and k == slots[-1] else None)
            gR, gci = crys.g_pos(g, Ra, ci)
            if tie:
                ctx.count('skipped-tie')
            else:
                exp = '%s %d %d' % (itxt(gR), gci[0], gci[1])
                S.add(key, ((lambda ans, exp=exp: ans == exp), exp))
            ctx.count('gpos-valid' if valid else 'gpos-nonsymmetry')
            if gR.dtype.kind != 'i':
                S.viol('g_pos-lattvec-not-int', 'g_pos lattice vector is not integer typed', g=opdict(g), R=R, ci=ci)
            if valid and not malformed:
                # oracle: g_pos vs g_cart on sites
                lhs, rhs = crys.pos2cart(gR, gci), crys.g_cart(g, crys.pos2cart(Ra, ci))
                if not close(lhs, rhs):
                    S.viol('route:g_pos-vs-g_cart', 'pos2cart(g_pos(g,R,ci)) != g_cart(g,pos2cart(R,ci))',
                           g=opdict(g), R=R, ci=ci, via_g_pos=lhs, via_g_cart=rhs)
                # ClusterSite.g == g_pos
                cs = cluster.ClusterSite(ci=ci, R=Ra).g(crys, g)
                if not (cs.ci == gci and np.array_equal(cs.R, gR)):
                    S.viol('route:ClusterSite.g-vs-g_pos', 'ClusterSite.g differs from g_pos', g=opdict(g), R=R, ci=ci,
                           clustersite=[cs.ci, cs.R], g_pos=[gci, gR])
            cs = cluster.ClusterSite(ci=ci, R=Ra).g(crys, g)
            exp = '%d %d %s' % (cs.ci[0], cs.ci[1], itxt(cs.R))
            if not tie:
                S.add('csg %d %d %d %s' % (k, c, i, itxt(R)), ((lambda ans, exp=exp: ans == exp), exp))
        # pair states
        for c, l in enumerate(crys.basis):
            for _ in range(2 if len(l) > 1 else 1):
                i, j = rng.randrange(len(l)), rng.randrange(len(l))
                R = rand_R(rng, d); Ra = np.array(R, dtype=int)
                ps = crystalStars.PairState.fromcrys_latt(crys, c, (i, j), Ra)
                gps = ps.g(crys, c, g)
                ties = False
                for s in (i, j):
                    ip = g.indexmap[c][s]
                    dl = [sum(rot_ex[a][b] * ex.basis[c][s][b] for b in range(d)) + trans_ex[a] - ex.basis[c][ip][a]
                          for a in range(d)]
                    ties |= any(near_half(x) for x in dl)
                dx_l = [Fr(r) + ex.basis[c][j][a] - ex.basis[c][i][a] for a, r in enumerate(R)]
                key = 'psg %d %d %d %d %s %s' % (k, c, i, j, itxt(R), vtxt(dx_l))
                ctx.case((name, opdict(g)['rot'], key), nontrivial=not ident or any(R) or i != j)
                if not ties:
                    def chk(ans, gps=gps):
                        t = ans.split(' ')
                        return len(t) == 4 and int(t[0]) == gps.i and int(t[1]) == gps.j and t[2] == itxt(gps.R) \
                            and close(gps.dx, ex.cart(parse_vec(t[3])))
                    S.add(key, (chk, '%d %d %s %s' % (gps.i, gps.j, itxt(gps.R), gps.dx.tolist())))
                if not malformed:
                    # oracle: endpoints and dx agree
                    x0 = crys.g_cart(g, crys.pos2cart(origin, (c, i)))
                    x1 = crys.g_cart(g, crys.pos2cart(Ra, (c, j)))
                    if not close(gps.dx, x1 - x0):
                        S.viol('route:PairState.g-dx-vs-g_cart', 'PairState.g dx is not the difference of the mapped endpoints',
                               g=opdict(g), chem=c, i=i, j=j, R=R, dx=gps.dx, endpoints=x1 - x0)
                    if not gps.__sane__(crys, c):
                        S.viol('route:PairState.g-insane', 'PairState.g result has dx inconsistent with (i,j,R)',
                               g=opdict(g), chem=c, i=i, j=j, R=R, got=[gps.i, gps.j, gps.R, gps.dx])
                    p0 = crys.g_pos(g, origin, (c, i)); p1 = crys.g_pos(g, Ra, (c, j))
                    if not (gps.i == p0[1][1] and gps.j == p1[1][1] and np.array_equal(gps.R, p1[0] - p0[0])):
                        S.viol('route:PairState.g-vs-g_pos', 'PairState.g endpoints differ from g_pos of the endpoints',
                               g=opdict(g), chem=c, i=i, j=j, R=R)
        # general positions
        for t in range(npos):
            R = rand_R(rng, d); Ra = np.array(R, dtype=int)
            u = unit_coords(rng, d, boundary=(t % 3 == 0)); ua = fl(u)
            uex = [Fr(float(x)) for x in ua]
            rotu = [sum(rot_ex[a][b] * uex[b] for b in range(d)) + trans_ex[a] for a in range(d)]
            key = 'gvect %d %s %s' % (k, itxt(R), vtxt(uex))
            ctx.case((name, opdict(g)['rot'], key), nontrivial=not ident or any(R))
            gR, gu = crys.g_vect(g, Ra, ua)
            if any(near_int(x + EPS) for x in rotu):
                ctx.count('skipped-tie')
            else:
                def chk(ans, gR=gR, gu=gu):
                    rs, us = ans.split(' ')
                    return rs == itxt(gR) and close(gu, fl(parse_vec(us)))
                S.add(key, (chk, '%s %s' % (itxt(gR), gu.tolist())))
                if not malformed:
                    lhs, rhs = crys.unit2cart(gR, gu), crys.g_cart(g, crys.unit2cart(Ra, ua))
                    if not close(lhs, rhs):
                        S.viol('route:g_vect-vs-g_cart', 'unit2cart(g_vect(g,R,u)) != g_cart(g,unit2cart(R,u))',
                               g=opdict(g), R=R, u=ua, via_g_vect=lhs, via_g_cart=rhs)
                    if not all(-1.0e-8 - 1e-12 <= x < 1 - 1.0e-8 + 1e-12 for x in gu):
                        S.viol('g_vect-not-in-cell', 'g_vect unit part outside [-1e-8,1-1e-8)', g=opdict(g), R=R, u=ua, gu=gu)
            # Cartesian routes
            n = [Fr(r) + x for r, x in zip(R, uex)]
            x = ex.cart(n)
            gx = crys.g_cart(g, x)
            S.add('gcart %d %s' % (k, vtxt(n)), ((lambda ans, gx=gx: close(gx, ex.cart(parse_vec(ans)))), gx.tolist()))
            gd = crys.g_direc(g, x)
            S.add('gdirec %d %s' % (k, vtxt(n)), ((lambda ans, gd=gd: close(gd, ex.cart(parse_vec(ans)))), gd.tolist()))
            y = ex.cart([Fr(rng.randint(-5, 5), rng.choice([1, 2, 3])) for _ in range(d)])
            if not close(crys.g_cart(g, x) - crys.g_cart(g, y), crys.g_direc(g, x - y)):
                S.viol('route:g_direc-vs-g_cart', 'g_cart(x)-g_cart(y) != g_direc(x-y)', g=opdict(g), x=x, y=y)
            T = [[Fr(rng.randint(-4, 4), rng.choice([1, 2, 3])) for _ in range(d)] for _ in range(d)]
            Tc = ex.tcart(T)
            gT = crys.g_tensor(g, Tc)
            S.add('gtensor %d %s' % (k, mtxt(T)), ((lambda ans, gT=gT: close(gT, ex.tcart(parse_mat(ans)))), gT.tolist()))
            if not close(crys.g_tensor(g, np.outer(x, y)), np.outer(crys.g_direc(g, x), crys.g_direc(g, y))):
                S.viol('route:g_tensor-vs-g_direc', 'g_tensor(x⊗y) != g_direc(x)⊗g_direc(y)', g=opdict(g), x=x, y=y)
    # ---------------- composition / inversion
    multi = max(len(l) for l in crys.basis) >= 3     # several equivalent sites: permutations may not commute
    npairs = max(2, nops) * (3 if multi and not malformed else 1)
    Gset = None if malformed else set(G)
    for _ in range(npairs):
        if malformed:
            ka, kb = rng.choice(slots), rng.choice(slots)
        else:
            # any two operations of the group (not only the sampled ones)
            ka, kb = S.slot(rng.choice(G)), S.slot(rng.choice(G))
        ga, gb = S.ops[ka], S.ops[kb]
        gab = ga * gb
        kc = len(S.ops); S.ops.append(gab)
        S.add('mul %d %d %d' % (ka, kb, kc), (_op_check(ex, gab), opdict(gab)))
        ctx.case((name, 'mul', opdict(ga)['rot'], opdict(gb)['rot'], opdict(ga)['trans'], opdict(gb)['trans']), nontrivial=True)
        gi = ga.inv()
        ki = len(S.ops); S.ops.append(gi)
        S.add('inv %d %d' % (ka, ki), (_op_check(ex, gi, cart=ex.metric_ok), opdict(gi)))
        ctx.count('mul'); ctx.count('inv')
        if malformed: continue
        commute = all(tuple(a[i] for i in b) == tuple(b[i] for i in a) for a, b in zip(ga.indexmap, gb.indexmap))
        ctx.count('mul-sitemaps-commute' if commute else 'mul-sitemaps-noncommuting')
        # oracles on the implementation: action of the product = composition; inverse undoes
        # closure: the product / inverse of crystal operations is a crystal operation
        if gab.inhalf() not in Gset and not any(gab - np.round(gab.trans - h.trans).astype(int) == h for h in G
                                                if np.array_equal(h.rot, gab.rot)):
            S.viol('group:product-not-in-G', 'g*h is not (up to a lattice translation) an element of crys.G',
                   g=opdict(ga), h=opdict(gb), product=opdict(gab))
        if not any(gi - np.round(gi.trans - h.trans).astype(int) == h for h in G if np.array_equal(h.rot, gi.rot)):
            S.viol('group:inverse-not-in-G', 'g.inv() is not (up to a lattice translation) an element of crys.G',
                   g=opdict(ga), ginv=opdict(gi))
        for ci in sites:
            R = rand_R(rng, d); Ra = np.array(R, dtype=int)
            p = crys.g_pos(gb, Ra, ci); q = crys.g_pos(ga, p[0], p[1]); r = crys.g_pos(gab, Ra, ci)
            if not (np.array_equal(q[0], r[0]) and q[1] == r[1]):
                S.viol('group:mul-not-composition:g_pos', 'g_pos(g*h) != g_pos(g) o g_pos(h)', g=opdict(ga), h=opdict(gb), R=R, ci=ci,
                       composed=[q[0], q[1]], product=[r[0], r[1]])
            # the product's index map against the geometric action g_cart(g, g_cart(h, x))
            xx = crys.g_cart(ga, crys.g_cart(gb, crys.pos2cart(Ra, ci)))
            Rg, cig = crys.cart2pos(xx)
            if cig != r[1] or not np.array_equal(Rg, r[0]) or not close(crys.pos2cart(r[0], r[1]), xx):
                S.viol('group:mul-not-composition:g_pos-vs-geometry', 'g_pos(g*h, R, ci) is not the site at g_cart(g, g_cart(h, x))',
                       g=opdict(ga), h=opdict(gb), R=R, ci=ci, geometric=[Rg, cig], product=[r[0], r[1]])
            p = crys.g_pos(ga, Ra, ci); q = crys.g_pos(gi, p[0], p[1])
            if not (np.array_equal(q[0], Ra) and q[1] == ci):
                S.viol('group:inv-not-inverse:g_pos', 'g_pos(g.inv()) o g_pos(g) != id', g=opdict(ga), R=R, ci=ci, back=[q[0], q[1]])
            xi = crys.g_cart(gi, crys.pos2cart(Ra, ci))
            q = crys.g_pos(gi, Ra, ci)
            if not close(crys.pos2cart(q[0], q[1]), xi):
                S.viol('group:inv-not-inverse:g_pos-vs-geometry', 'g_pos(g.inv(), R, ci) is not the site at g_cart(g.inv(), x)',
                       g=opdict(ga), R=R, ci=ci, got=[q[0], q[1]])
            # cluster sites and pair states under the product
            cs0 = cluster.ClusterSite(ci=ci, R=Ra)
            l, rr = cs0.g(crys, gab), cs0.g(crys, gb).g(crys, ga)
            if not l == rr:
                S.viol('group:mul-not-composition:ClusterSite.g', 'ClusterSite.g(g*h) != ClusterSite.g(g) o ClusterSite.g(h)',
                       g=opdict(ga), h=opdict(gb), R=R, ci=ci, product=[l.ci, l.R], composed=[rr.ci, rr.R])
            if not cs0.g(crys, ga).g(crys, gi) == cs0:
                S.viol('group:inv-not-inverse:ClusterSite.g', 'ClusterSite.g(g.inv()) o ClusterSite.g(g) != id', g=opdict(ga), R=R, ci=ci)
            j = rng.randrange(len(crys.basis[ci[0]]))
            ps = crystalStars.PairState.fromcrys_latt(crys, ci[0], (ci[1], j), Ra)
            l, rr = ps.g(crys, ci[0], gab), ps.g(crys, ci[0], gb).g(crys, ci[0], ga)
            if not (l == rr and close(l.dx, rr.dx)):
                S.viol('group:mul-not-composition:PairState.g', 'PairState.g(g*h) != PairState.g(g) o PairState.g(h)',
                       g=opdict(ga), h=opdict(gb), chem=ci[0], i=ci[1], j=j, R=R,
                       product=[l.i, l.j, l.R, l.dx], composed=[rr.i, rr.j, rr.R, rr.dx])
            back = ps.g(crys, ci[0], ga).g(crys, ci[0], gi)
            if not (back == ps and close(back.dx, ps.dx)):
                S.viol('group:inv-not-inverse:PairState.g', 'PairState.g(g.inv()) o PairState.g(g) != id', g=opdict(ga), chem=ci[0], i=ci[1], j=j, R=R)
            kq = 'gpos %d %s %d %d' % (kc, itxt(R), ci[0], ci[1])
            S.add(kq, ((lambda ans, exp='%s %d %d' % (itxt(r[0]), r[1][0], r[1][1]): ans == exp), [r[0].tolist(), r[1]]))
        # (a) the index maps themselves
        comp = tuple(tuple(la[i] for i in lb) for la, lb in zip(ga.indexmap, gb.indexmap))
        if gab.indexmap != comp:
            S.viol('group:mul-not-composition:indexmap', '(g*h).indexmap[c][i] != g.indexmap[c][h.indexmap[c][i]]',
                   g=opdict(ga), h=opdict(gb), product=opdict(gab), composed=[list(l) for l in comp])
        if any(gi.indexmap[c][ga.indexmap[c][i]] != i for c, l in enumerate(ga.indexmap) for i in range(len(l))):
            S.viol('group:inv-not-inverse:indexmap', 'g.inv().indexmap does not invert g.indexmap', g=opdict(ga), ginv=opdict(gi))
        for t in range(2):
            R = rand_R(rng, d); Ra = np.array(R, dtype=int)
            u = unit_coords(rng, d, boundary=False); ua = fl(u)
            x = crys.unit2cart(Ra, ua)
            if not close(crys.g_cart(gab, x), crys.g_cart(ga, crys.g_cart(gb, x))):
                S.viol('group:mul-not-composition:g_cart', 'g_cart(g*h) != g_cart(g) o g_cart(h)', g=opdict(ga), h=opdict(gb), x=x)
            if not close(crys.g_cart(gi, crys.g_cart(ga, x)), x):
                S.viol('group:inv-not-inverse:g_cart', 'g_cart(g.inv()) o g_cart(g) != id', g=opdict(ga), x=x)
            if not close(crys.g_direc(gab, x), crys.g_direc(ga, crys.g_direc(gb, x))):
                S.viol('group:mul-not-composition:g_direc', 'g_direc(g*h) != g_direc(g) o g_direc(h)', g=opdict(ga), h=opdict(gb), x=x)
            if not close(crys.g_direc(gi, crys.g_direc(ga, x)), x):
                S.viol('group:inv-not-inverse:g_direc', 'g_direc(g.inv()) o g_direc(g) != id', g=opdict(ga), x=x)
            T = np.outer(x, x[::-1]) + np.eye(d)
            if not close(crys.g_tensor(gab, T), crys.g_tensor(ga, crys.g_tensor(gb, T))):
                S.viol('group:mul-not-composition:g_tensor', 'g_tensor(g*h) != g_tensor(g) o g_tensor(h)', g=opdict(ga), h=opdict(gb))
            if not close(crys.g_tensor(gi, crys.g_tensor(ga, T)), T):
                S.viol('group:inv-not-inverse:g_tensor', 'g_tensor(g.inv()) o g_tensor(g) != id', g=opdict(ga))
            # g_vect: composition up to the fuzz (compare Cartesian positions; cells compared when away from the strip)
            p = crys.g_vect(gb, Ra, ua); q = crys.g_vect(ga, p[0], p[1]); r = crys.g_vect(gab, Ra, ua)
            if not close(crys.unit2cart(*q), crys.unit2cart(*r)):
                S.viol('group:mul-not-composition:g_vect', 'g_vect(g*h) and g_vect(g) o g_vect(h) are different points',
                       g=opdict(ga), h=opdict(gb), R=R, u=ua)
            elif not any(near_int(Fr(float(z)) + EPS, Fr(1, 10 ** 9)) for z in r[1]):
                if not (np.array_equal(q[0], r[0]) and close(q[1], r[1])):
                    S.viol('group:mul-not-composition:g_vect', 'g_vect(g*h) != g_vect(g) o g_vect(h)', g=opdict(ga), h=opdict(gb), R=R, u=ua)
            p = crys.g_vect(ga, Ra, ua); q = crys.g_vect(gi, p[0], p[1])
            if not close(crys.unit2cart(*q), x):
                S.viol('group:inv-not-inverse:g_vect', 'g_vect(g.inv()) o g_vect(g) != id', g=opdict(ga), R=R, u=ua)
        one = crystal.GroupOp(np.eye(d, dtype=int), np.zeros(d), np.eye(d), tuple(tuple(range(len(l))) for l in crys.basis))
        if not (ga * gi == one and gi * ga == one):
            S.viol('group:inv-not-inverse:product', 'g*g.inv() != identity', g=opdict(ga), ginv=opdict(gi))
    return S


def _op_check(ex, g, cart=True):
    def chk(ans):
        t = ans.split(' ')
        if len(t) != 4: return False
        if t[0] != imtxt(g.rot): return False
        if not close(g.trans, fl(parse_vec(t[1]))): return False
        if cart:
            cr = flm(parse_mat(t[2]))
            if not close(g.cartrot, np.dot(ex.L, np.dot(cr, ex.crys.invlatt))): return False
        return t[3] == imaptxt(g.indexmap)
    return chk


def run_sessions(ctx, sessions):
    lines, owners = [], []
    for S in sessions:
        for i, l in enumerate(S.lines):
            lines.append(l); owners.append((S, i))
    answers = ctx.lean(DRIVER, lines)
    nd = 0
    for ans, (S, i) in zip(answers, owners):
        chk = S.checks[i]
        if chk is None:
            if ans != 'ok':
                raise RuntimeError('driver rejected %r: %s' % (S.lines[i], ans))
            continue
        f, expect = chk
        try:
            ok = f(ans)
        except Exception:
            ok = False
        if not ok:
            nd += 1
            if nd <= 20:
                ops = [l for l in S.lines[:i] if l.startswith(('op ', 'mul ', 'inv '))]
                ctx.disagree('model/implementation differ on `%s` (%s): model `%s` impl `%s`' % (S.lines[i][:200], S.name, ans[:200], str(expect)[:200]),
                             dict(crystal=S.name, crys_line=S.lines[0], ops=ops, line=S.lines[i], model=ans, impl=_jsonable(expect)))
    return nd


def make_crystals(ctx, nrand):
    rng = ctx.rng
    out = []
    for name, mk in zoo():
        out.append((name, mk))
    for t in range(nrand):
        out.append(orbit_crystal(rng) if t % 3 == 1 else random_crystal(rng, 3 if t % 3 else 2))
    res = []
    for name, mk in out:
        try:
            crys = mk()
            ex = Exact(crys)
        except ValueError as e:
            ctx.count('crystal-skipped-unsnappable'); continue
        ctx.count('crystal'); ctx.count('dim%d' % ex.d)
        ctx.count('|G|=%d' % len(crys.G) if len(crys.G) in (1, 2, 48, 24) else '|G|other')
        res.append((name, ex))
    return res


def run(ctx):
    import time
    rng = ctx.rng
    t0 = time.time()
    limit = 60.0 if ctx.quick else 900.0     # generation budget, measured from here (not from the Lean build)
    crystals = make_crystals(ctx, 10 if ctx.quick else 500)
    sessions = []
    for n, (name, ex) in enumerate(crystals):
        if time.time() - t0 > limit and n >= 12:
            ctx.note('generation budget reached after %d of %d crystals' % (n, len(crystals))); break
        nops, npos = (5, 3) if ctx.quick else (16, 8)
        sessions.append(build_session(ctx, name, ex, rng, nops, npos, malformed=False))
        sessions.append(build_session(ctx, name + '-mal', ex, rng, max(2, nops // 2), 2, malformed=True))
    ctx.count('sessions', len(sessions))
    run_sessions(ctx, sessions)
    if ctx.evaluations == 0 or ctx.traces == 0:
        raise RuntimeError('C23: no case was evaluated')


def search(ctx, reasons):
    """oracle-only sweep with more operations/positions per crystal (the oracles run inside build_session)"""
    rng = ctx.rng
    for name, ex in make_crystals(ctx, 40):
        if ctx.budget_left() < 20: break
        build_session(ctx, name + '-search', ex, rng, 48, 8, malformed=False)
