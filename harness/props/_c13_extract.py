"""
ast translator for C13 (not a property module): attribute read-sets of the result methods, attribute write-sets of
the loadhdf5 classmethods, `__HDF5list__` tuples and the HDF5 dataset names written by addhdf5 / read by loadhdf5.
"""
import ast, os

FILES = {'VacancyMediated': 'OnsagerCalc.py', 'GFCrystalcalc': 'GFcalc.py', 'StarSet': 'crystalStars.py',
         'VectorStarSet': 'crystalStars.py', 'Taylor3D': 'PowerExpansion.py'}
# attributes holding objects of our other classes (followed through); everything else (crys, numpy arrays, lists) is atomic
SUBOBJ = {'VacancyMediated': {'GFcalc': 'GFCrystalcalc', 'thermo': 'StarSet', 'kinetic': 'StarSet', 'NNstar': 'StarSet',
                              'GFstarset': 'StarSet', 'vkinetic': 'VectorStarSet'},
          'VectorStarSet': {'starset': 'StarSet'}, 'GFCrystalcalc': {}, 'StarSet': {}, 'Taylor3D': {}}
# result methods.  core: what C13's statement names (results and tags); ext: other public methods taking inputs
CORE = {'VacancyMediated': ['Lij', 'tags2preene', 'makeLIMBpreene', 'maketracerpreene', 'omegalist', 'interactlist'],
        'GFCrystalcalc': ['SetRates', '__call__', 'Diffusivity', 'biascorrection'],
        'StarSet': ['stateindex', 'starindex', '__contains__', 'jumpnetwork_omega1', 'jumpnetwork_omega2',
                    'symmatch', 'symmequivjumplist'],
        'VectorStarSet': ['GFexpansion', 'rateexpansions', 'biasexpansions', 'bareexpansions',
                          'originstateVectorBasisfolddown'],
        'Taylor3D': ['__call__', 'nl', 'copy']}
EXT = {'VacancyMediated': ['makesupercells', '__str__'], 'GFCrystalcalc': ['__str__'], 'StarSet': ['__str__', 'copy'],
       'VectorStarSet': [], 'Taylor3D': ['__str__']}
# entry methods after which attributes they assign unconditionally are derived state, not inputs
PRIMERS = {'GFCrystalcalc': 'SetRates'}


class Src:
    def __init__(self, repo):
        self.cls = {}
        trees = {}
        for c, f in FILES.items():
            if f not in trees:
                trees[f] = ast.parse(open(os.path.join(repo, 'onsager', f)).read())
            node = next(n for n in ast.walk(trees[f]) if isinstance(n, ast.ClassDef) and n.name == c)
            self.cls[c] = node
        self.methods = {c: {n.name: n for n in node.body if isinstance(n, ast.FunctionDef)} for c, node in self.cls.items()}

    def hdf5list(self, c):
        for st in self.cls[c].body:
            if isinstance(st, ast.Assign) and any(isinstance(t, ast.Name) and t.id == '__HDF5list__' for t in st.targets):
                return [e.value for e in st.value.elts]
        return []

    # ---- reads
    @staticmethod
    def _chain(node, root):
        """attribute chain rooted at Name(root): self.a.b -> ['a','b'] ; None otherwise"""
        ch = []
        while isinstance(node, ast.Attribute):
            ch.append(node.attr); node = node.value
        if isinstance(node, ast.Name) and node.id == root:
            return ch[::-1]
        return None

    def reads(self, c, m, prefix='', seen=None):
        """qualified attribute names read (Load context) by method m of class c and everything it calls on self."""
        seen = set() if seen is None else seen
        if (c, m, prefix) in seen or m not in self.methods[c]: return set()
        seen.add((c, m, prefix))
        fn = self.methods[c][m]
        root = fn.args.args[0].arg if fn.args.args else 'self'
        out = set()
        calls = {id(n.func): n for n in ast.walk(fn) if isinstance(n, ast.Call)}
        inner = set()     # attribute nodes that are the .value of another attribute in a chain (skip: handled at the top)
        for n in ast.walk(fn):
            if isinstance(n, ast.Attribute) and isinstance(n.value, ast.Attribute): inner.add(id(n.value))
        for n in ast.walk(fn):
            if not isinstance(n, ast.Attribute) or id(n) in inner: continue
            ch = self._chain(n, root)
            if not ch or ch[0].startswith('__'): continue
            is_call = id(n) in calls
            store = isinstance(n.ctx, (ast.Store, ast.Del)) and len(ch) == 1
            if store: continue
            # walk the chain through sub-objects
            cc, pre, i = c, prefix, 0
            while i < len(ch):
                a = ch[i]
                if a.startswith('__'): break
                last = (i == len(ch) - 1)
                if a in self.methods[cc] and last and is_call:
                    out |= self.reads(cc, a, pre, seen); break
                if a in self.methods[cc] and not (a in SUBOBJ[cc]):
                    # bound method used as a value / property-like: treat like a call
                    out |= self.reads(cc, a, pre, seen); break
                out.add(pre + a)
                if a in SUBOBJ[cc]:
                    sub = SUBOBJ[cc][a]
                    if last and is_call:                       # self.GFcalc(...) -> __call__
                        out |= self.reads(sub, '__call__', pre + a + '.', seen)
                    cc, pre, i = sub, pre + a + '.', i + 1
                    continue
                break                                           # atomic attribute: rest of the chain is inside it
        return out

    def assigned(self, c, m):
        """attributes assigned (self.X = …) at the top level of method m (unconditional statements only)."""
        fn = self.methods[c][m]
        root = fn.args.args[0].arg
        out = set()
        for st in fn.body:
            if isinstance(st, (ast.Assign, ast.AugAssign)):
                tg = st.targets if isinstance(st, ast.Assign) else [st.target]
                for t in tg:
                    for e in (t.elts if isinstance(t, ast.Tuple) else [t]):
                        ch = self._chain(e, root)
                        if ch and len(ch) == 1: out.add(ch[0])
        return out

    def class_level(self, c):
        """attributes assigned on the class (`cls.X = …`) in classmethods: shared tables, not object state"""
        out = set()
        for fn in self.methods[c].values():
            for n in ast.walk(fn):
                if isinstance(n, ast.Assign):
                    for t in n.targets:
                        for e in (t.elts if isinstance(t, ast.Tuple) else [t]):
                            ch = self._chain(e, 'cls')
                            if ch and len(ch) == 1: out.add(ch[0])
        return out

    def primer_first(self, c, m, attr, sub):
        """in method m of c, the first method called on self.<attr> (source order) is the primer of class sub"""
        fn = self.methods[c][m]
        root = fn.args.args[0].arg
        calls = []
        for n in ast.walk(fn):
            if isinstance(n, ast.Call):
                ch = self._chain(n.func, root)
                if ch and ch[0] == attr:
                    calls.append((n.lineno, n.col_offset, ch[1] if len(ch) > 1 else '__call__'))
        calls.sort()
        return bool(calls) and calls[0][2] == PRIMERS[sub]

    def readset(self, c, which):
        names = set()
        for m in which[c]:
            names |= self.reads(c, m)
        if c in PRIMERS:
            names -= self.assigned(c, PRIMERS[c])
        for a, sub in SUBOBJ[c].items():
            if sub in PRIMERS:
                users = [m for m in which[c] if m in self.methods[c] and any(
                    (ch := self._chain(n.func, self.methods[c][m].args.args[0].arg)) and ch[0] == a
                    for n in ast.walk(self.methods[c][m]) if isinstance(n, ast.Call))]
                if users and all(self.primer_first(c, m, a, sub) for m in users):
                    names -= {a + '.' + x for x in self.assigned(sub, PRIMERS[sub])}
        names -= self.class_level(c)
        return names

    # ---- writes
    def load_writes(self, c):
        """attributes set on the new object by the classmethod loadhdf5 (qualified through sub-objects)."""
        fn = self.methods[c]['loadhdf5']
        obj = None
        out = set()
        for n in ast.walk(fn):
            if isinstance(n, ast.Assign) and isinstance(n.value, ast.Call) and isinstance(n.value.func, ast.Name) \
                    and n.value.func.id == 'cls' and isinstance(n.targets[0], ast.Name):
                obj = n.targets[0].id
        if obj is None: return out
        ctor = next(n.value for n in ast.walk(fn) if isinstance(n, ast.Assign) and isinstance(n.value, ast.Call)
                    and isinstance(n.value.func, ast.Name) and n.value.func.id == 'cls')
        if not ctor.args and not ctor.keywords and '__init__' in self.methods[c]:
            # a real (non-blank) constructor call: everything __init__ assigns exists on the new object
            init = self.methods[c]['__init__']
            for n in ast.walk(init):
                if isinstance(n, ast.Assign):
                    for t in n.targets:
                        ch = self._chain(t, init.args.args[0].arg)
                        if ch and len(ch) == 1: out.add(ch[0])
        for n in ast.walk(fn):
            if isinstance(n, ast.Assign):
                for t in n.targets:
                    for e in (t.elts if isinstance(t, ast.Tuple) else [t]):
                        ch = self._chain(e, obj)
                        if ch and len(ch) == 1: out.add(ch[0])
            if isinstance(n, ast.For) and ast.unparse(n.iter) == 'cls.__HDF5list__':
                if any(isinstance(x, ast.Call) and isinstance(x.func, ast.Name) and x.func.id == 'setattr'
                       and ast.unparse(x.args[0]) == obj and ast.unparse(x.args[1]) == n.target.id for x in ast.walk(n)):
                    out |= set(self.hdf5list(c))
        q = set(out)
        for a, sub in SUBOBJ[c].items():
            if a in out:
                q |= {a + '.' + w for w in self.load_writes(sub)}
        return q

    def save_loop_symmetric(self, c):
        """addhdf5 stores every __HDF5list__ attribute under its own name: `for internal in self.__HDF5list__: HDF5group[internal] = getattr(self, internal)`"""
        fn = self.methods[c].get('addhdf5')
        if fn is None: return False
        for n in ast.walk(fn):
            if isinstance(n, ast.For) and ast.unparse(n.iter) == 'self.__HDF5list__' and len(n.body) == 1 \
                    and ast.unparse(n.body[0]) == 'HDF5group[{v}] = getattr(self, {v})'.format(v=n.target.id):
                return True
        return False

    def datasets(self, c):
        """(written, read): literal dataset names `HDF5group['name']` assigned in addhdf5 / loaded in loadhdf5"""
        def names(fn, store):
            out = set()
            for n in ast.walk(fn):
                if isinstance(n, ast.Subscript) and isinstance(n.value, ast.Name) and n.value.id == 'HDF5group' \
                        and isinstance(n.slice, ast.Constant) and isinstance(n.slice.value, str) \
                        and isinstance(n.ctx, ast.Store) == store:
                    out.add(n.slice.value)
                if store and isinstance(n, ast.Call) and isinstance(n.func, ast.Attribute) and n.func.attr == 'create_group' \
                        and n.args and isinstance(n.args[0], ast.Constant):
                    out.add(n.args[0].value)
            return out
        w = names(self.methods[c]['addhdf5'], True)
        r = names(self.methods[c]['loadhdf5'], False)
        if self.save_loop_symmetric(c):
            w |= set(self.hdf5list(c)); r |= set(self.hdf5list(c))
        return w, r


def taylor_order_restored(s):
    """addhdf5 writes attrs['order'] and loadhdf5 reads it"""
    def has(fn, store):
        for n in ast.walk(fn):
            if isinstance(n, ast.Subscript) and isinstance(n.slice, ast.Constant) and n.slice.value == 'order' \
                    and isinstance(n.value, ast.Attribute) and n.value.attr == 'attrs' and isinstance(n.ctx, ast.Store) == store:
                return True
            if not store and isinstance(n, ast.Call) and isinstance(n.func, ast.Attribute) and n.func.attr == 'get' \
                    and isinstance(n.func.value, ast.Attribute) and n.func.value.attr == 'attrs' \
                    and n.args and isinstance(n.args[0], ast.Constant) and n.args[0].value == 'order':
                return True
        return False
    m = s.methods['Taylor3D']
    load_sorts = any(isinstance(n, ast.Call) and isinstance(n.func, ast.Name) and n.func.id == 'sorted' for n in ast.walk(m['loadhdf5']))
    return has(m['addhdf5'], True) and has(m['loadhdf5'], False) and load_sorts


def facts(repo):
    s = Src(repo)
    F = {}
    for c in FILES:
        F[c] = dict(hdf5list=s.hdf5list(c), core=sorted(s.readset(c, CORE)), ext=sorted(s.readset(c, EXT)),
                    write=sorted(s.load_writes(c)), loops=s.save_loop_symmetric(c))
        w, r = s.datasets(c)
        F[c]['ds_written'], F[c]['ds_read'] = sorted(w), sorted(r)
    F['Taylor3D']['order_restored'] = taylor_order_restored(s)
    return F


if __name__ == '__main__':
    import sys, json
    F = facts(sys.argv[1] if len(sys.argv) > 1 else '/repo')
    for c, f in F.items():
        print('==', c)
        print(' core read :', f['core'])
        print(' ext read  :', f['ext'])
        print(' write     :', f['write'])
        print(' core-miss :', sorted(set(f['core']) - set(f['write'])))
        print(' ext-miss  :', sorted(set(f['ext']) - set(f['write'])))
        print(' ds read-not-written:', sorted(set(f['ds_read']) - set(f['ds_written'])), 'loops', f['loops'])
