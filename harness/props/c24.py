"""
C24 — Star sets are complete symmetry orbits of reachable pair states.

Tie: the real crystal's group (integer rotation, site permutation, integer cell shifts from
crys.g_pos), rational basis and metric are shipped exactly to the Lean model (Drive/C24.lean);
Lean reports whether the op list is a group and a symmetry of the crystal data (the hypotheses of
the theorems), then StarSet.generate / __add__ / diffgenerate are compared with the model as
canonical sets of sets, and the implementation's own (states, stars, index) go through the
verified checkers `checkStars` / `checkIndex`.  Direct oracles state the property on the
implementation's outputs with independent exact integer arithmetic.

Shared with C26 (harness/props/c26.py imports the zoo, the exact extraction and the session helpers).
"""
import os, itertools
from fractions import Fraction
import numpy as np

META = dict(
    id='C24',
    level_text='Kernel-checked theorems (unbounded N, any crystal data, any op list passing the decidable group / '
               'crystal-symmetry tests, any G-closed jump list): the orbit relation is an equivalence; the state set of '
               'generate is exactly the non-zero sums of 1..N chained jumps (+ origin states), duplicate-free and G-closed; '
               'the sort / shell-split / representative-matching loop returns a partition of the states into complete '
               'orbits for every threshold >= 0 (exact keys; the "append to every matching star" loop never matches '
               'twice); indexdict lookups are consistent and succeed exactly on members; S(N1)+=S(N2) has N1+N2 shells, '
               'the states of S(N1+N2) and star for star the same members (also when the sum reaches no new state); '
               'diffgenerate is exactly the set of endpoint differences, G-closed, and '
               'an orbit partition; soundness of the decidable group test, of |dx|^2 invariance, and of the star/index '
               'checkers. The hypotheses are discharged on every run for the real crystal (Lean evaluates the tests on the '
               'extracted ops and answers "ok 1 1"); the implementation is tied by differential runs (states, stars, add, '
               'diff as canonical sets of sets) and by the verified checkers on its actual output. Partial: the float '
               'threshold comparison of the implementation is not a theorem (its output goes through checkStars instead).',
    level_note='Trusted: Lean kernel + standard axioms; the harness extraction of (rot, indexmap, shift) from crys.G and '
               'the rationalisation of basis/metric (residual-checked). Modelled, not verified: Python set/hash '
               'semantics, numpy float sort keys (np.dot(dx,dx)) and the 1e-8 threshold comparison.',
    technique='Lean 4 proofs over an exact lattice-coordinate model (finite group action, closure algebra) + verified '
              'checkers on implementation output + differential runs + direct exact oracles',
    lean_modules=['OnsagerModel.C24', 'OnsagerProofs.C24Basic', 'OnsagerProofs.C24Group', 'OnsagerProofs.C24Gen',
                  'OnsagerProofs.C24Stars', 'OnsagerProofs.C24'],
    theorems=[],   # filled below
    tie_theorems=[],
    rule='case = (crystal from the zoo or a random rational cell, chemistry, jump network from crys.jumpnetwork at a '
         'random neighbour cutoff or a malformed variant, N, originstates, input form lattice/Cartesian); compared: '
         'state set, stars as set of sets, Nshells, add for (N1,N2), diffgenerate, index lookups; non-trivial = at '
         'least 2 stars and a non-identity group or multi-site basis; distinct by the request text',
    trusted=['harness/props/c24.py: exact extraction of group ops from crys.G / crys.g_pos and Fraction snapping of '
             'basis and metric (residual < 1e-9 checked)'],
    assumptions=['site indices in jump networks are non-negative (numpy negative indexing is not modelled)',
                 'distinct |dx|^2 shells of the tested crystals differ by far more than the 1e-8 threshold, so the '
                 'float split coincides with the exact split (otherwise the verified checker on the output decides)'],
)
META['theorems'] = ['Onsager.C24.' + t for t in (
    'orbit_equivalence', 'groupClosedB_sound', 'crysOpB_x2_invariant',
    'mem_genStates_iff', 'genStates_nodup', 'genStates_G_closed',
    'splitShells_sep', 'starsOf_partition_orbits', 'OrbitPartition.complete', 'generate_stars_complete_orbits',
    'settingB_sound', 'indexdict_consistent', 'indexdict_some_iff',
    'iaddStates_eq', 'iadd_states_eq_generate_sum', 'iadd_stars_partition', 'OrbitPartition.unique',
    'iadd_eq_generate_sum',
    'mem_diffStates_iff', 'diffStates_G_closed', 'diffgenerate_partition',
    'checkStars_sound', 'checkIndex_sound')]

DRIVER = 'Drive/C24.lean'


# ---------------------------------------------------------------- zoo
def _onsager():
    from onsager import crystal, crystalStars
    return crystal, crystalStars


def zoo():
    """Fixed crystals: (name, crys, chem)."""
    crystal, _ = _onsager()
    a = 1.0
    out = []
    sc = crystal.Crystal(a * np.eye(3), [np.zeros(3)])
    out.append(('sc', sc, 0))
    out.append(('fcc', crystal.Crystal.FCC(a), 0))
    out.append(('bcc', crystal.Crystal.BCC(a), 0))
    out.append(('hcp', crystal.Crystal.HCP(a), 0))
    b2 = crystal.Crystal(a * np.eye(3), [[np.zeros(3)], [np.array([.5, .5, .5])]])
    out.append(('b2', b2, 0))
    out.append(('b2-B', b2, 1))
    dia = crystal.Crystal(np.array([[0., .5, .5], [.5, 0., .5], [.5, .5, 0.]]) * a,
                          [np.zeros(3), np.array([.25, .25, .25])])
    out.append(('diamond', dia, 0))
    out.append(('square2d', crystal.Crystal(a * np.eye(2), [np.zeros(2)]), 0))
    tri = np.array([[1., .5], [0., np.sqrt(.75)]]) * a
    out.append(('tri2d', crystal.Crystal(tri, [np.zeros(2)]), 0))
    out.append(('honeycomb2d', crystal.Crystal(tri, [np.array([1. / 3, 1. / 3]), np.array([2. / 3, 2. / 3])]), 0))
    hcp = crystal.Crystal.HCP(a)
    hcpo = hcp.addbasis(hcp.Wyckoffpos(np.array([0., 0., .5])), chemistry=['O'])
    out.append(('hcp-oct', hcpo, 1))
    out.append(('hcp-oct-Ti', hcpo, 0))
    tet = crystal.Crystal(np.diag([1., 1., 1.5]) * a, [np.zeros(3), np.array([.5, .5, 0.]), np.array([0., 0., .5])])
    out.append(('tet3', tet, 0))
    tric = crystal.Crystal(np.array([[1., .3, .2], [0., 1.1, .4], [0., 0., .9]]),
                           [np.zeros(3), np.array([.31, .27, .45])])
    out.append(('triclinic2', tric, 0))
    mono = crystal.Crystal(np.array([[1., 0., .25], [0., 1.2, 0.], [0., 0., .8]]),
                           [np.zeros(3), np.array([.5, .5, 0.])])
    out.append(('mono2', mono, 0))
    rect = crystal.Crystal(np.array([[1., 0.], [0., 1.25]]), [np.zeros(2), np.array([.5, .25])])
    out.append(('rect2d-2', rect, 0))
    dimer = crystal.Crystal(np.eye(3) * 1., [np.zeros(3), np.array([.2, 0., 0.])])
    out.append(('dimer', dimer, 0))
    # multi-site, 2-D and low-symmetry cells early, so that a budget-limited quick run still sees them
    order = ['sc', 'hcp', 'honeycomb2d', 'fcc', 'b2', 'diamond', 'square2d', 'triclinic2', 'bcc', 'tri2d', 'hcp-oct',
             'tet3', 'mono2', 'rect2d-2', 'dimer', 'b2-B', 'hcp-oct-Ti']
    out.sort(key=lambda t: order.index(t[0]) if t[0] in order else len(order))
    return out


def random_crystal(rng):
    """A random rational cell: lattice entries k/4, 1..3 sites of the tracked chemistry on a k/6 or k/4 grid,
    sometimes a second chemistry; 2-D one time in four.  Returns (name, crys, chem) or None."""
    crystal, _ = _onsager()
    dim = 2 if rng.random() < 0.25 else 3
    kind = rng.choice(['ortho', 'skew', 'hex', 'cubicish'])
    for attempt in range(20):
        if kind == 'ortho':
            L = np.diag([rng.choice([1., 1.25, 1.5, .75]) for _ in range(dim)])
        elif kind == 'cubicish':
            L = np.eye(dim)
        elif kind == 'hex' and dim == 3:
            L = np.array([[.5, .5, 0.], [-np.sqrt(.75), np.sqrt(.75), 0.], [0., 0., rng.choice([1., 1.5, np.sqrt(8. / 3.)])]])
        elif kind == 'hex':
            L = np.array([[1., .5], [0., np.sqrt(.75)]])
        else:
            L = np.eye(dim) + np.triu(np.array([[rng.choice([0, .25, .5, -.25]) for _ in range(dim)]
                                                for _ in range(dim)]), 1)
            L = L @ np.diag([rng.choice([1., 1.25, .75]) for _ in range(dim)])
        nsite = rng.choice([1, 1, 2, 2, 3])
        grid = rng.choice([2, 3, 4, 6])
        pts = set()
        while len(pts) < nsite:
            pts.add(tuple(rng.randrange(grid) for _ in range(dim)))
        basis = [[np.array(p, dtype=float) / grid for p in sorted(pts)]]
        if rng.random() < 0.3:
            q = tuple(rng.randrange(grid) for _ in range(dim))
            if q not in pts:
                basis.append([np.array(q, dtype=float) / grid])
        try:
            crys = crystal.Crystal(L, basis)
        except Exception:
            continue
        name = 'rand-%s%dd-%s-g%d' % (kind, dim, '+'.join(str(len(b)) for b in crys.basis), grid)
        return name, crys, 0
    return None


# ---------------------------------------------------------------- exact extraction
class Inexact(Exception):
    pass


def _snap(x, maxden=5000, tol=1e-9):
    f = Fraction(float(x)).limit_denominator(maxden)
    if abs(float(f) - float(x)) > tol:
        raise Inexact('cannot snap %r' % (x,))
    return f


def _fr(f):
    return str(f.numerator) if f.denominator == 1 else '%d/%d' % (f.numerator, f.denominator)


def _pad(v, fill=0):
    v = list(v)
    return v + [fill] * (3 - len(v))


class Exact:
    """Exact lattice-coordinate data of (crys, chem): rational basis u, metric M, ops (rot, imap, shift)."""

    def __init__(self, crys, chem):
        self.crys, self.chem, self.dim = crys, chem, crys.dim
        d = self.dim
        self.n = len(crys.basis[chem])
        self.u = [[_snap(x) for x in _pad(u)] for u in crys.basis[chem]]
        M = [[_snap(crys.metric[a, b]) if (a < d and b < d) else Fraction(int(a == b)) for b in range(3)]
             for a in range(3)]
        self.M = M
        ops = []
        zero = np.zeros(d, dtype=int)
        for g in crys.G:
            rot = [[int(g.rot[a, b]) if (a < d and b < d) else int(a == b) for b in range(3)] for a in range(3)]
            imap = [int(x) for x in g.indexmap[chem]]
            shift = [_pad([int(x) for x in crys.g_pos(g, zero, (chem, i))[0]]) for i in range(self.n)]
            ops.append((tuple(map(tuple, rot)), tuple(imap), tuple(map(tuple, shift)), g))
        ops.sort(key=lambda o: o[:3])
        self.ops = [o[:3] for o in ops]
        self.gops = [o[3] for o in ops]

    # exact arithmetic mirrors (independent of the Lean model; used by the direct oracles)
    def act(self, op, s):
        rot, imap, shift = op
        i, j, R = s[0], s[1], s[2:]
        rR = [sum(rot[a][b] * R[b] for b in range(3)) for a in range(3)]
        return (imap[i], imap[j]) + tuple(rR[a] + shift[j][a] - shift[i][a] for a in range(3))

    def dx(self, s):
        return [Fraction(s[2 + a]) + self.u[s[1]][a] - self.u[s[0]][a] for a in range(3)]

    def x2(self, s):
        d = self.dx(s)
        return sum(d[a] * self.M[a][b] * d[b] for a in range(3) for b in range(3))

    def cart(self, dl):
        """lattice-coordinate rational vector -> Cartesian float"""
        v = np.array([float(x) for x in dl[:self.dim]])
        return np.dot(self.crys.lattice, v)

    def crys_line(self, thr):
        u = ';'.join(','.join(_fr(x) for x in ui) for ui in self.u)
        m = ' '.join(','.join(_fr(x) for x in row) for row in self.M)
        ops = ';'.join('%s:%s:%s' % (','.join(str(x) for r in rot for x in r), ','.join(map(str, imap)),
                                     ','.join(str(x) for sh in shift for x in sh))
                       for rot, imap, shift in self.ops)
        return 'crys %s %s %s %s' % (u, m, _fr(Fraction(thr).limit_denominator(10 ** 12)), ops)


def ps_key(PS):
    return (int(PS.i), int(PS.j)) + tuple(_pad([int(x) for x in PS.R]))


def show_states(keys):
    return '-' if not keys else ';'.join(','.join(map(str, k)) for k in keys)


def show_stars(stars):
    return '-' if not stars else '/'.join((show_states(s) if s else '_') for s in stars)


def parse_states(txt):
    return [] if txt == '-' else [tuple(int(x) for x in t.split(',')) for t in txt.split(';')]


def parse_stars(txt):
    return [] if txt == '-' else [([] if t == '_' else parse_states(t)) for t in txt.split('/')]


def canon_stars(stars):
    return sorted(tuple(sorted(s)) for s in stars)


def lattice_network(crys, chem, jn):
    """jump network ((i,j),dx) -> classes of (i,j,Rx,Ry,Rz) in lattice form"""
    out = []
    for cls in jn:
        c = []
        for (i, j), dx in cls:
            R = np.round(np.dot(crys.invlatt, dx) + crys.basis[chem][i] - crys.basis[chem][j]).astype(int)
            c.append((int(i), int(j)) + tuple(_pad([int(x) for x in R])))
        out.append(c)
    return out


def net_line(classes):
    return 'net ' + show_stars(classes)


def is_neg_closed(classes):
    flat = set(s for c in classes for s in c)
    return all((s[1], s[0], -s[2], -s[3], -s[4]) in flat for s in flat)


def ask_net(ctx, B, E, name, classes, kind):
    """ship the jump classes; the model answers the decidable hypotheses of the theorems (settingB, negClosedB) for
    them, which must agree with the harness's own exact classification of the network"""
    flat = [s for c in classes for s in c]
    want_setting = is_G_closed(E, flat) and not any(iszero(s) for s in flat)
    want_neg = is_neg_closed(classes)

    def cb(a, l):
        parts = a.split(' ')
        if len(parts) != 4 or parts[0] != 'ok' or int(parts[1]) != len(flat):
            ctx.disagree('net %s %s: model answered %s' % (name, kind, short(a, 80)), dict(crystal=name, request=short(l, 1500)))
        elif (parts[2] == '1') != want_setting or (parts[3] == '1') != want_neg:
            ctx.disagree('net %s %s: model says theorem hypotheses settingB=%s negClosedB=%s, harness classification %d/%d'
                         % (name, kind, parts[2], parts[3], want_setting, want_neg),
                         dict(crystal=name, request=short(l, 1500)), sig='setup:setting-test')
        ctx.count('hyp:setting=%s,neg=%s' % (parts[2] if len(parts) == 4 else '?', parts[3] if len(parts) == 4 else '?'))
    B.ask(net_line(classes), cb)


def neighbour_cutoffs(crys, chem, nmax=3):
    """cutoffs just above the 1st, 2nd, … neighbour distances between sites of `chem`"""
    d = crys.dim
    rng_ = range(-2, 3)
    dist = set()
    for u0 in crys.basis[chem]:
        for u1 in crys.basis[chem]:
            for n in itertools.product(rng_, repeat=d):
                dx = np.dot(crys.lattice, np.array(n) + u1 - u0)
                r = float(np.sqrt(np.dot(dx, dx)))
                if r > 1e-6: dist.add(round(r, 6))
    ds = sorted(dist)[:nmax]
    return [x * 1.001 + 1e-4 for x in ds]


def make_starset(E, classes, N, origin, lattice=True):
    """Real StarSet from lattice-form classes (optionally through the Cartesian input path)."""
    _, stars = _onsager()
    d = E.dim
    if lattice:
        jn = [[((i, j), np.array(R[:d], dtype=int)) for (i, j, *R) in cls] for cls in classes]
    else:
        jn = [[((i, j), np.dot(E.crys.lattice, np.array(R[:d]) + E.crys.basis[E.chem][j] - E.crys.basis[E.chem][i]))
               for (i, j, *R) in cls] for cls in classes]
    return stars.StarSet(jn, E.crys, E.chem, N, originstates=origin, lattice=lattice)


def impl_view(S):
    keys = [ps_key(s) for s in S.states]
    stars = [[keys[xi] for xi in star] for star in S.stars]
    return keys, stars


# ---------------------------------------------------------------- independent exact oracles
def reach(E, J, N, origin):
    """non-zero sums of 1..N chained jumps (walks may pass through zero), + origin states"""
    J = list(dict.fromkeys(J))
    out = set()
    if N > 0:
        cur = set(J)
        out |= cur
        for _ in range(N - 1):
            nxt = set()
            for s in cur:
                for t in J:
                    if s[1] == t[0]:
                        nxt.add((s[0], t[1], s[2] + t[2], s[3] + t[3], s[4] + t[4]))
            cur = nxt
            out |= cur
    zeros = {s for s in out if s[0] == s[1] and s[2:] == (0, 0, 0)}
    out -= {z for z in zeros if z not in J}   # a zero "jump" supplied by the caller stays (set(self.jumplist))
    if origin:
        out |= {(i, i, 0, 0, 0) for i in range(E.n)}
    return out


def iszero(s):
    return s[0] == s[1] and s[2:] == (0, 0, 0)


def orbit(E, s):
    return {E.act(op, s) for op in E.ops}


def oracle_stars(ctx, E, keys, stars, index, what, replay, closed=True, prefix='stars'):
    """Direct statement: stars partition the states into complete orbits (exact group action)."""
    n = len(keys)
    flat = [xi for st in stars for xi in st]
    if n == 0:
        return
    if sorted(flat) != list(range(n)):
        ctx.violation(prefix + ':not-a-partition', '%s: star index lists are not a partition of range(Nstates)' % what,
                      dict(replay, flat=sorted(flat)[:60], nstates=n))
        return
    pos = {k: xi for xi, k in enumerate(keys)}
    if len(pos) != n:
        ctx.violation(prefix + ':duplicate-state', '%s: a state is listed twice' % what, replay)
        return
    star_of = {}
    for si, st in enumerate(stars):
        for xi in st: star_of[xi] = si
    for si, st in enumerate(stars):
        rep = keys[st[0]]
        orb = orbit(E, rep)
        for xi in st:
            if keys[xi] not in orb:
                ctx.violation(prefix + ':star-mixes-orbits', '%s: star %d holds %s which is no symmetry image of %s'
                              % (what, si, keys[xi], rep), dict(replay, star=[keys[x] for x in st]))
                return
        for y in orb:
            if y in pos:
                if star_of[pos[y]] != si:
                    ctx.violation(prefix + ':orbit-split', '%s: %s and its image %s are in different stars (%d, %d)'
                                  % (what, rep, y, si, star_of[pos[y]]), replay)
                    return
            elif closed:
                ctx.violation(prefix + ':orbit-incomplete', '%s: image %s of state %s is missing from the state set'
                              % (what, y, rep), replay)
                return
    if index is not None:
        for xi in range(n):
            if int(index[xi]) != star_of[xi]:
                ctx.violation(prefix + ':index-wrong', '%s: index[%d]=%d but the state is in star %d'
                              % (what, xi, int(index[xi]), star_of[xi]), replay)
                return


def oracle_lookup(ctx, E, S, keys, what, replay, rng, probes=()):
    """stateindex / starindex / indexdict / __contains__ are consistent; `probes`: extra keys that must be reported
    as members exactly when they are states of S (e.g. the states of a sum, queried on the operand)"""
    crystal, stars = _onsager()
    if len(S.indexdict) != len(S.states):
        ctx.violation('lookup:indexdict-size', '%s: indexdict has %d entries for %d states' % (what, len(S.indexdict), len(S.states)), replay)
        return
    ks = set(keys)
    for k in probes:
        if k in ks: continue
        Q = stars.PairState.fromcrys_latt(E.crys, E.chem, (k[0], k[1]), np.array(k[2:2 + E.dim], dtype=int))
        got = (S.stateindex(Q), S.starindex(Q), Q in S)
        if got != (None, None, False):
            ctx.violation('lookup:phantom', '%s: non-member %s reported as %r' % (what, k, got), replay)
            return
    for xi, PS in enumerate(S.states):
        si = int(S.index[xi])
        # query with a fresh object (dx deliberately absent from equality)
        Q = stars.PairState(i=PS.i, j=PS.j, R=PS.R.copy(), dx=PS.dx.copy())
        if S.stateindex(Q) != xi or S.starindex(Q) != si or (Q not in S) or S.indexdict[Q] != (xi, si):
            ctx.violation('lookup:inconsistent', '%s: lookups for state %d %s give (%r,%r), expected (%d,%d)'
                          % (what, xi, keys[xi], S.stateindex(Q), S.starindex(Q), xi, si), replay)
            return
    kset = set(keys)
    d = E.dim
    for _ in range(10):
        i, j = rng.randrange(E.n), rng.randrange(E.n)
        R = [rng.randint(-4, 4) for _ in range(d)]
        k = (i, j) + tuple(_pad(R))
        Q = stars.PairState.fromcrys_latt(E.crys, E.chem, (i, j), np.array(R, dtype=int))
        got = (S.stateindex(Q), S.starindex(Q), Q in S)
        if k in kset:
            continue
        if got != (None, None, False):
            ctx.violation('lookup:phantom', '%s: non-member %s reported as %r' % (what, k, got), replay)
            return


def oracle_geometry(ctx, E, S, keys, what, replay):
    """dx is the Cartesian separation of the pair; states are ordered by |dx|^2"""
    scale = float(np.max(np.abs(E.crys.lattice)))
    last = -1.
    for PS, k in zip(S.states, keys):
        want = E.cart(E.dx(k))
        if not np.allclose(PS.dx, want, atol=1e-9 * scale * (1 + max(abs(x) for x in k[2:]))):
            ctx.violation('dx:not-separation', '%s: state %s carries dx=%s, geometry gives %s' % (what, k, PS.dx, want), replay)
            return
        x2 = float(np.dot(PS.dx, PS.dx))
        if x2 < last - 1e-9 * scale * scale * (1 + last):
            ctx.violation('order:not-sorted', '%s: states not ordered by |dx|^2 at %s' % (what, k), replay)
            return
        last = max(last, x2)


# ---------------------------------------------------------------- operands must not be mutated or aliased
def snapshot(S):
    """value fingerprint of everything observable on a StarSet"""
    keys = [ps_key(x) for x in S.states]
    return dict(Nshells=int(S.Nshells), Nstates=int(S.Nstates), Nstars=int(S.Nstars), states=keys,
                stars=[[int(x) for x in st] for st in S.stars], index=[int(x) for x in S.index],
                indexdict=sorted((ps_key(k), (int(v[0]), int(v[1]))) for k, v in S.indexdict.items()),
                jumplist=[ps_key(x) for x in S.jumplist], jni=[list(map(int, l)) for l in S.jumpnetwork_index])


def shares_storage(R, S):
    """names of mutable containers that result R shares with operand S"""
    out = []
    if R is S: return ['self']
    if R.states is S.states: out.append('states')
    if R.stars is S.stars or any(a is b for a in R.stars for b in S.stars): out.append('stars')
    if R.indexdict is S.indexdict: out.append('indexdict')
    if R.index is S.index or (len(R.index) and len(S.index) and np.shares_memory(R.index, S.index)): out.append('index')
    if R.jumplist is S.jumplist: out.append('jumplist')
    if R.jumpnetwork_index is S.jumpnetwork_index: out.append('jumpnetwork_index')
    return out


def check_operands(ctx, B, E, opname, operands, result, what, replay):
    """after a binary operation: every operand still has its value (snapshot), is internally consistent (lookups,
    also probed with the states of the result), shares no storage with the result, and still equals the model's
    generate(N, origin).  operands: list of (label, StarSet, snapshot_before, N, origin)"""
    rkeys = [ps_key(x) for x in result.states] if (result is not None and not isinstance(result, Exception)) else []
    for label, S, before, N, o in operands:
        w = '%s [operand %s after %s]' % (what, label, opname)
        after = snapshot(S)
        if after != before:
            diff = [k for k in before if before[k] != after[k]]
            ctx.violation('operand-mutated:%s:%s' % (opname, '+'.join(diff)), '%s: %s changed by the operation' % (w, diff),
                          dict(replay, operand=label, changed=diff))
            continue
        if rkeys and result is not S:
            sh = shares_storage(result, S)
            if sh:
                ctx.violation('operand-aliased:%s:%s' % (opname, '+'.join(sh)), '%s: result shares %s with the operand' % (w, sh),
                              dict(replay, operand=label, shared=sh))
                continue
        keys = after['states']
        oracle_lookup(ctx, E, S, keys, w, dict(replay, operand=label), ctx.rng, probes=rkeys)
        if B is not None and N is not None:
            B.ask('gen %d %d' % (N, int(o)), compare_starset(ctx, 'operand', '', w, S, dict(replay, operand=label)))


# ---------------------------------------------------------------- sessions
class Batch:
    """Collects request lines and the callbacks that judge the answers.  `flush()` closes the current session
    (one driver process per session, sessions start with a `crys` line); `finish()` runs all sessions on a
    thread pool and then the callbacks, in order."""
    WORKERS = 8

    def __init__(self, ctx, driver):
        self.ctx, self.driver, self.lines, self.cb, self.sessions = ctx, driver, [], [], []

    def ask(self, line, cb):
        self.lines.append(line); self.cb.append(cb)

    def flush(self):
        if self.lines:
            self.sessions.append((self.lines, self.cb))
        self.lines, self.cb = [], []

    def finish(self):
        self.flush()
        if not self.sessions: return
        from concurrent.futures import ThreadPoolExecutor
        with ThreadPoolExecutor(max_workers=self.WORKERS) as ex:
            futs = [ex.submit(self.ctx.lean, self.driver, lines) for lines, _ in self.sessions]
            answers = [f.result() for f in futs]
        for (lines, cbs), ans in zip(self.sessions, answers):
            for a, l, cb in zip(ans, lines, cbs):
                cb(a, l)
        self.sessions = []


def short(line, n=400):
    return line if len(line) <= n else line[:n] + '…(%d chars)' % len(line)


def setup_crystal(ctx, B, E, name, thr=1e-8):
    def cb(a, l):
        if a != 'ok 1 1':
            ctx.disagree('crystal %s: extracted ops fail the group / crystal-symmetry test in the model: %s' % (name, a),
                         dict(crystal=name, answer=a, request=short(l, 2000)), sig='setup:group-test')
    B.ask(E.crys_line(thr), cb)


def compare_starset(ctx, tag, name, what, S, replay):
    """returns callback comparing a model answer `ok N states stars` with a real StarSet (or exception)"""
    def cb(a, l):
        if isinstance(S, Exception):
            want = 'index-error' if isinstance(S, IndexError) else 'value-error' if isinstance(S, ValueError) \
                else 'other:' + type(S).__name__
            if a != want:
                ctx.disagree('%s %s: implementation raised %s, model says %s' % (tag, what, want, short(a, 80)),
                             dict(replay, impl=want, model=short(a)))
            return
        parts = a.split(' ')
        if parts[0] != 'ok' or len(parts) != 4:
            ctx.disagree('%s %s: model answered %s, implementation returned a StarSet' % (tag, what, short(a, 80)),
                         dict(replay, model=short(a)))
            return
        keys, stars = impl_view(S)
        mN, mstates, mstars = int(parts[1]), parse_states(parts[2]), parse_stars(parts[3])
        if mN != S.Nshells:
            ctx.disagree('%s %s: Nshells %d vs model %d' % (tag, what, S.Nshells, mN), replay)
        if sorted(mstates) != sorted(keys):
            ms, ks = set(mstates), set(keys)
            ctx.disagree('%s %s: state sets differ (impl-only %s, model-only %s)'
                         % (tag, what, sorted(ks - ms)[:4], sorted(ms - ks)[:4]), replay)
        elif canon_stars(mstars) != canon_stars(stars):
            ctx.disagree('%s %s: stars differ as sets of sets (impl %d stars, model %d)'
                         % (tag, what, len(stars), len(mstars)), replay)
    return cb


def check_impl_output(ctx, B, E, S, what, replay):
    """verified checkers on the implementation's actual output"""
    keys, stars = impl_view(S)
    if len(keys) == 0: return

    def cb1(a, l):
        if a != '1':
            ctx.disagree('%s: verified checker checkStars rejects the implementation\'s stars' % what, replay,
                         sig='checker:stars')

    def cb2(a, l):
        if a != '1':
            ctx.disagree('%s: verified checker checkIndex rejects the implementation\'s index' % what, replay,
                         sig='checker:index')
    B.ask('check %s %s' % (show_states(keys), show_stars(stars)), cb1)
    B.ask('checkidx %d %s %s' % (len(keys), ';'.join(','.join(str(int(x)) for x in st) if len(st) else '_' for st in S.stars),
                                 ','.join(str(int(x)) for x in S.index) or '-'), cb2)


def is_G_closed(E, J):
    Js = set(J)
    return all(E.act(op, s) in Js for s in Js for op in E.ops)


def is_proper(E, classes):
    """every class is closed under the group and under reversal, no jump is listed twice, none is zero:
    what crys.jumpnetwork produces (the domain of the statements about jump types)"""
    flat = [s for c in classes for s in c]
    if len(set(flat)) != len(flat) or any(iszero(s) for s in flat): return False
    for c in classes:
        cs = set(c)
        if any((s[1], s[0], -s[2], -s[3], -s[4]) not in cs for s in cs): return False
        if any(E.act(op, s) not in cs for s in cs for op in E.ops): return False
    return True


def malform(rng, E, classes):
    """a malformed variant of a valid network; returns (classes, kind)"""
    cl = [list(c) for c in classes]
    kind = rng.choice(['drop', 'dup', 'zero', 'extra', 'oneway'])
    flat = [(a, b) for a, c in enumerate(cl) for b in range(len(c))]
    if not flat: return cl, 'empty'
    a, b = rng.choice(flat)
    if kind == 'drop':
        cl[a].pop(b)
    elif kind == 'dup':
        cl[rng.randrange(len(cl))].append(cl[a][b])
    elif kind == 'zero':
        i = rng.randrange(E.n)
        cl[a].append((i, i, 0, 0, 0))
    elif kind == 'extra':
        i, j = rng.randrange(E.n), rng.randrange(E.n)
        R = _pad([rng.randint(-2, 2) for _ in range(E.dim)])
        if not (i == j and R == [0, 0, 0]):
            cl.append([(i, j) + tuple(R)])
    else:
        s = cl[a][b]
        neg = (s[1], s[0], -s[2], -s[3], -s[4])
        cl = [[t for t in c if t != neg] for c in cl]
    cl = [c for c in cl if c]
    return cl, kind


def one_case(ctx, B, E, name, classes, N, origin, lattice, kind, do_lookup=True):
    """generate: implementation vs oracles vs model"""
    J = [s for c in classes for s in c]
    replay = dict(crystal=name, chem=E.chem, lattice=repr(E.crys.lattice.tolist()),
                  basis=repr([[list(map(float, u)) for u in b] for b in E.crys.basis]),
                  jumpnetwork_lattice_form=classes, Nshells=N, originstates=origin, lattice_input=lattice, network=kind)
    what = '%s N=%d origin=%d %s' % (name, N, origin, kind)
    try:
        S = make_starset(E, classes, N, origin, lattice)
    except Exception as e:
        ctx.violation('generate:raises:' + type(e).__name__, '%s: StarSet construction raised %r' % (what, e), replay)
        return None
    keys, stars = impl_view(S)
    closed = is_G_closed(E, J)
    # direct oracles
    want = reach(E, J, N, origin)
    if set(keys) != want or len(keys) != len(set(keys)):
        ctx.violation('states:not-reachable-set', '%s: states differ from the non-zero sums of 1..N jumps: missing %s, extra %s'
                      % (what, sorted(want - set(keys))[:4], sorted(set(keys) - want)[:4]), replay)
    if len(keys):
        oracle_stars(ctx, E, keys, [list(map(int, s)) for s in S.stars], S.index, what, replay, closed=closed)
    elif S.stars != [[]]:
        ctx.violation('stars:empty-shape', '%s: empty star set has stars=%r' % (what, S.stars), replay)
    oracle_geometry(ctx, E, S, keys, what, replay)
    if do_lookup:
        oracle_lookup(ctx, E, S, keys, what, replay, ctx.rng)
    # model
    B.ask('gen %d %d' % (N, int(origin)), compare_starset(ctx, 'generate', name, what, S, replay))
    check_impl_output(ctx, B, E, S, what, replay)
    nontrivial = len(S.stars) >= 2 and (len(E.ops) > 1 or E.n > 1)
    ctx.case(('gen', name, E.chem, tuple(map(tuple, classes)), N, origin, lattice), nontrivial=nontrivial,
             sample=dict(case=what, nstates=len(keys), nstars=len(S.stars), ngroup=len(E.ops)))
    ctx.count('gen:' + kind); ctx.count('N=%d' % N); ctx.count('origin=%d' % origin)
    ctx.count('dim=%d' % E.dim); ctx.count('nsites=%d' % E.n); ctx.count('classes=%d' % len(classes))
    return S


def add_case(ctx, B, E, name, classes, N1, o1, N2, o2, kind):
    what = '%s S(%d,o=%d)+S(%d,o=%d) %s' % (name, N1, o1, N2, o2, kind)
    replay = dict(crystal=name, chem=E.chem, lattice=repr(E.crys.lattice.tolist()),
                  basis=repr([[list(map(float, u)) for u in b] for b in E.crys.basis]),
                  jumpnetwork_lattice_form=classes, N1=N1, origin1=o1, N2=N2, origin2=o2, network=kind)
    try:
        A = make_starset(E, classes, N1, o1)
        Bs = make_starset(E, classes, N2, o2)
    except Exception as e:
        ctx.violation('generate:raises:' + type(e).__name__, '%s: StarSet construction raised %r' % (what, e), replay)
        return
    J = [s for c in classes for s in c]
    closed = is_G_closed(E, J)
    snapA, snapB = snapshot(A), snapshot(Bs)
    try:
        S = A + Bs
    except Exception as e:
        S = e
        if o1 == o2 and N1 >= 1 and N2 >= 1:
            nonew = isinstance(e, IndexError) and reach(E, J, N1 + N2, o1) == reach(E, J, max(N1, N2), o1)
            ctx.violation('add:raises:' + type(e).__name__ + (':no-new-states' if nonew else ''),
                          '%s: adding two star sets raised %r instead of equalling generate(%d)' % (what, e, N1 + N2), replay)
    if not isinstance(S, Exception):
        keys, stars = impl_view(S)
        if o1 == o2:
            T = make_starset(E, classes, N1 + N2, o1)
            tk, ts = impl_view(T)
            if S.Nshells != T.Nshells or set(keys) != set(tk) or len(keys) != len(tk):
                ctx.violation('add:states-differ', '%s: sum has %d states / Nshells %d, generate(%d) has %d / %d; missing %s extra %s'
                              % (what, len(keys), S.Nshells, N1 + N2, len(tk), T.Nshells,
                                 sorted(set(tk) - set(keys))[:3], sorted(set(keys) - set(tk))[:3]), replay)
            elif closed and canon_stars(stars) != canon_stars(ts):
                ctx.violation('add:stars-differ', '%s: same states but different stars than generate(%d)' % (what, N1 + N2), replay)
        # (for a network that is not symmetry-closed the old and the new states of += can share an orbit; the
        #  property is about symmetric networks, so the orbit oracle is applied to those only)
        if len(keys) and closed:
            oracle_stars(ctx, E, keys, [list(map(int, s)) for s in S.stars], S.index, what, replay,
                         closed=True, prefix='add')
        oracle_lookup(ctx, E, S, keys, what, replay, ctx.rng)
        if closed: check_impl_output(ctx, B, E, S, what, replay)
    B.ask('add %d %d %d %d' % (N1, int(o1), N2, int(o2)), compare_starset(ctx, 'add', name, what, S, replay))
    check_operands(ctx, B, E, 'add', [('left', A, snapA, N1, o1), ('right', Bs, snapB, N2, o2)], S, what, replay)
    inplace_and_copy_case(ctx, B, E, name, classes, N1, o1, N2, o2, kind, what, replay, closed)
    ctx.case(('add', name, E.chem, tuple(map(tuple, classes)), N1, o1, N2, o2), nontrivial=not isinstance(S, Exception),
             sample=None)
    ctx.count('add:' + kind)


def inplace_and_copy_case(ctx, B, E, name, classes, N1, o1, N2, o2, kind, what, replay, closed):
    """`a += b` (right operand untouched, result = reachable set of N1+N2), and copy() followed by mutation of the copy
    (the original keeps its value and its lookups), in both directions"""
    J = [s for c in classes for s in c]
    try:
        A = make_starset(E, classes, N1, o1)
        Bs = make_starset(E, classes, N2, o2)
        snapB = snapshot(Bs)
        A += Bs
    except Exception as e:
        ctx.violation('iadd:raises:' + type(e).__name__, '%s [a += b] raised %r' % (what, e), replay)
        return
    keys = [ps_key(x) for x in A.states]
    if N1 >= 1 and N2 >= 1:
        want = reach(E, J, N1 + N2, o1)
        if set(keys) != want or len(keys) != len(set(keys)) or A.Nshells != N1 + N2:
            ctx.violation('iadd:states-differ', '%s [a += b]: Nshells %d, missing %s, extra %s'
                          % (what, A.Nshells, sorted(want - set(keys))[:3], sorted(set(keys) - want)[:3]), replay)
        elif closed and len(keys):
            oracle_stars(ctx, E, keys, [list(map(int, st)) for st in A.stars], A.index, what + ' [a += b]', replay,
                         closed=True, prefix='iadd')
    oracle_lookup(ctx, E, A, keys, what + ' [a += b]', replay, ctx.rng)
    check_operands(ctx, B, E, 'iadd', [('right', Bs, snapB, N2, o2)], A, what, replay)
    # copy, then mutate the copy in several ways; the original must be unaffected — and vice versa
    for mut in ('iadd', 'generate', 'diffgenerate'):
        try:
            O = make_starset(E, classes, N1, o1)
            snapO = snapshot(O)
            Cp = O.copy()
            if snapshot(Cp) != snapO:
                ctx.violation('copy:differs', '%s: copy() differs from the original' % what, replay); return
            sh = shares_storage(Cp, O)
            if sh:
                ctx.violation('operand-aliased:copy:%s' % '+'.join(sh), '%s: copy() shares %s with the original' % (what, sh),
                              dict(replay, shared=sh)); return
            if mut == 'iadd': Cp += Bs
            elif mut == 'generate': Cp.generate(N1 + 1, originstates=o1)
            else:
                if N1 < 1 or N2 < 1: continue
                Cp.diffgenerate(O, Bs)
        except Exception as e:
            ctx.violation('copy:raises:' + type(e).__name__, '%s: copy() then %s raised %r' % (what, mut, e), replay)
            return
        check_operands(ctx, None, E, 'copy-then-' + mut, [('original', O, snapO, N1, o1)], Cp, what, replay)
        ckeys = [ps_key(x) for x in Cp.states]
        oracle_lookup(ctx, E, Cp, ckeys, what + ' [copy then %s]' % mut, replay, ctx.rng, probes=snapO['states'])
    E0 = make_starset(E, classes, N1, o1).copy(empty=True)
    if E0.Nshells != 0 or len(E0.states) != 0:
        ctx.violation('copy:empty', '%s: copy(empty=True) is not empty' % what, replay)


def observe(E, S, probes, with_nets):
    """every observable of a StarSet in canonical (order-free) form: range, state set, stars as set of sets, the
    index array and indexdict read back as state -> star, the three look-ups for every probe (inside and outside the
    set), and the derived omega1 / omega2 networks (or the exception they raise)"""
    _, stars = _onsager()
    keys = [ps_key(x) for x in S.states]
    starsets = [frozenset(keys[xi] for xi in st) for st in S.stars]
    obs = dict(Nshells=int(S.Nshells), Nstates=int(S.Nstates), Nstars=int(S.Nstars), nstates_list=len(keys),
               states=frozenset(keys), stars=frozenset(starsets),
               index={keys[xi]: starsets[int(S.index[xi])] for xi in range(len(keys))} if len(S.index) == len(keys) else 'bad-length',
               indexdict={ps_key(k): (keys[v[0]] if 0 <= v[0] < len(keys) else ('out-of-range', v[0]),
                                      starsets[v[1]] if 0 <= v[1] < len(starsets) else ('out-of-range', v[1]))
                          for k, v in S.indexdict.items()})
    look = {}
    for k in probes:
        Q = stars.PairState.fromcrys_latt(E.crys, E.chem, (k[0], k[1]), np.array(k[2:2 + E.dim], dtype=int))
        xi, si = S.stateindex(Q), S.starindex(Q)
        look[k] = (None if xi is None else (keys[xi] if 0 <= xi < len(keys) else ('out-of-range', xi)),
                   None if si is None else (starsets[si] if 0 <= si < len(starsets) else ('out-of-range', si)),
                   Q in S)
    obs['lookups'] = look
    if with_nets:
        for nm in ('jumpnetwork_omega1', 'jumpnetwork_omega2'):
            try:
                trip = getattr(S, nm)()
                if trip == []:
                    obs[nm] = 'empty'
                else:
                    jn, jt, sp = trip
                    obs[nm] = frozenset((int(t), frozenset((None if i is None else keys[i], None if f is None else keys[f])
                                                           for (i, f), dx in cls),
                                         frozenset((starsets[int(p[0])], starsets[int(p[1])])))   # rep-independent
                                        for cls, t, p in zip(jn, jt, sp))
            except Exception as e:
                obs[nm] = 'raises:' + type(e).__name__
    return obs


def history_case(ctx, B, E, name, classes, kind, length):
    """ONE StarSet object driven through a random history of in-place operations (generate to a larger / smaller
    range with / without origin states, `+=`, diffgenerate, generate again).  After every step the reused object must be
    indistinguishable, through every observable (see `observe`), from a freshly built object for the same request; the
    probes are all states seen so far in the history (so states that left the set are queried too)."""
    rng = ctx.rng
    J = [s for c in classes for s in c]
    closed = is_G_closed(E, J)
    proper = is_proper(E, classes)
    base = dict(crystal=name, chem=E.chem, lattice=repr(E.crys.lattice.tolist()),
                basis=repr([[list(map(float, u)) for u in b] for b in E.crys.basis]),
                jumpnetwork_lattice_form=classes, network=kind)
    Nmax = 2 if ctx.quick else 3
    try:
        N0, o0 = rng.randint(0, Nmax), rng.random() < 0.5
        S = make_starset(E, classes, N0, o0)
    except Exception as e:
        ctx.violation('generate:raises:' + type(e).__name__, '%s %s: StarSet construction raised %r' % (name, kind, e), base)
        return
    hist = [('new', N0, int(o0))]
    state = ('gen', N0, o0)     # what a fresh object for the current content is
    seen = set(ps_key(x) for x in S.states)
    for step in range(length):
        r = rng.random()
        cur = int(S.Nshells)
        try:
            if r < 0.6 or state[0] != 'gen':
                # regenerate in place; the same Nshells is the documented no-op, so pick a different range
                N = rng.choice([n for n in range(0, Nmax + 1) if n != cur] or [cur + 1])
                o = rng.random() < 0.5
                S.generate(N, originstates=o)
                op, state = ('generate', N, int(o)), ('gen', N, o)
                F = make_starset(E, classes, N, o)
            elif r < 0.8:
                N2, o2 = rng.randint(1, 2), state[2] if rng.random() < 0.7 else (rng.random() < 0.5)
                if state[1] < 1 or state[1] + N2 > Nmax + 1: continue
                other = make_starset(E, classes, N2, o2)
                S += other
                op, state = ('iadd', N2, int(o2)), ('gen', state[1] + N2, state[2])
                F = make_starset(E, classes, state[1], state[2])
            else:
                N1, o1, N2, o2 = rng.randint(1, 2), rng.random() < 0.3, rng.randint(1, 2), rng.random() < 0.3
                A1, A2 = make_starset(E, classes, N1, o1), make_starset(E, classes, N2, o2)
                S.diffgenerate(A1, A2)
                op, state = ('diffgenerate', N1, int(o1), N2, int(o2)), ('diff',)
                F = make_starset(E, classes, 0, False)
                F.diffgenerate(make_starset(E, classes, N1, o1), make_starset(E, classes, N2, o2))
        except Exception as e:
            ctx.violation('history:raises:%s:%s' % (hist[-1][0] + '>' + 'op', type(e).__name__),
                          '%s %s: in-place history %s then next op raised %r' % (name, kind, hist, e), dict(base, history=hist))
            return
        hist.append(op)
        seen |= set(ps_key(x) for x in S.states) | set(ps_key(x) for x in F.states)
        probes = sorted(seen)
        if len(probes) > 400: probes = rng.sample(probes, 400)
        with_nets = state[0] == 'gen' and max(len(S.states), len(F.states)) <= (150 if ctx.quick else 400)
        oS, oF = observe(E, S, probes, with_nets), observe(E, F, probes, with_nets)
        # stars of `+=` agree with generate as sets of sets only for a symmetric network; nets only for proper ones
        skip = set()
        if op[0] == 'iadd' and not closed: skip |= {'stars', 'index', 'indexdict', 'lookups', 'Nstars',
                                                   'jumpnetwork_omega1', 'jumpnetwork_omega2'}
        if not proper: skip |= {'jumpnetwork_omega1', 'jumpnetwork_omega2'}
        bad = [k for k in oS if k not in skip and oS[k] != oF[k]]
        if op[0] == 'iadd' and not closed and not bad:
            # still: look-ups must agree on membership
            mem = lambda o: {k: (v[0] is not None, v[2]) for k, v in o['lookups'].items()}
            if mem(oS) != mem(oF): bad = ['lookups']
        if bad:
            detail = ''
            if 'lookups' in bad:
                k = next(k for k in oS['lookups'] if oS['lookups'][k] != oF['lookups'][k])
                detail = '; e.g. state %s: reused object answers (stateindex->%s, in=%s), fresh object (%s, in=%s)' % (
                    k, oS['lookups'][k][0], oS['lookups'][k][2], oF['lookups'][k][0], oF['lookups'][k][2])
            elif 'indexdict' in bad:
                extra = sorted(set(oS['indexdict']) - set(oF['indexdict']))[:3]
                detail = '; indexdict keys only in the reused object: %s' % extra
            else:
                detail = '; %s' % ', '.join('%s: %s vs %s' % (k, short(repr(oS[k]), 80), short(repr(oF[k]), 80)) for k in bad[:2])
            ctx.violation('history:%s>%s:%s' % (hist[-2][0], op[0], '+'.join(sorted(bad))),
                          '%s %s: after the in-place history %s the reused StarSet differs from a fresh one in %s%s'
                          % (name, kind, hist, sorted(bad), detail), dict(base, history=hist, differs=sorted(bad)))
            return
        ctx.count('history:%s>%s' % (hist[-2][0], op[0]))
        if op[0] == 'generate':
            ctx.count('history:range-' + ('shrinks' if op[1] < cur else 'grows'))
    # the final content also goes to the model when it is a plain generate
    if state[0] == 'gen' and B is not None and (closed or hist[-1][0] != 'iadd'):
        what = '%s %s history %s' % (name, kind, hist)
        B.ask('gen %d %d' % (state[1], int(state[2])), compare_starset(ctx, 'history', name, what, S, dict(base, history=hist)))
    ctx.case(('history', name, E.chem, tuple(map(tuple, classes)), tuple(hist)), nontrivial=len(hist) > 2,
             sample=dict(case='%s %s in-place history' % (name, kind), history=hist))


def diff_case(ctx, B, E, name, classes, N1, o1, N2, o2, kind):
    _, stars = _onsager()
    what = '%s diffgenerate(S(%d,o=%d),S(%d,o=%d)) %s' % (name, N1, o1, N2, o2, kind)
    replay = dict(crystal=name, chem=E.chem, lattice=repr(E.crys.lattice.tolist()),
                  basis=repr([[list(map(float, u)) for u in b] for b in E.crys.basis]),
                  jumpnetwork_lattice_form=classes, N1=N1, origin1=o1, N2=N2, origin2=o2, network=kind)
    try:
        A = make_starset(E, classes, N1, o1)
        Bs = make_starset(E, classes, N2, o2)
        D = make_starset(E, classes, 0, False)
    except Exception as e:
        ctx.violation('generate:raises:' + type(e).__name__, '%s: StarSet construction raised %r' % (what, e), replay)
        return
    J = [s for c in classes for s in c]
    snapA, snapB = snapshot(A), snapshot(Bs)
    try:
        D.diffgenerate(A, Bs)
        S = D
    except Exception as e:
        S = e
        if N1 >= 1 and N2 >= 1:
            ctx.violation('diff:raises:' + type(e).__name__, '%s raised %r' % (what, e), replay)
    if not isinstance(S, Exception):
        keys, sts = impl_view(S)
        ak, bk = [ps_key(s) for s in A.states], [ps_key(s) for s in Bs.states]
        want = {(s1[1], s2[1], s2[2] - s1[2], s2[3] - s1[3], s2[4] - s1[4]) for s1 in ak for s2 in bk if s1[0] == s2[0]}
        if set(keys) != want or len(keys) != len(set(keys)):
            ctx.violation('diff:not-endpoint-differences', '%s: missing %s, extra %s'
                          % (what, sorted(want - set(keys))[:3], sorted(set(keys) - want)[:3]), replay)
        if len(keys):
            oracle_stars(ctx, E, keys, [list(map(int, s)) for s in S.stars], S.index, what, replay,
                         closed=is_G_closed(E, J), prefix='diff')
        oracle_geometry(ctx, E, S, keys, what, replay)
        check_impl_output(ctx, B, E, S, what, replay)
    B.ask('diff %d %d %d %d' % (N1, int(o1), N2, int(o2)), compare_starset(ctx, 'diff', name, what, S, replay))
    check_operands(ctx, B, E, 'diffgenerate', [('S1', A, snapA, N1, o1), ('S2', Bs, snapB, N2, o2)], S, what, replay)
    ctx.case(('diff', name, E.chem, tuple(map(tuple, classes)), N1, o1, N2, o2), nontrivial=not isinstance(S, Exception))
    ctx.count('diff:' + kind)


def networks_for(E, rng, nmax=2):
    """valid jump networks of the crystal at neighbour cutoffs: list of (classes, label)"""
    cuts = neighbour_cutoffs(E.crys, E.chem, nmax=3)
    out = []
    for k, c in enumerate(cuts[:nmax]):
        jn = E.crys.jumpnetwork(E.chem, c)
        if not jn: continue
        cl = lattice_network(E.crys, E.chem, jn)
        if out and cl == out[-1][0]: continue
        out.append((cl, 'nn%d' % (k + 1)))
    return out


def _exact_or_note(ctx, crys, chem, name):
    try:
        return Exact(crys, chem)
    except Inexact as e:
        ctx.note('skipped %s: %s' % (name, e))
        return None


def run(ctx, search_mode=False):
    import time
    rng = ctx.rng
    t_run = time.time()
    B = Batch(ctx, DRIVER)
    crystals = list(zoo())
    nrand = (4 if ctx.quick else 40) * (3 if search_mode else 1)
    for _ in range(nrand):
        rc = random_crystal(rng)
        if rc is not None: crystals.append(rc)
    Nmax = 2 if ctx.quick else 3
    for ncrys, (name, crys, chem) in enumerate(crystals):
        if ncrys >= 4 and (time.time() - t_run > (25 if ctx.quick else 600) or ctx.budget_left() < (50 if ctx.quick else 500)):
            ctx.note('budget: stopped before ' + name); break
        E = _exact_or_note(ctx, crys, chem, name)
        if E is None: continue
        nets = networks_for(E, rng, nmax=2 if ctx.quick else 3)
        if not nets:
            continue
        setup_crystal(ctx, B, E, name)
        for classes, label in nets:
            njump = sum(len(c) for c in classes)
            big = njump * E.n > 40
            variants = [(classes, label)]
            for _ in range(1 if ctx.quick else 2):
                m, kind = malform(rng, E, classes)
                if m: variants.append((m, label + '-mal-' + kind))
            for cl, kind in variants:
                ask_net(ctx, B, E, name, cl, kind)
                Ns = [0, 1, 2] if ctx.quick else [0, 1, 2, 3]
                if big and ctx.quick and kind != label: Ns = [1, 2]
                for N in Ns:
                    if N == 3 and njump > 20 and rng.random() < 0.5: continue
                    for origin in ((False, True) if (N <= 1 or rng.random() < 0.6) else (rng.random() < 0.5,)):
                        one_case(ctx, B, E, name, cl, N, origin, lattice=(rng.random() < 0.7), kind=kind,
                                 do_lookup=(N <= 2))
                # add / diff
                pairs = [(1, 1), (2, 1), (1, 2)] if Nmax >= 3 else [(1, 1)]
                if not ctx.quick: pairs += [(2, 2)] if njump <= 14 else []
                pairs += [(0, 1), (1, 0)] if rng.random() < 0.3 else []
                for (N1, N2) in pairs:
                    o = rng.random() < 0.5
                    add_case(ctx, B, E, name, cl, N1, o, N2, o, kind)
                    if rng.random() < 0.3:
                        add_case(ctx, B, E, name, cl, N1, o, N2, not o, kind)
                for _ in range(2 if ctx.quick else 4):
                    history_case(ctx, B, E, name, cl, kind, length=5 if ctx.quick else 8)
                for (N1, N2) in ([(1, 1)] if ctx.quick else [(1, 1), (2, 1), (1, 2)]):
                    diff_case(ctx, B, E, name, cl, N1, rng.random() < 0.3, N2, rng.random() < 0.3, kind)
        B.flush()
    B.finish()


def search(ctx, reasons):
    """Failing-input search: more random crystals and malformed networks, oracles + model."""
    run(ctx, search_mode=True)
