"""
C09 — Equivalent descriptions of the same crystal give the same transport.

Lean: OnsagerProofs/C09.lean `equiv_form_eq` (a site bijection carrying the projected network of one description onto
that of the other implies equal exact transport forms; decidable hypothesis evaluated by Drive/C09.lean on the real
networks), resting on Var.Qmin_relabel.  Tie: each crystal is re-described (unimodular change of lattice vectors, atom
permutation, non-reduced supercell / conventional cell kept with noreduce=True); data are assigned by physical
(Cartesian) equivalence; Interstitial.diffusivity and VacancyMediated.Lij are compared across descriptions and, for the
interstitial case, with the exact model of every description.
"""
import math, itertools
from fractions import Fraction
import numpy as np
import interstitial_common as ic

META = dict(
    id='C09',
    lean_modules=['OnsagerProofs.Lemmas.Variational', 'OnsagerProofs.Lemmas.Cover', 'OnsagerModel.C02', 'OnsagerModel.C03', 'OnsagerModel.C09', 'OnsagerProofs.C02',
                  'OnsagerProofs.C03', 'OnsagerProofs.C09'],
    theorems=['Onsager.Var.Qmin_relabel', 'Onsager.Var.Qmin_cover', 'Onsager.C09.equiv_form_eq', 'Onsager.C09.cover_form_eq'],
    tie_theorems=[],
    level_text='Partial. Kernel-checked: (i) two descriptions with the same number of sites per cell whose projected networks are carried '
               'onto each other by a site bijection (atom permutation, unimodular change of lattice vectors) have equal exact '
               'transport forms (equiv_form_eq); (ii) a description with m times as many sites per cell (supercell, conventional cell) '
               'that covers the primitive one - every site has m preimages and the jumps leaving a site are those of its image with '
               'the per-cell probability divided by m - has the same exact transport form (cover_form_eq, from the covering lemma '
               'Var.Qmin_cover). The driver decides both hypotheses on the real networks of the implementation. '
               'Vacancy-mediated coefficients are compared through the implementation at Green-function accuracy only.',
    level_note='Trusted: Lean kernel + standard axioms; the Cartesian matching of sites and jump classes between descriptions (harness).',
    technique='Lean 4 relabelling theorem + decidable network-equivalence check + differential runs across descriptions',
    rule='crystals (FCC/BCC/HCP/SC hosts with interstitials, multi-site, 2-D) x re-descriptions (random unimodular basis, atom '
         'permutation, supercell det 2-4 kept with noreduce, supercell det 2-4 with shuffled atoms handed to the reducing constructor) x random data assigned by Cartesian equivalence; non-trivial = the lattice '
         'vectors or the site order really differ; distinct by (crystal, re-description, data)',
    trusted=[], assumptions=[],
)


def _unimodular(rng, dim):
    U = np.eye(dim, dtype=int)
    for _ in range(3):
        i, j = rng.sample(range(dim), 2)
        E = np.eye(dim, dtype=int); E[i, j] = rng.choice([-2, -1, 1, 2])
        U = U @ E
    if rng.random() < 0.3:
        P = np.eye(dim, dtype=int)[list(rng.sample(range(dim), dim))]
        U = U @ P
        if round(np.linalg.det(U)) < 0: U[:, 0] = -U[:, 0]
    return U


def redescribe(rng, crys, kind):
    """-> new crystal describing the same structure."""
    from onsager import crystal
    dim = crys.dim
    if kind == 'unimodular':
        U = _unimodular(rng, dim)
        L2 = crys.lattice @ U
        Ui = np.linalg.inv(U)
        basis = [[crystal.incell(Ui @ u) for u in atoms] for atoms in crys.basis]
        return crystal.Crystal(L2, basis, chemistry=crys.chemistry, noreduce=(rng.random() < 0.5))
    if kind == 'permute':
        basis = []
        for atoms in crys.basis:
            p = list(range(len(atoms))); rng.shuffle(p)
            basis.append([atoms[k] for k in p])
        return crystal.Crystal(crys.lattice, basis, chemistry=crys.chemistry)
    if kind in ('supercell', 'reduce'):
        while True:
            S = np.diag([rng.choice([1, 2]) for _ in range(dim)]).astype(int)
            S[0, 1] = rng.choice([0, 1])
            det = int(round(abs(np.linalg.det(S))))
            if 2 <= det <= 4: break
        L2 = crys.lattice @ S
        Si = np.linalg.inv(S)
        shifts = [np.array(n) for n in itertools.product(range(3), repeat=dim)]
        basis = []
        for atoms in crys.basis:
            new = []
            for u in atoms:
                for n in shifts:
                    v = crystal.incell(Si @ (u + n))
                    if not any(np.allclose(crystal.inhalf(v - w), 0, atol=1e-8) for w in new): new.append(v)
            if kind == 'reduce':
                # atom order as a user might list it: shuffled, ascending or descending in the first coordinate
                how = rng.choice(['shuffle', 'asc', 'desc', 'desc'])
                if how == 'shuffle': rng.shuffle(new)
                else: new.sort(key=lambda v: tuple(np.round(v, 9)), reverse=(how == 'desc'))
            basis.append(new)
        # 'reduce': the constructor must find the primitive cell again; 'supercell': the non-primitive cell is kept as given
        return crystal.Crystal(L2, basis, chemistry=crys.chemistry, noreduce=(kind == 'supercell'))
    raise ValueError(kind)


def cart_site(crys, chem, i):
    return crys.lattice @ crys.basis[chem][i]


def same_mod(crys, x, y):
    """Cartesian points equal modulo the lattice of `crys`."""
    d = crys.invlatt @ (x - y)
    return np.allclose(d - np.round(d), 0, atol=1e-7)


def find_shift(c1, c2, chem):
    """Crystal() may re-centre the basis: rigid shift t with (sites of c2) - t == (sites of c1) modulo lattice 1."""
    x0 = cart_site(c2, chem, 0)
    for i in range(len(c1.basis[chem])):
        t = x0 - cart_site(c1, chem, i)
        if all(any(same_mod(c1, cart_site(c2, chem, k) - t, cart_site(c1, chem, m)) for m in range(len(c1.basis[chem])))
               for k in range(len(c2.basis[chem]))):
            return t
    return None


def match_data(c1, chem, sl1, jn1, data, c2, sl2, jn2, shift=0.):
    """Assign the class data of description 1 to the classes of description 2 by Cartesian equivalence (mod lattice 1,
    the finer one).  Returns the data dict for description 2 or None if a class has no unique physical counterpart, an original class is missing, or the jump count is wrong."""
    site_of = {}
    for w2, sites in enumerate(sl2):
        x2 = cart_site(c2, chem, sites[0]) - shift
        hit = [w1 for w1, s1 in enumerate(sl1) if any(same_mod(c1, cart_site(c1, chem, i), x2) for i in s1)]
        if len(hit) != 1: return None
        site_of[w2] = hit[0]
    cls_of = {}
    for k2, cls in enumerate(jn2):
        (i2, j2), dx2 = cls[0]
        x2 = cart_site(c2, chem, i2) - shift
        hit = []
        for k1, cl1 in enumerate(jn1):
            if any(np.allclose(dx1, dx2, atol=1e-7) and same_mod(c1, cart_site(c1, chem, i1), x2) for (i1, j1), dx1 in cl1): hit.append(k1)
        if len(hit) != 1: return None
        cls_of[k2] = hit[0]
    # many-to-one is fine (a supercell that breaks the point symmetry splits classes); every original class must be hit
    if sorted(set(cls_of.values())) != list(range(len(jn1))) or sorted(set(site_of.values())) != list(range(len(sl1))): return None
    if sum(len(c) for c in jn2) * len(c1.basis[chem]) != sum(len(c) for c in jn1) * len(c2.basis[chem]): return None
    return dict(q=data['q'], pre=[data['pre'][site_of[w]] for w in range(len(sl2))], ene=[data['ene'][site_of[w]] for w in range(len(sl2))],
                preT=[data['preT'][cls_of[k]] for k in range(len(jn2))], eneT=[data['eneT'][cls_of[k]] for k in range(len(jn2))])


def run(ctx):
    from onsager import OnsagerCalc
    rng = ctx.rng
    nets = ic.networks()
    ncase = 22 if ctx.quick else 300
    lines, plan = [], []
    for t in range(ncase):
        name, c1, chem, sl1, jn1 = nets[t % len(nets)]
        kind = ('unimodular', 'permute', 'supercell', 'reduce')[(t + t // len(nets)) % 4]
        if c1.dim == 2 and kind == 'supercell' and name.startswith('honey'): kind = 'permute'
        cutoff = max(np.sqrt(np.dot(dx, dx)) for cls in jn1 for (ij, dx) in cls) * (1 + 1e-6) + 1e-9
        try:
            c2 = redescribe(rng, c1, kind)
        except Exception as e:
            ctx.violation('redescription-raises:%s:%s' % (kind, type(e).__name__), 'Crystal() raised %r on an equivalent description (%s of %s)' % (e, kind, name),
                          dict(network=name, kind=kind)); continue
        sl2 = c2.sitelist(chem); jn2 = c2.jumpnetwork(chem, cutoff)
        seen = set()
        dup = 0
        for cls in jn2:
            for (i, j), dx in cls:
                key = (i, j, tuple(np.round(dx, 6)))
                dup += key in seen; seen.add(key)
        if dup:
            ctx.case((name, kind, str(c2.lattice.tolist())), nontrivial=True); ctx.count('kind:%s:duplicate-jumps' % kind)
            ctx.violation('duplicate-jumps:%s' % kind, 'jump network of the %s re-description of %s lists %d jumps twice (%d entries): the operations reported for a '
                          'non-primitive cell are not closed under multiplication, so symmetry expansion overlaps' % (kind, name, dup, sum(len(c) for c in jn2)),
                          dict(network=name, kind=kind, lattice2=c2.lattice.tolist(), basis2=[[u.tolist() for u in a] for a in c2.basis], cutoff=float(cutoff)))
            continue
        data = ic.rand_data(rng, len(sl1), len(jn1), emax=3)
        shift = find_shift(c1, c2, chem)
        data2 = None if shift is None else match_data(c1, chem, sl1, jn1, data, c2, sl2, jn2, shift)
        rep = dict(network=name, kind=kind, lattice2=c2.lattice.tolist(), basis2=[[u.tolist() for u in a] for a in c2.basis],
                   data={k: str(v) for k, v in data.items()})
        ctx.case((name, kind, str(c2.lattice.tolist()), str(data)), nontrivial=True, sample=dict(network=name, kind=kind, lattice2=c2.lattice.tolist()))
        ctx.count('kind:' + kind)
        if data2 is None:
            n1 = sum(len(c) for c in jn1) * (len(c2.basis[chem]) // max(1, len(c1.basis[chem])))
            n2 = sum(len(c) for c in jn2)
            ctx.violation('classes-differ:%s' % kind, 'the %s re-description of %s has sites/jumps without a unique physical counterpart (%d Wyckoff sets, %d classes, %d jumps; '
                          'original %d, %d, expected %d jumps): jump network lost or spurious' % (kind, name, len(sl2), len(jn2), n2, len(sl1), len(jn1), n1), rep)
            continue
        d1 = OnsagerCalc.Interstitial(c1, chem, sl1, jn1); d2 = OnsagerCalc.Interstitial(c2, chem, sl2, jn2)
        D1 = d1.diffusivity(*ic.py_args(data)); D2 = d2.diffusivity(*ic.py_args(data2))
        scale = np.abs(D1).max(); tol = 1e-9 * scale + 1e-13 * scale * min(ic.rate_spread(data), 1e9)
        if np.abs(D1 - D2).max() > tol:
            ctx.violation('interstitial-differs:%s' % kind, 'diffusivity differs by %.3g (tol %.3g) between %s and its %s re-description' % (np.abs(D1 - D2).max(), tol, name, kind),
                          dict(rep, D1=D1.tolist(), D2=D2.tolist()))
        # exact model of both descriptions
        r1 = ic.request_line(d1.N, c1.dim, d1.invmap, ic.lattice_jumps(c1, jn1), data)
        r2 = ic.request_line(d2.N, c2.dim, d2.invmap, ic.lattice_jumps(c2, jn2), data2)
        if d1.N == d2.N:
            U = np.round(c1.invlatt @ c2.lattice).astype(int)
            u = [Fraction(rng.randint(-3, 3)) for _ in range(c1.dim)]
            if all(x == 0 for x in u): u[0] = Fraction(1)
            u2 = [sum(Fraction(int(U[b, a])) * u[b] for b in range(c1.dim)) for a in range(c1.dim)]
            perm = []
            for i in range(d1.N):
                x = cart_site(c1, chem, i)
                perm.append(next(k for k in range(d2.N) if same_mod(c1, cart_site(c2, chem, k) - shift, x)))
            lines.append('%s ; %s ; %s # %s # %s' % (','.join(ic.fr(x) for x in u), ','.join(ic.fr(x) for x in u2), ','.join(map(str, perm)), r1, r2))
            plan.append(('equiv', name, kind, c1, c2, D1, tol, rep))
        elif d2.N % d1.N == 0 and d2.N > d1.N:
            # supercell / conventional cell: covering map site-of-2 -> site-of-1, hypothesis of cover_form_eq decided by the driver
            U = np.round(c1.invlatt @ c2.lattice).astype(int)
            u = [Fraction(rng.randint(-3, 3)) for _ in range(c1.dim)]
            if all(x == 0 for x in u): u[0] = Fraction(1)
            u2 = [sum(Fraction(int(U[b, a])) * u[b] for b in range(c1.dim)) for a in range(c1.dim)]
            proj = [next(i for i in range(d1.N) if same_mod(c1, cart_site(c2, chem, k) - shift, cart_site(c1, chem, i))) for k in range(d2.N)]
            lines.append('%s ; %s ; %s ; %d # %s # %s' % (','.join(ic.fr(x) for x in u), ','.join(ic.fr(x) for x in u2), ','.join(map(str, proj)),
                                                       d2.N // d1.N, r1, r2))
            plan.append(('cover', name, kind, c1, c2, D1, tol, rep))
        else:
            lines.append('0 ; 0 ; 0 # %s # %s' % (r1, r1)); plan.append(('skip', name, kind, c1, c2, D1, tol, rep))
    answers = ctx.lean('Drive/C09.lean', lines, timeout=3000)
    for (what, name, kind, c1, c2, D1, tol, rep), ans in zip(plan, answers):
        if what == 'skip': continue
        parts = ans.split()
        ctx.count(('equivcheck:' if what == 'equiv' else 'covercheck:') + (parts[0] if parts else '?'))
        if len(parts) != 3 or parts[0] != '1':
            ctx.disagree('the networks of %s and its %s re-description are not carried onto each other by the Cartesian site matching: %s' % (name, kind, ans), rep)
        elif parts[1] != parts[2]:
            ctx.disagree('exact model: transport forms differ although %s accepted (contradicts %s)' % (('equivcheck', 'equiv_form_eq') if what == 'equiv' else ('covercheck', 'cover_form_eq')), dict(rep, ans=ans))
    vacancy_part(ctx)
    vacancy_permute_part(ctx)


def vacancy_permute_part(ctx):
    """The same crystal with the atoms of the vacancy sublattice listed in another order (so that site numbers, the order
    and the composition by index of the Wyckoff sets change): data given through tags, which name positions, must give the
    same four tensors."""
    from onsager import OnsagerCalc, crystal
    import vacancy_common as vc
    from props.c07 import user_tags
    rng = ctx.rng
    names = ['omegaR', 'twoW', 'hcp'] if ctx.quick else ['omegaR', 'twoW', 'hcp', 'rumpled', 'rect2d-2site', 'honey2d', 'fcc']
    for name in names:
        c1, chem, cutoff = vc.crystals()[name]
        calc1 = vc.calculator(name, 1)
        n = len(c1.basis[chem])
        perms = [p for p in itertools.permutations(range(n)) if p != tuple(range(n))] or [tuple(range(n))]
        for t in range(1 if ctx.quick else 2):
            perm = rng.choice(perms)
            key = ('vperm', name, perm)
            if key not in ic._CACHE:
                basis = [list(a) for a in c1.basis]; basis[chem] = [c1.basis[chem][k] for k in perm]
                try:
                    c2 = crystal.Crystal(c1.lattice, basis, chemistry=c1.chemistry)
                    ic._CACHE[key] = OnsagerCalc.VacancyMediated(c2, chem, c2.sitelist(chem), c2.jumpnetwork(chem, cutoff), 1, NGFmax=4)
                except Exception as e:
                    ctx.violation('redescription-raises:vacancy-permute:%s' % type(e).__name__, 'VacancyMediated raised %r on %s with its atoms listed in the order %s' % (e, name, perm),
                                  dict(crystal=name, perm=list(perm))); continue
            calc2 = ic._CACHE[key]
            ut = user_tags(rng, calc1)
            rep = dict(crystal=name, perm=list(perm), sitelist1=[list(map(int, s_)) for s_ in calc1.sitelist], sitelist2=[list(map(int, s_)) for s_ in calc2.sitelist],
                       usertags={k: list(v) for k, v in ut.items()})
            ctx.case(('vperm', name, perm, t, str(sorted(ut.items()))[:200]), nontrivial=True, sample=dict(crystal=name, perm=list(perm), sitelist2=rep['sitelist2']))
            ctx.count('vacancy-permute:' + name)
            try:
                d1 = calc1.tags2preene(ut); d2 = calc2.tags2preene(ut)
                L1 = vc.lij(calc1, d1); L2 = vc.lij(calc2, d2)
            except Exception as e:
                ctx.violation('redescription-raises:vacancy-permute:%s' % type(e).__name__, 'tags2preene / Lij raised %r on the permuted description of %s' % (e, name), rep); continue
            sc = max(np.abs(x).max() for x in L1)
            for a, b, lab in zip(L1, L2, ('L0vv', 'Lss', 'Lsv', 'L1vv')):
                dev = np.abs(np.asarray(a) - np.asarray(b)).max()
                if not np.all(np.isfinite(b)) or dev > 1e-8 * sc:
                    ctx.violation('vacancy-differs:permute:%s' % lab, '%s differs by %.3g (scale %.3g) between %s and the same crystal with its atoms listed in the order %s '
                                  '(site lists %s / %s), same tag data' % (lab, dev, sc, name, list(perm), rep['sitelist1'], rep['sitelist2']),
                                  dict(rep, L1=np.asarray(a).tolist(), L2=np.asarray(b).tolist()))


def vacancy_part(ctx):
    """FCC / BCC / SC / square / triangular hosts under unimodular re-description: all four tensors equal within GF accuracy."""
    from onsager import OnsagerCalc, crystal
    import vacancy_common as vc
    rng = ctx.rng
    names = ['fcc', 'sq2d'] if ctx.quick else ['fcc', 'bcc', 'sc', 'sq2d', 'tri2d']
    for name in names:
        c1, chem, cutoff = vc.crystals()[name]
        calc1 = vc.calculator(name, 1); calc1b = vc.calculator(name, 1, 6)
        for t in range(1 if ctx.quick else 2):
            try:
                # moderately skewed cells only: for strongly skewed non-reduced cells the k-point mesh of the Green function is so
                # anisotropic that |result(NGFmax=4) - result(NGFmax=6)| no longer measures its accuracy (sq2d described by
                # [[2,1],[-7,-3]]: 5e-4 off at NGFmax 4 and 6 alike, converging only from 8 on); that accuracy is C10's subject
                for attempt in range(20):
                    c2 = redescribe(rng, c1, 'unimodular')
                    if np.linalg.cond(c2.lattice) <= 6 * np.linalg.cond(c1.lattice): break
                calc2 = OnsagerCalc.VacancyMediated(c2, chem, c2.sitelist(chem), c2.jumpnetwork(chem, cutoff), 1, NGFmax=4)
                calc2b = OnsagerCalc.VacancyMediated(c2, chem, c2.sitelist(chem), c2.jumpnetwork(chem, cutoff), 1, NGFmax=6)
            except Exception as e:
                ctx.violation('redescription-raises:vacancy:%s' % type(e).__name__, 'VacancyMediated raised %r on a unimodular re-description of %s' % (e, name), dict(crystal=name)); continue
            d = vc.rand_data(rng, calc1)
            # class matching by invariant descriptors (|dx_i|^2, |dx_f|^2) of the representative pair of states
            def desc(calc, jn):
                out = []
                for cls in jn:
                    (si, sf), dx = cls[0]
                    a, b = calc.kinetic.states[si].dx, calc.kinetic.states[sf].dx
                    out.append(tuple(sorted([round(float(a @ a), 6), round(float(b @ b), 6)])) + (round(float(dx @ dx), 6),))
                return out
            k1, k2 = desc(calc1, calc1.om1_jn), desc(calc2, calc2.om1_jn)
            ctx.case(('vac', name, t, str(c2.lattice.tolist())), nontrivial=True); ctx.count('vacancy:' + name)
            if sorted(k1) != sorted(k2) or len(set(k1)) != len(k1) or len(calc1.om2_jn) != 1 or len(calc2.om2_jn) != 1 or calc1.thermo.Nstars != 1:
                if sorted(k1) != sorted(k2):
                    ctx.violation('classes-differ:vacancy', 'omega1 classes of %s differ between equivalent descriptions: %s vs %s' % (name, sorted(k1), sorted(k2)),
                                  dict(crystal=name, lattice2=c2.lattice.tolist()))
                continue
            d2 = dict(d); order = [k1.index(k) for k in k2]
            d2['preT1'] = d['preT1'][order]; d2['eneT1'] = d['eneT1'][order]
            L1 = vc.lij(calc1, d); L2 = vc.lij(calc2, d2); L1b = vc.lij(calc1b, d); L2b = vc.lij(calc2b, d2)
            sc = max(np.abs(x).max() for x in L1)
            for a, b, c, e, lab in zip(L1, L2, L1b, L2b, ('L0vv', 'Lss', 'Lsv', 'L1vv')):
                # Green-function integration accuracy of BOTH descriptions (the k-mesh of a skewed cell is coarser)
                tol = 1e-6 * sc + 10 * max(np.abs(np.asarray(a) - np.asarray(c)).max(), np.abs(np.asarray(b) - np.asarray(e)).max())
                dev = np.abs(np.asarray(a) - np.asarray(b)).max()
                if dev > tol:
                    ctx.violation('vacancy-differs:%s' % lab, '%s differs by %.3g (tol %.3g) between %s and a unimodular re-description' % (lab, dev, tol, name),
                                  dict(crystal=name, lattice2=c2.lattice.tolist(), data=vc.jsonable(d), L1=np.asarray(a).tolist(), L2=np.asarray(b).tolist()))


def search(ctx, reasons):
    pass
