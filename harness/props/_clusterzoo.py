"""
Shared helpers of the C32 / C34 checks (cluster-expansion evaluators, kinetic barriers):
crystal zoo with spectator + mobile sublattices, supercell shapes, canonical text export of
clusters / tables for the Lean drivers, the harness's own position-based brute force, and the
geometric "wrap" test (two distinct sites of one cluster-plus-jump environment are periodic images
of each other in the supercell).  No randomness here: callers pass a numpy Generator.
"""
import itertools
from fractions import Fraction
import numpy as np


# ------------------------------------------------------------------ zoo
_ZOO = None


def zoo():
    """(name, crystal, spectator chemistries, jumping chemistry, cluster cutoff, jump cutoff); built once per process."""
    global _ZOO
    if _ZOO is None: _ZOO = _zoo()
    return _ZOO


def _zoo():
    from onsager import crystal
    Z = []
    c = 5.0   # long third axis: layers do not interact (ClusterSupercell is 3-d only)
    Z.append(('SC', crystal.Crystal(np.eye(3), [np.zeros(3)], ['A']), [], 0, 1.01, 1.01))
    fcc = crystal.Crystal.FCC(1., 'A')
    Z.append(('FCC', fcc, [], 0, 0.8, 0.8))
    Z.append(('BCC', crystal.Crystal.BCC(1., 'A'), [], 0, 0.9, 0.9))
    Z.append(('HCP', crystal.Crystal.HCP(1., chemistry='A'), [], 0, 1.01, 1.01))
    Z.append(('B2', crystal.Crystal(np.eye(3), [[np.zeros(3)], [np.array([.5, .5, .5])]], ['A', 'B']),
              [0], 1, 1.01, 1.01))
    Z.append(('B2d', crystal.Crystal(np.eye(3), [[np.zeros(3)], [np.array([.55, .55, .55])]], ['A', 'B']),
              [0], 1, 1.2, 1.01))
    Z.append(('DIA', crystal.Crystal(fcc.lattice, [np.zeros(3), np.array([.25, .25, .25])], ['C']),
              [], 0, 0.45, 0.45))
    rs = crystal.Crystal(fcc.lattice, [[np.zeros(3)], [np.array([.5, .5, .5])]], ['Na', 'Cl'])
    Z.append(('RS', rs, [0], 1, 0.75, 0.75))
    Z.append(('RSm', rs, [], 1, 0.55, 0.75))      # both sublattices mobile, one of them jumps
    Z.append(('SQ2d', crystal.Crystal(np.diag([1, 1, c]), [np.zeros(3)], ['A']), [], 0, 1.01, 1.01))
    tri = np.array([[1, 0.5, 0], [0, np.sqrt(3) / 2, 0], [0, 0, c]])
    Z.append(('TRI2d', crystal.Crystal(tri, [np.zeros(3)], ['A']), [], 0, 1.01, 1.01))
    Z.append(('HON2d', crystal.Crystal(tri, [np.array([1 / 3, 1 / 3, 0]), np.array([2 / 3, 2 / 3, 0])], ['A']),
              [], 0, 0.6, 0.6))
    Z.append(('HONs2d', crystal.Crystal(tri, [[np.array([1 / 3, 1 / 3, 0]), np.array([2 / 3, 2 / 3, 0])],
                                              [np.zeros(3)]], ['A', 'S']), [1], 0, 0.6, 0.6))
    Z.append(('CHAIN', crystal.Crystal(np.diag([1, c, c + 1]), [[np.zeros(3)], [np.array([.5, .1, .05])]], ['A', 'S']),
              [1], 0, 1.01, 1.01))
    Z.append(('CHAIN2', crystal.Crystal(np.diag([1, c, c + 1]), [[np.zeros(3), np.array([.4, .02, .03])],
                                                               [np.array([.7, .1, .05])]], ['A', 'S']),
              [1], 0, 0.65, 0.65))
    low = np.array([[1.0, 0.2, 0.1], [0, 1.1, 0.3], [0, 0, 1.3]])
    tb = [[np.zeros(3), np.array([.3, .4, .45])], [np.array([.6, .1, .7])]]
    Z.append(('TRICL', crystal.Crystal(low, tb, ['A', 'B']), [1], 0, 1.05, 1.05))
    Z.append(('TRICLm', crystal.Crystal(low, tb, ['A', 'B']), [], 0, 0.8, 1.05))
    # two mobile chemistries (only one of them jumps) in cells that can be enumerated without wrap-around
    Z.append(('CHAINm', crystal.Crystal(np.diag([1, c, c + 1]), [[np.zeros(3)], [np.array([.5, .1, .05])]], ['A', 'B']),
              [], 0, 1.01, 1.01))
    Z.append(('HONmm2d', crystal.Crystal(tri, [[np.array([1 / 3, 1 / 3, 0]), np.array([2 / 3, 2 / 3, 0])],
                                               [np.zeros(3)]], ['A', 'B']), [], 0, 0.6, 0.6))
    # cluster cutoff reaching a lattice vector, jumps between different basis sites that cross cell boundaries
    Z.append(('DIA2', crystal.Crystal(fcc.lattice, [np.zeros(3), np.array([.25, .25, .25])], ['C']),
              [], 0, 0.75, 0.45))
    Z.append(('HONx2d', crystal.Crystal(tri, [np.array([1 / 3, 1 / 3, 0]), np.array([2 / 3, 2 / 3, 0])], ['A']),
              [], 0, 1.01, 0.6))
    # more spectator than mobile sites per cell (Nspec > Nmobile)
    Z.append(('TRICLs', crystal.Crystal(low, tb, ['A', 'B']), [0], 1, 1.05, 1.05))
    Z.append(('HONm2d', crystal.Crystal(tri, [[np.array([1 / 3, 1 / 3, 0]), np.array([2 / 3, 2 / 3, 0])],
                                              [np.zeros(3)]], ['S', 'A']), [0], 1, 1.01, 1.01))
    return Z


def supers():
    return [np.diag([1, 1, 1]), np.diag([2, 1, 1]), np.diag([1, 2, 1]), np.diag([2, 2, 1]), np.diag([3, 1, 1]),
            np.diag([2, 2, 2]), np.diag([3, 2, 1]), np.diag([3, 3, 1]), np.diag([4, 3, 1]), np.diag([4, 1, 1]),
            np.diag([5, 1, 1]), np.diag([6, 1, 1]), np.diag([8, 1, 1]), np.diag([12, 1, 1]), np.diag([3, 2, 2]),
            np.array([[1, 1, 0], [-1, 1, 0], [0, 0, 1]]), np.array([[2, 1, 0], [0, 1, 0], [0, 0, 1]]),
            np.array([[1, 0, 1], [0, 2, 0], [-1, 0, 1]]), np.array([[2, 1, 0], [-1, 2, 0], [0, 0, 1]]),
            np.array([[3, 1, 0], [0, 3, 0], [0, 0, 1]]), np.array([[2, -1, 0], [1, 3, 0], [0, 0, 1]]),
            np.array([[-2, 0, 0], [0, 3, 0], [0, 0, 1]]), np.array([[0, 2, 0], [3, 0, 0], [0, 0, 1]])]


def big_supers():
    return [np.diag([3, 3, 3]), np.diag([4, 3, 3]), np.diag([4, 4, 1]), np.diag([5, 4, 1]),
            np.array([[3, 1, 0], [-1, 3, 0], [0, 0, 3]]), np.array([[3, 0, 1], [0, 3, 0], [-1, 0, 3]]),
            np.diag([4, 4, 4])]


# ------------------------------------------------------------------ exact text
def frac(x):
    """float → exact rational text p/q (values are integers or half-integers here, so this is exact)."""
    f = Fraction(float(x))
    return str(f.numerator) if f.denominator == 1 else '%d/%d' % (f.numerator, f.denominator)


def show_l(l):
    return '-' if len(l) == 0 else ','.join(str(int(x)) for x in l)


def show_ll(ll):
    return '-' if len(ll) == 0 else ';'.join((','.join(str(int(x)) for x in l) if len(l) else '_') for l in ll)


def show_fl(l):
    return '-' if len(l) == 0 else ','.join(frac(x) for x in l)


# ------------------------------------------------------------------ export of clusters
def site_txt(sup, site):
    ci = site.ci
    if ci in sup.indexmobile:
        kind, k = 'm', sup.indexmobile[ci]
    else:
        kind, k = 's', sup.indexspectator[ci]
    return '%s,%d,%d,%d,%d' % (kind, k, int(site.R[0]), int(site.R[1]), int(site.R[2]))


def cluster_txt(sup, cl):
    if cl.__vacancy__:
        ci = cl.vacancy().ci
        flag = ('m%d' % sup.indexmobile[ci]) if ci in sup.indexmobile else ('s%d' % sup.indexspectator[ci])
    else:
        flag = 'n'
    return flag + ':' + ';'.join(site_txt(sup, s) for s in cl)


def classes_txt(sup, classes):
    """classes: list of LISTS of clusters, in the order the implementation will iterate them."""
    return ' '.join(('|'.join(cluster_txt(sup, cl) for cl in cls) if len(cls) else '~') for cls in classes)


def freeze(clusterexp):
    """Fix an iteration order: sets → lists (iteration order of an unmodified set is stable in-process,
    and the implementation iterates the very same list objects we pass)."""
    return [list(cls) for cls in clusterexp]


# ------------------------------------------------------------------ harness's own geometry
class Geo:
    """Position-based site lookup, independent of ClusterSupercell.index / incell / transdict."""

    def __init__(self, sup):
        self.sup = sup
        self.S = np.array(sup.superlatt, dtype=float)
        self.Sinv = np.linalg.inv(self.S)
        self.size = int(round(abs(np.linalg.det(self.S))))
        # coset representatives of Z^3 / S Z^3 : scan a box, key by the fractional part of S^-1 R
        reps, seen = [], set()
        n = int(np.abs(sup.superlatt).max()) * 3 + 1
        for R in itertools.product(range(-n, n + 1), repeat=3):
            u = self.Sinv @ np.array(R, dtype=float)
            key = tuple(int(v) for v in np.round((u - np.floor(u + 1e-9)) * self.size).astype(int) % self.size)
            if key not in seen:
                seen.add(key)
                reps.append(np.array(R))
                if len(reps) == self.size: break
        assert len(reps) == self.size
        self.reps = reps
        self.cache = {}

    def lookup(self, ci, R):
        """(index, mobile?) of the site (ci, R) by matching its position against mobilepos / specpos."""
        key = (ci, int(R[0]), int(R[1]), int(R[2]))
        if key in self.cache: return self.cache[key]
        sup = self.sup
        u = self.Sinv @ (np.array(R, dtype=float) + sup.crys.basis[ci[0]][ci[1]])
        mobile = ci[0] not in sup.spectator
        pos = sup.mobilepos if mobile else sup.specpos
        d = pos - u
        d -= np.round(d)
        d2 = np.sum(d * d, axis=1)
        hits = np.nonzero(d2 < 1e-12)[0]
        # several rows may coincide only if positions are degenerate; demand a unique physical site
        if len(hits) != 1:
            raise ArithmeticError('site lookup by position: %d matches for %r' % (len(hits), key))
        ind = int(hits[0])
        # the row must also carry the right sublattice label
        N, indices = (sup.Nmobile, sup.mobileindices) if mobile else (sup.Nspec, sup.spectatorindices)
        if indices[ind % N] != ci:
            raise ArithmeticError('site lookup by position: row %d is %r, wanted %r' % (ind, indices[ind % N], ci))
        self.cache[key] = (ind, mobile)
        return ind, mobile

    def placed(self, classes, vacancy):
        """Per class: list of (mobile index tuple, spectator index tuple) of all placements.
        Vacancy clusters are placed only with their vacancy site on the supercell's vacancy."""
        out = []
        for cls in classes:
            pl = []
            for cl in cls:
                for R in self.reps:
                    if cl.__vacancy__:
                        if vacancy is None: continue
                        v = cl.vacancy()
                        if v.ci[0] in self.sup.spectator: continue
                        if self.lookup(v.ci, R + v.R)[0] != vacancy: continue
                    mob, spec = [], []
                    for s in cl:
                        ind, m = self.lookup(s.ci, R + s.R)
                        (mob if m else spec).append(ind)
                    pl.append((tuple(mob), tuple(spec)))
            out.append(pl)
        return out


def mask(idx):
    m = 0
    for i in idx: m |= (1 << int(i))
    return m


class MaskEval:
    """Σ_k coeff_k [mask_k ⊆ occ] evaluated on bit masks (occupied sites = set bits)."""

    def __init__(self, terms):
        self.terms = [(int(m), c) for m, c in terms]

    def __call__(self, occbits):
        return sum(c for m, c in self.terms if (m & occbits) == m)


def occ_bits(occ):
    b = 0
    for i, o in enumerate(occ):
        if o == 1: b |= (1 << i)
    return b


def table_tuples(siteinteract, ninter):
    """Interaction tuples (with multiplicity) from siteinteract lists: tuple m = sites n repeated as often as
    m occurs in siteinteract[n]."""
    tup = [[] for _ in range(ninter)]
    for n, lst in enumerate(siteinteract):
        for m in lst:
            tup[int(m)].append(n)
    return tup


# ------------------------------------------------------------------ wrap test
def _same_mod(sup, Sinv, a, b):
    """distinct sites a, b (ClusterSite-like: .ci, .R) that are periodic images in the supercell"""
    if a.ci != b.ci: return False
    d = np.array(a.R, dtype=float) - np.array(b.R, dtype=float)
    if not np.any(d): return False
    u = Sinv @ d
    return bool(np.all(np.abs(u - np.round(u)) < 1e-9))


def wraps(sup, sitesets):
    """True when some site set contains two distinct sites that coincide modulo the supercell."""
    Sinv = np.linalg.inv(np.array(sup.superlatt, dtype=float))
    for ss in sitesets:
        ss = list(ss)
        for x in range(len(ss)):
            for y in range(x):
                if _same_mod(sup, Sinv, ss[x], ss[y]): return True
    return False


def jump_sitesets(sup, classes, TSclasses, chem, jumpnetwork):
    """Site sets whose injectivity under the periodic indexing the barrier construction relies on:
    for every jump i->j and every cluster through i (resp. j): the cluster's sites plus the other end point;
    every TS cluster with its two end points; every vacancy cluster with its vacancy site."""
    from onsager import cluster
    crys = sup.crys
    zero = np.zeros(3, dtype=int)
    sets = []
    ends = []
    for jn in jumpnetwork:
        for (i0, j0), dx in jn:
            dR = np.round(np.dot(crys.invlatt, dx) - crys.basis[chem][j0] + crys.basis[chem][i0]).astype(int)
            ends.append((cluster.ClusterSite((chem, i0), zero), cluster.ClusterSite((chem, j0), dR)))
    for cls in classes:
        for cl in cls:
            allsites = list(cl.sites)
            sets.append(allsites)
            for s in allsites:
                for (a, b) in ends:
                    if s.ci == a.ci:
                        sets.append([t - s.R for t in allsites] + [b])
                    if s.ci == b.ci:
                        sets.append([t - s.R + b.R for t in allsites] + [a])
    for cls in TSclasses:
        for cl in cls:
            sets.append(list(cl.sites))
    return sets


# ------------------------------------------------------------------ Lean driver sessions
def _native_driver(name, models, build=True):
    """Native executable of lean/Drive/<name>.lean linked from the C files `lake build` produced for the model
    modules (the same compiled IR as the checked .olean files).  None when it cannot be built (or, with
    build=False, when it is not already there: compiling takes a minute or two)."""
    import os, hashlib, fcntl, subprocess
    try:
        LEAN = os.path.join(os.path.dirname(os.path.dirname(os.path.dirname(os.path.abspath(__file__)))), 'lean')
        irdir = os.path.join(LEAN, '.lake', 'build', 'ir')
        cs = [os.path.join(irdir, m.replace('.', '/') + '.c') for m in models]
        drv = os.path.join(LEAN, 'Drive', name + '.lean')
        h = hashlib.sha1()
        for f in cs + [drv]: h.update(open(f, 'rb').read())
        bindir = os.path.join(LEAN, '.lake', 'build', 'bin')
        os.makedirs(bindir, exist_ok=True)
        exe = os.path.join(bindir, 'drv_%s_%s' % (name, h.hexdigest()[:12]))
        if os.path.exists(exe): return exe
        if not build: return None
        lock = open(os.path.join(bindir, '.drv_%s.lock' % name), 'w')
        fcntl.flock(lock, fcntl.LOCK_EX)
        try:
            if os.path.exists(exe): return exe
            dc = os.path.join(bindir, 'drv_%s_%d.c' % (name, os.getpid()))
            p = subprocess.run(['lake', 'env', 'lean', '-c', dc, drv], cwd=LEAN, capture_output=True, text=True, timeout=600)
            if p.returncode != 0: return None
            tmp = exe + '.tmp%d' % os.getpid()
            p = subprocess.run(['leanc', '-O1', '-o', tmp] + cs + [dc], cwd=LEAN, capture_output=True, text=True, timeout=900)
            try: os.remove(dc)
            except OSError: pass
            if p.returncode != 0: return None
            os.replace(tmp, exe)
            for f in os.listdir(bindir):
                fp = os.path.join(bindir, f)
                if f.startswith('drv_%s_' % name) and fp != exe and not f.endswith('.lock'):
                    try: os.remove(fp)
                    except OSError: pass
            return exe
        finally:
            fcntl.flock(lock, fcntl.LOCK_UN); lock.close()
    except Exception:
        return None


def run_sessions(ctx, name, models, sessions, timeout=2400, shards=6):
    """Answers of the Lean driver `Drive/<name>.lean` for independent sessions (lists of request lines; a driver's
    state never has to survive from one session to the next).  Uses the native executable when it can be built,
    otherwise the framework's interpreter (`ctx.lean`).  Returns a list of answer lists."""
    import subprocess, threading
    flat = [l for s in sessions for l in s]
    if not flat: return [[] for _ in sessions]
    exe = None if __import__('os').environ.get('VERIF_NO_NATIVE') else _native_driver(name, models, build=not ctx.quick)
    if exe is None:
        ctx.count('driver:interpreted')
        got = ctx.lean('Drive/%s.lean' % name, flat, timeout=timeout)
    else:
        ctx.count('driver:native')
        order = sorted(range(len(sessions)), key=lambda k: -sum(len(l) for l in sessions[k]))
        shards = max(1, min(shards, len(sessions)))
        load = [0] * shards
        assign = [[] for _ in range(shards)]
        for k in order:                      # longest first onto the least loaded shard
            s = load.index(min(load))
            assign[s].append(k); load[s] += sum(len(l) for l in sessions[k]) + 1
        outs = [None] * shards
        procs = [subprocess.Popen([exe], stdin=subprocess.PIPE, stdout=subprocess.PIPE, stderr=subprocess.PIPE, text=True)
                 for _ in range(shards)]

        def work(s):
            inp = '\n'.join(l for k in assign[s] for l in sessions[k]) + '\n'
            outs[s] = procs[s].communicate(inp, timeout=timeout)
        th = [threading.Thread(target=work, args=(s,)) for s in range(shards)]
        for t in th: t.start()
        for t in th: t.join()
        ans = [None] * len(sessions)
        for s in range(shards):
            if outs[s] is None or procs[s].returncode != 0:
                raise RuntimeError('native driver %s failed: %s' % (name, (outs[s] or ('', ''))[1][-500:]))
            o = outs[s][0].split('\n')
            if o and o[-1] == '': o.pop()
            need = sum(len(sessions[k]) for k in assign[s])
            if len(o) != need:
                raise RuntimeError('native driver %s: %d answers for %d requests' % (name, len(o), need))
            pos = 0
            for k in assign[s]:
                ans[k] = o[pos:pos + len(sessions[k])]; pos += len(sessions[k])
        ctx.traces += len(flat)
        return ans
    out, pos = [], 0
    for s in sessions:
        out.append(got[pos:pos + len(s)]); pos += len(s)
    return out
