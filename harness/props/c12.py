"""
C12 — Internal-friction loss tensors satisfy the relaxation sum rule.

Lean: OnsagerProofs/C12.lean — completeness of an orthonormal basis, SPEC-sum (sum over the non-equilibrium modes of
F_m x F_m = <PP> - <P><P>), kept-vs-skipped bookkeeping, compliance symmetries and positive semidefiniteness of F x F and of
merged sums, -omega is a Dirichlet form (every rate >= 0, a non-zero one > 0), Rayleigh quotient of an exact mode = its
rate, the merging loop preserves the sum for a symmetric transitive closeness (and adds a mode once per match in general).
Tie: Interstitial.losstensors against the exact rational model (OnsagerModel/C12.lean) which is given numpy's eigenvectors
as a certificate (exact rationals of the floats) and returns the exact fluctuation tensor, trace, and for every mode the exact
Rayleigh quotient, squared eigen-residual and loss tensor.
Direct oracles on the implementation's output: rates positive and non-zero eigenvalues of the symmetrised rate matrix
(numpy eigvalsh of an independently assembled matrix), compliance symmetries, PSD, sum rule.
"""
import math, itertools
from fractions import Fraction
import numpy as np
import interstitial_common as ic

META = dict(
    id='C12',
    lean_modules=['OnsagerProofs.Lemmas.Variational', 'OnsagerModel.C02', 'OnsagerModel.C12', 'OnsagerProofs.C12'],
    theorems=['Onsager.C12.completeness', 'Onsager.C12.spec_sum_all', 'Onsager.C12.spec_sum', 'Onsager.C12.spec_sum_kept',
              'Onsager.C12.spec_sum_tensor', 'Onsager.C12.loss_compliance_symm', 'Onsager.C12.loss_psd', 'Onsager.C12.loss_sum_psd',
              'Onsager.C12.quad_eq_neg_dirichlet', 'Onsager.C12.rate_nonneg', 'Onsager.C12.rate_pos', 'Onsager.C12.rayleigh_eq_rate',
              'Onsager.C12.addToClose_total', 'Onsager.C12.merge_sum', 'Onsager.C12.nmatch_le_one_sorted',
              'Onsager.C12.merge_sum_sorted', 'Onsager.C12.npIsclose_mono', 'Onsager.C12.merge_sum_isclose'],
    tie_theorems=[],
    level_text='Kernel-checked for every finite network over any ordered field: an orthonormal eigenbasis containing sqrt(rho) gives '
               'sum_{m != 0} F_m x F_m = sum_i rho_i P_i x P_i - Pbar x Pbar (and, for any kept set of modes, total minus skipped modes); '
               'each F x F has the compliance symmetries and is PSD, as are merged sums; the symmetrised rate matrix is minus a Dirichlet '
               'form, so every eigen-rate is >= 0 and a non-zero one is > 0; the merging loop adds a mode once per matching stored rate, '
               'hence preserves the sum for a symmetric transitive closeness and also for np.isclose itself when non-negative rates are met in '
               'descending order (what eigh guarantees). '
               'Partial: np.linalg.eigh is a certificate (orthonormality and eigen-residuals of its output are checked exactly by the '
               'model on every case, no perturbation bound is proved); the Python code is tied to the model by correspondence.',
    level_note='Trusted: Lean kernel + standard axioms; rationalisation (energies n ln q, dipole components and eigenvector entries '
               'as exact binary rationals); numpy eigh/eigvalsh as certificate and as independent oracle.',
    technique='Lean 4 spectral/Dirichlet theorems + exact rational model fed with an eigen-certificate + direct oracles on losstensors output',
    rule='zoo of 12 interstitial networks (symmetry-degenerate multiplets included) x random rational prefactors, integer energies, random '
         'non-symmetric dipoles; hand-made disconnected networks (dimers, pure self-jump), slow-mode and near-degenerate-rate probes with '
         'float energies on a P1 four-site cell; non-trivial = at least one relaxing mode with non-zero loss tensor; distinct by (network, data)',
    trusted=['np.linalg.eigh output is used as a certificate whose residuals are checked, not bounded'],
    assumptions=['jump networks list every jump with its reverse in the same class (checked by the model on every input)'],
)

DRIVER = 'Drive/C12.lean'


def _diffuser(name, crys, chem, sl, jn):
    from onsager import OnsagerCalc
    key = ('diff', name)
    if key not in ic._CACHE:
        ic._CACHE[key] = (OnsagerCalc.Interstitial(crys, chem, sl, jn), ic.lattice_jumps(crys, jn))
    return ic._CACHE[key]


def rand_dipoles(rng, n, dim):
    return [np.array([[rng.randint(-24, 24) / 8. for _ in range(dim)] for _ in range(dim)]) for _ in range(n)]


def frl(xs):
    return ','.join(ic.fr(Fraction(float(x))) for x in xs)


def assemble(diffuser, jn, pre, be, preT, beT):
    """independent assembly of rho and the symmetrised rate matrix (log-domain, no reuse of the code's rate lists)"""
    inv = diffuser.invmap
    N = diffuser.N
    bes = np.array([be[w] for w in inv]); lp = np.log(np.array([pre[w] for w in inv]))
    lw = lp - bes
    w = np.exp(lw - lw.max()); rho = w / w.sum()
    om = np.zeros((N, N))
    for cls, pT, bT in zip(jn, preT, beT):
        for (i, j), dx in cls:
            om[i, j] += pT * math.exp(0.5 * (bes[i] + bes[j]) - bT - 0.5 * (lp[i] + lp[j]))
            om[i, i] -= pT * math.exp(bes[i] - bT - lp[i])
    return rho, om


def components(N, jn):
    comp = list(range(N))

    def find(i):
        while comp[i] != i: i = comp[i]
        return i
    for cls in jn:
        for (i, j), dx in cls:
            comp[find(i)] = find(j)
    groups = {}
    for i in range(N): groups.setdefault(find(i), []).append(i)
    return list(groups.values())


def expected_sum(rho, sd, comps):
    """relaxing part of the dipole fluctuation: within-component fluctuation (= <PP>-<P><P> for a connected network)"""
    dim = sd.shape[1]
    tot = np.zeros((dim,) * 4)
    for C in comps:
        rc = rho[C].sum()
        av = np.tensordot(rho[C], sd[C], 1)
        tot += np.einsum('i,iab,icd->abcd', rho[C], sd[C], sd[C]) - np.einsum('ab,cd->abcd', av, av) / rc
    return tot


def output_oracles(ctx, name, diffuser, jn, args, dip, res, rep, connected_only_literal=True):
    """direct statement of C12 on the implementation's output; returns dict with pieces for the tie"""
    pre, be, preT, beT = args
    N, dim = diffuser.N, diffuser.dim
    rho, om = assemble(diffuser, jn, pre, be, preT, beT)
    sd = diffuser.siteDipoles(dip)
    ev = np.linalg.eigvalsh(om)
    rates_true = -ev
    avr = abs(np.trace(om)) / N
    pm = max(1e-300, max(np.abs(p).max() for p in sd)) ** 2
    nv0 = len(ctx.violations)
    repj = {k: v for k, v in rep.items() if k != '_data'}
    comps = components(N, jn)
    nzero_expected = len(comps)
    # O1: rates positive, and non-zero eigenvalues of the symmetrised rate matrix
    for (l, L) in res:
        if not (l > 0):
            ctx.violation('rate-not-positive' + (':zero-rate-matrix' if avr == 0 else ''),
                          'losstensors reports a mode with rate %r (not positive)' % float(l), dict(repj, rate=float(l), averate=float(avr)))
            continue
        k = np.abs(rates_true - l).argmin()
        if abs(rates_true[k] - l) > 1e-9 * max(avr, abs(l)):
            ctx.violation('rate-not-eigenvalue', 'reported rate %r is not an eigenvalue of the symmetrised rate matrix (nearest %r)'
                          % (float(l), float(rates_true[k])), dict(repj, rate=float(l), eigenvalues=rates_true.tolist()))
        if abs(l) <= 1e-12 * np.abs(rates_true).max() and avr > 0:
            ctx.violation('rate-is-zero-mode', 'reported rate %r is a zero eigenvalue' % float(l), dict(repj, rate=float(l)))
    # O2: compliance symmetries and PSD
    for (l, L) in res:
        L = np.asarray(L)
        asym = max(np.abs(L - L.transpose(1, 0, 2, 3)).max(), np.abs(L - L.transpose(0, 1, 3, 2)).max(), np.abs(L - L.transpose(2, 3, 0, 1)).max())
        if asym > 1e-9 * pm:
            ctx.violation('loss-not-compliance-symmetric', 'loss tensor lacks the symmetries of an elastic compliance (%.3g)' % asym,
                          dict(repj, rate=float(l)))
        w = np.linalg.eigvalsh(0.5 * (L.reshape(dim * dim, dim * dim) + L.reshape(dim * dim, dim * dim).T))
        if w.min() < -1e-9 * pm:
            ctx.violation('loss-not-psd', 'loss tensor not positive semidefinite (min eigenvalue %.3g)' % w.min(), dict(repj, rate=float(l)))
    # O3: sum rule
    tot = sum((np.asarray(L) for l, L in res), np.zeros((dim,) * 4))
    want = expected_sum(rho, sd, comps)
    literal = expected_sum(rho, sd, [list(range(N))])
    err = np.abs(tot - want).max()
    # eigenvector conditioning: eigh mixes a mode with the zero mode at the level eps*|omega|/rate
    nz = np.sort(np.abs(rates_true))[nzero_expected:]
    cond = (np.abs(rates_true).max() / nz.min()) if len(nz) and nz.min() > 0 else 1.
    tol = pm * (1e-9 + 8 * np.finfo(float).eps * cond)
    info = dict(rho=rho, om=om, sd=sd, avr=avr, comps=comps, want=want, tot=tot, tol=tol, pm=pm, rates_true=rates_true)
    if err > tol:
        info['sum_failed'] = True
        sig = 'sumrule' + (':zero-rate-matrix' if avr == 0 else '')
        # classify known mechanisms by recomputing the modes
        lam, phi = np.linalg.eigh(om)
        Fs = [np.tensordot(p * np.sqrt(rho), sd, axes=1) for p in phi.T]
        Ls = [np.einsum('ab,cd->abcd', F, F) for F in Fs]
        kept = [m for m in range(N) if abs(lam[m]) >= 1e-8 * avr]
        slow = [m for m in range(N) if 1e-12 * avr < abs(lam[m]) < 1e-8 * avr]
        # (eigh mixes a slow mode with the exact zero mode at the 1e-16/gap level, hence the looser classification tolerance)
        if slow and np.abs(tot + sum(Ls[m] for m in slow) - want).max() <= 1e-5 * pm:
            sig = 'sumrule:slow-mode-dropped'
        elif avr > 0 and np.abs(sum((Ls[m] for m in kept), np.zeros((dim,) * 4)) - want).max() <= tol and len(kept) >= 3:
            sig = 'sumrule:differs-from-recomputed-modes'
        ctx.violation(sig, 'sum of the reported loss tensors differs from the relaxing dipole fluctuation by %.3g (tol %.3g)' % (err, tol),
                      dict(repj, sum_impl=tot.tolist(), fluctuation=want.tolist(),
                           rates=[float(l) for l, L in res], eigen_rates=rates_true.tolist()))
    if len(comps) > 1:
        ctx.count('disconnected-network')
        if np.abs(want - literal).max() > tol: ctx.count('disconnected:between-component-fluctuation-nonzero')
    info['nviol'] = len(ctx.violations) - nv0
    return info


def run(ctx):
    emax = 4 if ctx.quick else 10
    nets = ic.networks()
    ncases = 36 if ctx.quick else 600
    cases, lines = [], []
    for t in range(ncases):
        name, crys, chem, sl, jn = nets[t % len(nets)]
        diffuser, ljumps = _diffuser(name, crys, chem, sl, jn)
        data = ic.rand_data(ctx.rng, len(sl), len(jn), emax=emax)
        dip = rand_dipoles(ctx.rng, len(sl), crys.dim)
        args = ic.py_args(data)
        rep = dict(network=name, data={k: [str(x) for x in v] if isinstance(v, list) else str(v) for k, v in data.items()},
                   dipole=[p.tolist() for p in dip], _data=data)
        try:
            res = diffuser.losstensors(args[0], args[1], dip, args[2], args[3])
        except Exception as e:
            ctx.violation('losstensors-raises:%s' % type(e).__name__, 'losstensors raised %r on valid input' % (e,), {k: v for k, v in rep.items() if k != '_data'})
            continue
        info = output_oracles(ctx, name, diffuser, jn, args, dip, res, rep)
        # eigen-certificate for the model: numpy eigh of the independently assembled matrix, in rho-weighted coordinates
        lam, phi = np.linalg.eigh(info['om'])
        X = [phi[:, m] / np.sqrt(info['rho']) for m in range(diffuser.N)]
        dim = crys.dim
        P = [[info['sd'][i][a, b] for i in range(diffuser.N)] for a in range(dim) for b in range(dim)]
        base = ic.request_line(diffuser.N, dim, diffuser.invmap, ljumps, data)
        lines.append(base + ' # ' + ' ; '.join(frl(p) for p in P) + ' # ' + ' ; '.join(frl(x) for x in X))
        cases.append((name, crys, diffuser, jn, data, dip, args, res, info, lam, rep))
    mal = ['1 1 3/2 | 0 | 1 | 0 | 1 | 1 | 0,0,1:0,0,-1 # 1,2 # 1',      # dipole list longer than the number of sites
           '1 1 3/2 | 0 | 1 | 0 | 1 | 1 | 0,0,1:0,0,-1 # 1 # 0',        # null candidate mode
           '1 1 3/2 | 0 | 1 | 0 | 1 | 1 | 0,0,1:0,0,-1 # 1 # 1,1']      # mode of the wrong length
    answers = ctx.lean(DRIVER, lines + mal, timeout=3000)
    for a in answers[len(lines):]:
        ctx.case(('malformed', a), nontrivial=True); ctx.count('malformed')
        if a != 'invalid': ctx.disagree('model accepts a malformed request: %s' % a[:60], dict(answer=a))
    for (name, crys, diffuser, jn, data, dip, args, res, info, lam, rep), line, ans in zip(cases, lines, answers):
        dim, N = crys.dim, diffuser.N
        repj = {k: v for k, v in rep.items() if k != '_data'}
        if not ans.startswith('ok '):
            ctx.disagree('exact model rejects (%s) input that the implementation accepts' % ans, dict(repj, request=line[:300])); continue
        parts = [p.strip() for p in ans[3:].split('|')]
        fl = np.array([float(Fraction(x)) for x in parts[0].split(',')]).reshape((dim,) * 4)
        tr = float(Fraction(parts[1]))
        modes = []
        for p in parts[2:]:
            v = [Fraction(x) for x in p.split(',')]
            modes.append((float(v[0]), float(v[1]), np.array([float(x) for x in v[2:]]).reshape((dim,) * 4)))
        avr, pm, tol = info['avr'], info['pm'], info['tol']
        spread = min(ic.rate_spread(data), 1e9)
        rtol = 1e-9 * max(avr, 1e-300)   # eigenvalues of a symmetric matrix are accurate to eps*|omega|, whatever the spread
        # certificate quality, checked on exact numbers
        worst = max(math.sqrt(max(r2, 0.)) for _, r2, _ in modes)
        if worst > rtol * 10:
            ctx.disagree('eigen-certificate residual %.3g too large (tol %.3g): numpy eigh or the assembly is off' % (worst, rtol * 10), repj)
            continue
        if abs(sum(R for R, _, _ in modes) - tr) > 1e-9 * max(tr, 1e-300) * N:
            ctx.disagree('sum of Rayleigh quotients %.12g differs from the exact trace %.12g' % (sum(R for R, _, _ in modes), tr), repj)
            continue
        if abs(avr * N - tr) > 1e-9 * tr:
            ctx.disagree('trace of the assembled matrix differs from the exact sum of rates', repj); continue
        # group the certified modes into multiplets
        order = np.argsort([R for R, _, _ in modes])
        groups = []
        for m in order:
            R = modes[m][0]
            if groups and abs(R - groups[-1][0]) <= rtol * 10: groups[-1][1].append(m)
            else: groups.append([R, [m]])
        relaxing = [(R, sum(modes[m][2] for m in ms)) for R, ms in groups if R > 1e-12 * avr]
        nzero = sum(len(ms) for R, ms in groups if R <= 1e-12 * avr)
        nontriv = any(np.abs(L).max() > 1e-9 * pm for _, L in relaxing)
        ctx.case((name, line), nontrivial=bool(nontriv),
                 sample=dict(network=name, request=line[:160], rates_model=[R for R, _ in relaxing], rates_impl=[float(l) for l, _ in res]))
        ctx.count('net:' + name); ctx.count('modes:%d' % len(relaxing))
        if any(len(ms) > 1 for R, ms in groups if R > 1e-12 * avr): ctx.count('degenerate-multiplet')
        if nzero != len(info['comps']):
            ctx.disagree('model finds %d zero modes for %d connected components' % (nzero, len(info['comps'])), repj); continue
        # sum rule, exact right-hand side (connected networks: the literal statement)
        if len(info['comps']) == 1 and np.abs(info['tot'] - fl).max() > tol and not info.get('sum_failed'):
            ctx.disagree('sum of reported loss tensors differs from the exact fluctuation tensor by %.3g although the float oracle accepted it'
                         % np.abs(info['tot'] - fl).max(), repj)
        if np.abs(sum((L for _, L in relaxing), np.zeros((dim,) * 4)) - (fl if len(info['comps']) == 1 else info['want'])).max() > tol:
            ctx.disagree('model modes do not satisfy the sum rule themselves', repj); continue
        # mode by mode, unless distinct multiplets fall inside np.isclose's window (then only the sum is comparable)
        Rs = [R for R, _ in relaxing]
        if any(abs(a - b) <= 2e-5 * abs(b) + 2e-8 for a, b in zip(Rs, Rs[1:])):
            ctx.count('near-degenerate-distinct-rates'); continue
        if info['nviol']: continue
        if len(res) != len(relaxing):
            ctx.disagree('implementation reports %d modes, the model %d relaxing multiplets' % (len(res), len(relaxing)),
                         dict(repj, impl=[float(l) for l, _ in res], model=Rs)); continue
        for (l, L) in res:
            k = int(np.argmin([abs(R - l) for R in Rs]))
            if abs(Rs[k] - l) > rtol * 10 or np.abs(np.asarray(L) - relaxing[k][1]).max() > tol:
                ctx.disagree('mode with rate %.12g: implementation and model differ (rate %.3g, loss tensor %.3g)'
                             % (l, abs(Rs[k] - l), np.abs(np.asarray(L) - relaxing[k][1]).max()), repj)
                break
    special(ctx)


def special(ctx):
    """hand-constructible networks and float-energy probes: direct oracles only"""
    from onsager import OnsagerCalc, crystal
    rng = ctx.rng
    # (1) disconnected networks from the SC (x,x,x) orbit: dimers, and the pure self-jump network (zero rate matrix)
    sc = crystal.Crystal(np.eye(3), [np.zeros(3)], chemistry=['A'])
    crys = sc.addbasis(sc.Wyckoffpos(np.array([.2, .2, .2])), chemistry=['I'])
    if ('c12', 'scfull') not in ic._CACHE:
        ic._CACHE[('c12', 'scfull')] = (crys.sitelist(1), crys.jumpnetwork(1, 1.01))
    sl, full = ic._CACHE[('c12', 'scfull')]
    subs = {'sc-xxx-selfjumps': [c for c in full if all(i == j for (i, j), dx in c)]}
    for k, c in enumerate(full):
        if all(i != j for (i, j), dx in c) and len(components(8, [c])) > 1:
            subs['sc-xxx-disconnected-%d' % k] = [c]
            subs['sc-xxx-disconnected-%d+self' % k] = [c] + subs['sc-xxx-selfjumps']
    for nm, sub in sorted(subs.items()):
        if not sub: continue
        d = OnsagerCalc.Interstitial(crys, 1, sl, sub)
        for rep_i in range(1 if ctx.quick else 4):
            dip = rand_dipoles(rng, 1, 3)
            pre, be = [1.], [0.]; preT = [rng.randint(1, 8) / 4. for _ in sub]; beT = [rng.randint(0, 4) * 0.5 for _ in sub]
            rep = dict(network=nm, pre=pre, betaene=be, preT=preT, betaeneT=beT, dipole=[p.tolist() for p in dip],
                       classes=[[[int(i), int(j)] + np.round(dx, 6).tolist() for (i, j), dx in c] for c in sub][:1])
            try:
                res = d.losstensors(pre, be, dip, preT, beT)
            except Exception as e:
                ctx.violation('losstensors-raises:%s:%s' % (type(e).__name__, nm), 'losstensors raised %r' % (e,), rep); continue
            ctx.case((nm, str(rep)), nontrivial=True); ctx.count('special:' + nm.split('-')[2] if nm.count('-') > 1 else nm)
            output_oracles(ctx, nm, d, sub, (pre, be, preT, beT), dip, res, rep)
    # (2) P1 cell with four inequivalent sites: float energies
    if ('c12', 'p1') not in ic._CACHE:
        lat = np.array([[1.0, 0.1, 0.0], [0.0, 1.1, 0.2], [0.15, 0.0, 1.2]]).T
        pos = [np.array([.1, .2, .3]), np.array([.6, .15, .35]), np.array([.3, .7, .45]), np.array([.55, .6, .9])]
        c4 = crystal.Crystal(lat, [[np.zeros(3)], pos], chemistry=['M', 'X'])
        sl4 = c4.sitelist(1); jn4 = c4.jumpnetwork(1, 0.9)
        ic._CACHE[('c12', 'p1')] = (c4, sl4, jn4, OnsagerCalc.Interstitial(c4, 1, sl4, jn4))
    c4, sl4, jn4, d4 = ic._CACHE[('c12', 'p1')]
    ns, nj = len(sl4), len(jn4)
    ctx.note('P1 four-site cell: %d sites in %d sets, %d jump classes, components %d' % (d4.N, ns, nj, len(components(d4.N, jn4))))
    # (2a) generic float data
    for t in range(6 if ctx.quick else 60):
        pre = [rng.uniform(0.5, 2.) for _ in range(ns)]; be = [rng.uniform(-1, 1) for _ in range(ns)]
        preT = [rng.uniform(0.5, 2.) for _ in range(nj)]; beT = [rng.uniform(1, 3) for _ in range(nj)]
        dip = rand_dipoles(rng, ns, 3)
        rep = dict(network='p1-4site', pre=pre, betaene=be, preT=preT, betaeneT=beT, dipole=[p.tolist() for p in dip])
        res = d4.losstensors(pre, be, dip, preT, beT)
        ctx.case(('p1', t, str(be)), nontrivial=True); ctx.count('special:p1-generic')
        output_oracles(ctx, 'p1-4site', d4, jn4, (pre, be, preT, beT), dip, res, rep)
    # (2b) near-degenerate distinct rates: equal energies, transition energies perturbed at the 1e-5 level
    found = False
    for t in range(20 if ctx.quick else 600):
        pre = [1.] * ns; be = [0.] * ns
        preT = [1.] * nj; beT = [1. + rng.uniform(0, 6e-5) for _ in range(nj)]
        dip = rand_dipoles(rng, ns, 3)
        rep = dict(network='p1-4site', pre=pre, betaene=be, preT=preT, betaeneT=beT, dipole=[p.tolist() for p in dip])
        res = d4.losstensors(pre, be, dip, preT, beT)
        ctx.case(('p1-near', t, str(beT)), nontrivial=True); ctx.count('special:p1-near-degenerate')
        info = output_oracles(ctx, 'p1-4site', d4, jn4, (pre, be, preT, beT), dip, res, rep)
        if info['nviol']:
            found = True
            if ctx.quick: break
    # (2c) one slow mode: a site reachable only over barriers ~ 20-24 kT higher than the rest
    for t in range(4 if ctx.quick else 40):
        pre = [1.] * ns; be = [0.] * ns; preT = [1.] * nj
        iso = rng.randrange(d4.N)
        big = rng.uniform(19., 25.)
        beT = [1. + rng.uniform(0, 1) + (big if any(iso in (i, j) for (i, j), dx in cls) else 0.) for cls in jn4]
        dip = rand_dipoles(rng, ns, 3)
        rep = dict(network='p1-4site', pre=pre, betaene=be, preT=preT, betaeneT=beT, dipole=[p.tolist() for p in dip])
        res = d4.losstensors(pre, be, dip, preT, beT)
        ctx.case(('p1-slow', t, str(beT)), nontrivial=True); ctx.count('special:p1-slow-mode')
        output_oracles(ctx, 'p1-4site', d4, jn4, (pre, be, preT, beT), dip, res, rep)


def search(ctx, reasons):
    """a proof obligation or the correspondence broke: direct oracles only"""
    nets = ic.networks()
    for t in range(60 if ctx.quick else 600):
        name, crys, chem, sl, jn = nets[t % len(nets)]
        diffuser, ljumps = _diffuser(name, crys, chem, sl, jn)
        data = ic.rand_data(ctx.rng, len(sl), len(jn), emax=4)
        dip = rand_dipoles(ctx.rng, len(sl), crys.dim)
        args = ic.py_args(data)
        rep = dict(network=name, data={k: [str(x) for x in v] if isinstance(v, list) else str(v) for k, v in data.items()},
                   dipole=[p.tolist() for p in dip], _data=data)
        res = diffuser.losstensors(args[0], args[1], dip, args[2], args[3])
        output_oracles(ctx, name, diffuser, jn, args, dip, res, rep)
        if ctx.budget_left() < 20: break
    for v in ctx.violations:
        if isinstance(v.get('replay'), dict): v['replay'].pop('_data', None)
    special(ctx)
