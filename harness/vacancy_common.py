"""
Shared helpers for the vacancy-mediated calculator properties (C01, C03-C09, C14 ...):
small calculators, random thermodynamic data, direct oracles on VacancyMediated.Lij.
"""
import math, itertools
import numpy as np

_CALC = {}


def crystals():
    from onsager import crystal
    a = 1.0
    out = {}
    out['fcc'] = (crystal.Crystal.FCC(a, chemistry='A'), 0, 0.75 * a)
    out['bcc'] = (crystal.Crystal.BCC(a, chemistry='A'), 0, 0.9 * a)
    out['sc'] = (crystal.Crystal(a * np.eye(3), [np.zeros(3)], chemistry=['A']), 0, 1.01 * a)
    out['hcp'] = (crystal.Crystal.HCP(a, chemistry='A'), 0, 1.01 * a)
    out['sq2d'] = (crystal.Crystal(a * np.eye(2), [np.zeros(2)], chemistry=['A']), 0, 1.01 * a)
    out['tri2d'] = (crystal.Crystal(a * np.array([[1., .5], [0., math.sqrt(3) / 2]]), [np.zeros(2)], chemistry=['A']), 0, 1.01 * a)
    out['honey2d'] = (crystal.Crystal(a * np.array([[1., .5], [0., math.sqrt(3) / 2]]),
                                      [np.array([1. / 3., 1. / 3.]), np.array([2. / 3., 2. / 3.])], chemistry=['A']), 0, 0.6 * a)
    # two Wyckoff sets with a non-zero site vector basis (origin-state corrections): rumpled two-site tetragonal cell
    out['rumpled'] = (crystal.Crystal(np.diag([a, a, 1.4 * a]), [np.array([0., 0., 0.]), np.array([.5, .5, .45])], chemistry=['A']),
                      0, 1.05 * a)
    # 2-D two-site cell without inversion at the sites (vector basis non-empty)
    out['rect2d-2site'] = (crystal.Crystal(np.array([[1., 0.], [0., 1.3]]), [np.array([0., 0.]), np.array([.5, .4])], chemistry=['A']),
                           0, 1.05)
    # low symmetry (point group -1): the clause "Lsv symmetric" is not implied by symmetry here
    out['triclinic'] = (crystal.Crystal(np.array([[1., 0.25, 0.1], [0., 1.1, 0.2], [0., 0., 1.2]]), [np.zeros(3)], chemistry=['A']),
                        0, 1.25)
    # two Wyckoff sets on the vacancy sublattice: tetragonal cell, A at the corner and at the body centre, made
    # inequivalent by a B atom on the c axis
    out['twoW'] = (crystal.Crystal(np.diag([a, a, 1.25 * a]), [[np.zeros(3), np.array([.5, .5, .5])], [np.array([0., 0., .5])]],
                                   chemistry=['A', 'B']), 0, 1.02 * a)
    # orthorhombic with principal diffusivities in cyclic order, and monoclinic: the eigenvector matrix of D is not symmetric
    out['ortho'] = (crystal.Crystal(np.diag([1.1 * a, 0.9 * a, a]), [np.zeros(3)], chemistry=['A']), 0, 1.15 * a)
    out['mono'] = (crystal.Crystal(np.array([[1., 0., 0.35], [0., 0.9, 0.], [0., 0., 1.1]]), [np.zeros(3)], chemistry=['A']), 0, 1.2)
    out['oblique2d'] = (crystal.Crystal(np.array([[1., 0.3], [0., 1.15]]), [np.zeros(2)], chemistry=['A']), 0, 1.25)
    # omega structure with the two-site Wyckoff set listed FIRST: sitelist [[0,1],[2]], i.e. the first site of set w is not site w
    hexl = a * np.array([[0.5, 0.5, 0.], [-math.sqrt(3) / 2, math.sqrt(3) / 2, 0.], [0., 0., 0.62]])
    out['omegaR'] = (crystal.Crystal(hexl, [np.array([1. / 3., 2. / 3., .5]), np.array([2. / 3., 1. / 3., .5]), np.zeros(3)], chemistry=['A']),
                     0, 0.66 * a)
    # the same structure with the Wyckoff sets interleaved in site index: sitelist [[0,2],[1]]
    out['omegaI'] = (crystal.Crystal(hexl, [np.array([1. / 3., 2. / 3., .5]), np.zeros(3), np.array([2. / 3., 1. / 3., .5])], chemistry=['A']),
                     0, 0.66 * a)
    return out


def has_invariant_axial(crys):
    """True when the point group leaves a non-zero antisymmetric tensor invariant (character average > 0)."""
    rots = {tuple(np.round(g.cartrot, 8).flatten()) for g in crys.G}
    tot = 0.0
    for r in rots:
        R = np.array(r).reshape(crys.dim, crys.dim)
        tot += 0.5 * (np.trace(R) ** 2 - np.trace(R @ R))
    return tot / len(rots) > 0.5


def calculator(name, nthermo=1, ngf=4):
    """Cached VacancyMediated calculator (per process)."""
    key = (name, nthermo, ngf)
    if key not in _CALC:
        from onsager import OnsagerCalc
        crys, chem, cutoff = crystals()[name]
        sl = crys.sitelist(chem)
        jn = crys.jumpnetwork(chem, cutoff)
        _CALC[key] = OnsagerCalc.VacancyMediated(crys, chem, sl, jn, nthermo, NGFmax=ngf)
    return _CALC[key]


def fresh_calculator(name, nthermo=1, ngf=4):
    from onsager import OnsagerCalc
    crys, chem, cutoff = crystals()[name]
    return OnsagerCalc.VacancyMediated(crys, chem, crys.sitelist(chem), crys.jumpnetwork(chem, cutoff), nthermo, NGFmax=ngf)


def rand_data(rng, calc, spread=1.0, tracer=False):
    """Random prefactors/energies (kT = 1).  Returns the keyword dictionary of preene2betafree."""
    NW, Nth, N0 = len(calc.sitelist), calc.thermo.Nstars, len(calc.om0_jn)
    u = lambda n, s=spread: np.array([rng.uniform(-s, s) for _ in range(n)])
    p = lambda n: np.array([math.exp(rng.uniform(-0.7, 0.7)) for _ in range(n)])
    d = dict(preV=p(NW), eneV=u(NW), preT0=p(N0), eneT0=u(N0) + 1.5 * spread)
    if tracer:
        d.update(calc.maketracerpreene(**d))
        return d
    d.update(preS=p(NW), eneS=u(NW), preSV=p(Nth), eneSV=u(Nth, 0.7 * spread))
    d.update(calc.makeLIMBpreene(**d))
    d['preT1'] = d['preT1'] * p(len(d['preT1'])); d['eneT1'] = d['eneT1'] + u(len(d['eneT1']), 0.5 * spread)
    d['preT2'] = d['preT2'] * p(len(d['preT2'])); d['eneT2'] = d['eneT2'] + u(len(d['eneT2']), 0.5 * spread)
    return d


def lij(calc, d, kT=1.0, **kw):
    return calc.Lij(*calc.preene2betafree(kT, **d), **kw)


def jsonable(d):
    return {k: (np.asarray(v).tolist()) for k, v in d.items()}


def small_calculators(ctx):
    names = ['fcc', 'sq2d', 'rect2d-2site', 'oblique2d', 'hcp', 'twoW'] if ctx.quick else \
        ['fcc', 'bcc', 'hcp', 'sq2d', 'tri2d', 'honey2d', 'rumpled', 'twoW', 'omegaR', 'rect2d-2site', 'oblique2d', 'triclinic']
    return [(n, calculator(n, 1)) for n in names]


def monotonicity_oracle(ctx, named_calc):
    """C05 on the implementation: lower each omega0/omega1/omega2 transition-state energy individually."""
    name, calc = named_calc
    rng = ctx.rng
    ndata = 2 if ctx.quick else 4      # odd data sets exercise the large-omega2 algorithm
    multi = len(calc.sitelist) > 1     # several Wyckoff sets: complexes with solute and vacancy on inequivalent sites
    if multi: ndata *= 3
    for t in range(ndata):
        d = rand_data(rng, calc, spread=(1.0 if (not multi or t < 2) else 2.5))
        large = (t % 2 == 1)
        if large:
            d['preT2'] = d['preT2'] * 1e9   # regime of the large-omega2 algorithm
        L0 = lij(calc, d)
        scale = max(abs(L0[0]).max(), abs(L0[1]).max(), 1e-300)
        # exchange rates many decades above the vacancy rates: the result carries roundoff proportional to that ratio (finding F31)
        ratio2 = float(np.max(d['preT2'] * np.exp(-d['eneT2'])) / np.min(d['preT0'] * np.exp(-d['eneT0']))) if large else 0.0
        classes = [('eneT0', j) for j in range(len(d['eneT0']))] + [('eneT1', j) for j in range(len(d['eneT1']))] + \
                  [('eneT2', j) for j in range(len(d['eneT2']))]
        if ctx.quick and len(classes) > 6:
            # always keep the exchange classes: they decide the large-omega2 branch
            keep = [c for c in classes if c[0] == 'eneT2']
            rest = [c for c in classes if c[0] != 'eneT2']
            classes = keep + rng.sample(rest, max(0, 6 - len(keep)))
        for which, j in classes:
            # omega2 barriers may be lowered without limit (large-omega2 algorithm); omega0/omega1 rates beyond ~1e9 times the
            # others are outside double precision (no property clause covers them) and the Green-function calculator refuses
            # diffusivity anisotropies beyond ~1e7 ("Problem isotropizing D?")
            # tiny steps too (finite-difference use): inputs that differ by less than any rounding a cache key might apply
            if ctx.quick: amt = rng.choice([1e-6, 1e-3, 0.1, 0.5, 2.0]) if which == 'eneT0' else rng.choice([1e-3, 0.1, 0.5, 2.0])
            elif which == 'eneT2': amt = rng.choice([1e-6, 1e-3, 0.1, 0.5, 2.0, 10.0, 40.0])
            elif which == 'eneT1': amt = rng.choice([1e-6, 1e-3, 0.1, 0.5, 2.0, 10.0, 20.0])
            else: amt = rng.choice([1e-6, 1e-3, 0.1, 0.5, 2.0, 6.0])
            d1 = {k: np.array(v, copy=True) for k, v in d.items()}
            d1[which][j] -= amt
            try:
                L1 = lij(calc, d1)
            except ArithmeticError as e:
                if 'isotropizing' in str(e):
                    ctx.count('vacancy:refused-extreme-anisotropy'); continue
                raise
            ctx.case(('vac', name, t, which, j, amt), nontrivial=True)
            ctx.count('vacancy:%s:%s' % (name, which) + (':large-om2' if large else ''))
            for idx, lab in ((0, 'L0vv'), (1, 'Lss')):
                diff = L1[idx] - L0[idx]
                sc = max(abs(L1[idx]).max(), abs(L0[idx]).max(), 1e-300)
                w = np.linalg.eigvalsh(0.5 * (diff + diff.T))
                cond = math.exp(min(amt, 40.0)) if which != 'eneT2' else 1.0     # conditioning of a very fast omega0/omega1 class
                # exchange rates 1e9 times the others: results carry roundoff of a few 1e-17 x that ratio (finding F31)
                r2 = ratio2
                if which == 'eneT2':
                    r2 = max(ratio2, float(np.max(d1['preT2'] * np.exp(-d1['eneT2'])) / np.min(d1['preT0'] * np.exp(-d1['eneT0']))))
                    if r2 < 1e6: r2 = 0.0
                extreme = r2 >= 1e13      # beyond this ratio crystals with inequivalent-site exchange lose all precision (finding F31)
                if w.min() < -(1e-7 + 1e-15 * cond + 1e-14 * min(r2, 1e13)) * sc:
                    os_tag = 'originstates' if len(calc.OSindices) > 0 else 'no-originstates'
                    ctx.violation('vacancy-decreases:%s:%s:%s:%s%s' % (lab, os_tag, which, name, ':om2ratio-ge1e13' if extreme else ''),
                                  '%s decreased (min eigenvalue of change %.3g, scale %.3g) when %s[%d] was lowered by %g on %s'
                                  % (lab, w.min(), sc, which, j, amt, name),
                                  dict(calculator=name, data=jsonable(d), lowered=[which, j, amt], large_om2=large,
                                       before=np.asarray(L0[idx]).tolist(), after=np.asarray(L1[idx]).tolist()))
